#!/bin/bash
# tools_seed.sh <worktree> <n> <prop>: confirm a seeded change (builds, tests pass, demo fails with / passes without) and run the checks on it.
# Developer tool used while collecting /verif/seeded; works in the scratch worktree only, never in /repo.
set -u
WT=$1; N=$2; PROP=$3
export GOFLAGS=-mod=mod GOPROXY=off
cd "$WT" || exit 2
git checkout -q -- . ; git checkout -q --detach "$(git -C /repo rev-parse HEAD)" 2>/dev/null
D=seeded/$N
run_demo() {
  if [ -f $D/demo.sh ]; then (bash $D/demo.sh >/tmp/demo.out 2>&1); echo $?;
  else
    pkg=$(grep -h -o 'cp [^ ]*demo_test.go [^ ]*' $D/README.md | head -1 | awk '{print $3}')
    echo "needs-manual($pkg)"; fi
}
base=$(run_demo)
git apply $D/patch.diff || { echo "SEED $PROP/$N: patch does not apply"; exit 1; }
go build ./... >/tmp/build.out 2>&1; b=$?
go test -count=1 ./... >/tmp/test.out 2>&1; t=$?
with=$(run_demo)
chk=$(${CRDCHECK:-/verif/bin/crdcheck} -p $PROP -repo "$WT" -noevidence 2>&1 | grep '^FINDING' | sed 's/.*rule=\([A-Z0-9-]*\).*construct="\([^"]*\)".*/\1:\2/' | sort -u | tr '\n' ' ')
all=$(${CRDCHECK:-/verif/bin/crdcheck} -p all -repo "$WT" -noevidence 2>&1 | grep '^FINDING' | sed 's/.*property=\(C[0-9]*\) rule=\([A-Z0-9-]*\).*/\1:\2/' | sort -u | tr '\n' ' ')
git checkout -q -- .
echo "SEED $PROP/$N: build=$b tests=$t demo(without)=$base demo(with)=$with | $PROP findings: ${chk:-NONE} | all: ${all:-NONE}"
