#!/bin/bash
# tools_regress.sh: every regression the machinery has, one summary line each (developer tool; several minutes).
cd /verif
echo "unchanged tree: $(bin/crdcheck -p all -noevidence 2>&1 | grep -c '0 violations')/17 properties without violations"
./tools_sweep.sh > /tmp/sweep.$$ 2>&1; echo "variants: $(grep -c 'rc=1' /tmp/sweep.$$) detected pairs, not detected: $(grep -vc 'rc=1' /tmp/sweep.$$)"; grep -v 'rc=1' /tmp/sweep.$$; rm -f /tmp/sweep.$$
./tools_benign.sh 2>&1 | tail -1
./tools_seeds_all.sh | grep -E "MISSED|APPLY|not detected" | grep -v ": APPLY," 
./tools_benign_refactors.sh | tail -3
