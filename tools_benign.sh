#!/bin/sh
# Every behaviour-preserving variant must leave all checks silent (exit 0 on every property).
cd "$(dirname "$0")"
bad=0
for f in variants/benign/*.json; do
  out=$(./bin/crdcheck -p all -variant $f -noevidence 2>&1); rc=$?
  if [ $rc -ne 0 ]; then bad=$((bad+1)); echo "FALSE ALARM on $(basename $f .json): $(echo "$out" | grep '^FINDING' | head -3 | cut -c1-220)"; fi
done
echo "$(ls variants/benign/*.json | wc -l) benign variants, $bad false alarms"
[ $bad -eq 0 ]
