#!/bin/bash
# tools_benign_patch.sh <worktree> <n>: apply a behaviour-preserving patch in the scratch worktree and list any findings (false alarms).
WT=$1; N=$2
export GOFLAGS=-mod=mod GOPROXY=off
cd "$WT" || exit 2
git checkout -q -- . ; git clean -fdq -e benign -e seeded -e crd.bin; git checkout -q --detach "$(git -C /repo rev-parse HEAD)" 2>/dev/null
git apply benign/$N/patch.diff || { echo "BENIGN $(basename $WT)/$N: patch does not apply"; exit 1; }
go build ./... >/tmp/bbuild.out 2>&1; b=$?
out=$(${CRDCHECK:-/verif/bin/crdcheck} -p all -repo "$WT" -noevidence 2>&1); rc=$?
f=$(echo "$out" | grep '^FINDING' | sed 's/.*rule=\([A-Z0-9-]*\) kind=\([a-z]*\) construct="\([^"]*\)".*/\1(\2):\3/' | sort -u | tr '\n' ' ')
git checkout -q -- . ; git clean -fdq -e benign -e seeded -e crd.bin
echo "BENIGN $(basename $WT)/$N: build=$b rc=$rc ${f:-silent} $(echo "$out" | grep 'cannot analyse\|internal error' | head -1 | cut -c1-200)"
