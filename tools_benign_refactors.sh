#!/bin/bash
# tools_benign_refactors.sh: apply every stored behaviour-preserving refactor (written by independent agents that saw
# nothing of /verif) in scratch worktrees under /tmp (6 in parallel) and run all checks on it. Every finding is a false
# alarm. benign_refactors/EXPECTED_ALARMS lists the ones that are known and documented in DESIGN.md.
set -u
export GOFLAGS=-mod=mod GOPROXY=off
J=${J:-6}
worker() {
  k=$1; WT=/tmp/wt-benignref-$$-$k
  git -C /repo worktree add -q --detach "$WT" HEAD || exit 2
  i=0
  for d in /verif/benign_refactors/*/; do
    i=$((i+1)); [ $((i % J)) -eq $k ] || continue
    id=$(basename "$d")
    if ! git -C "$WT" apply "$d/patch.diff" 2>/dev/null; then echo "$id: PATCH-DOES-NOT-APPLY"; continue; fi
    if ! (cd "$WT" && go build ./... >/dev/null 2>&1); then echo "$id: DOES-NOT-BUILD"; fi
    out=$(/verif/bin/crdcheck -p all -repo "$WT" -noevidence 2>&1 | grep '^FINDING' | sed 's/.*rule=\([A-Z0-9-]*\) kind=\([a-z]*\) construct="\([^"]*\)".*/\1:\3/' | sort -u | tr '\n' ' ')
    git -C "$WT" checkout -q -- . ; git -C "$WT" clean -fdq
    if [ -n "$out" ]; then
      if grep -q "^$id\b" /verif/benign_refactors/EXPECTED_ALARMS 2>/dev/null; then echo "$id: known false alarm: $out"; else echo "$id: FALSE ALARM: $out"; fi
    else echo "$id: silent"; fi
  done
  git -C /repo worktree remove --force "$WT" >/dev/null 2>&1
}
for k in $(seq 0 $((J-1))); do worker $k > /tmp/benignref-$$-$k.out & done
wait
cat /tmp/benignref-$$-*.out | sort -V > /tmp/benignref-$$.all; rm -f /tmp/benignref-$$-*.out
grep -v ": silent" /tmp/benignref-$$.all
n=$(wc -l < /tmp/benignref-$$.all); alarms=$(grep -vc ": silent" /tmp/benignref-$$.all); unexpected=$(grep -c -E "FALSE ALARM|DOES-NOT|PATCH-DOES" /tmp/benignref-$$.all); rm -f /tmp/benignref-$$.all
echo "$n benign refactors, $alarms with findings, $unexpected unexpected"
[ "$unexpected" -eq 0 ]
