#!/bin/bash
# tools_benign_refactors.sh: apply every stored behaviour-preserving refactor (written by independent agents that saw
# nothing of /verif) in a scratch worktree under /tmp and run all checks on it. Every finding is a false alarm.
# benign_refactors/EXPECTED_ALARMS lists the ones that are known and documented in DESIGN.md.
set -u
export GOFLAGS=-mod=mod GOPROXY=off
WT=/tmp/wt-benignref-$$
git -C /repo worktree add -q --detach "$WT" HEAD || exit 2
trap 'git -C /repo worktree remove --force "$WT" >/dev/null 2>&1' EXIT
n=0; alarms=0; unexpected=0
for d in /verif/benign_refactors/*/; do
  id=$(basename "$d"); n=$((n+1))
  if ! git -C "$WT" apply "$d/patch.diff" 2>/dev/null; then echo "$id: PATCH-DOES-NOT-APPLY"; unexpected=$((unexpected+1)); continue; fi
  if ! (cd "$WT" && go build ./... >/dev/null 2>&1); then echo "$id: DOES-NOT-BUILD"; unexpected=$((unexpected+1)); fi
  out=$(/verif/bin/crdcheck -p all -repo "$WT" -noevidence 2>&1 | grep '^FINDING' | sed 's/.*rule=\([A-Z0-9-]*\) kind=\([a-z]*\) construct="\([^"]*\)".*/\1:\3/' | sort -u | tr '\n' ' ')
  git -C "$WT" checkout -q -- . ; git -C "$WT" clean -fdq
  if [ -n "$out" ]; then
    alarms=$((alarms+1))
    if grep -q "^$id\b" /verif/benign_refactors/EXPECTED_ALARMS 2>/dev/null; then echo "$id: known false alarm: $out"; else echo "$id: FALSE ALARM: $out"; unexpected=$((unexpected+1)); fi
  fi
done
echo "$n benign refactors, $alarms with findings, $unexpected unexpected"
[ $unexpected -eq 0 ]
