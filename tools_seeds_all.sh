#!/bin/bash
# tools_seeds_all.sh: re-run the property's check on every stored seeded change (applied in a scratch worktree under /tmp, never in /repo).
# Prints one line per seed; exit 1 if any seed is no longer detected.
set -u
export GOFLAGS=-mod=mod GOPROXY=off
WT=/tmp/wt-seedcheck-$$
git -C /repo worktree add -q --detach "$WT" HEAD || exit 2
trap 'git -C /repo worktree remove --force "$WT" >/dev/null 2>&1' EXIT
miss=0; n=0
for d in /verif/seeded/*/; do
  id=$(basename "$d"); prop=$(jq -r .property "$d/meta.json")
  n=$((n+1))
  if ! git -C "$WT" apply "$d/patch.diff" 2>/dev/null; then echo "$id $prop: PATCH-DOES-NOT-APPLY"; miss=$((miss+1)); continue; fi
  out=$(/verif/bin/crdcheck -p "$prop" -repo "$WT" -noevidence 2>&1 | grep '^FINDING' | sed 's/.*rule=\([A-Z0-9-]*\).*/\1/' | sort -u | tr '\n' ',')
  git -C "$WT" checkout -q -- . ; git -C "$WT" clean -fdq
  if [ -z "$out" ]; then echo "$id $prop: MISSED"; miss=$((miss+1)); else echo "$id $prop: $out"; fi
done
echo "$n seeded changes, $miss not detected"
[ $miss -eq 0 ]
