#!/bin/bash
# tools_seeds_all.sh: re-run the property's check on every stored seeded change (applied in scratch worktrees under /tmp,
# never in /repo; 6 worktrees in parallel). Prints one line per seed; exit 1 if any seed is no longer detected.
set -u
export GOFLAGS=-mod=mod GOPROXY=off
J=6
worker() {
  k=$1; WT=/tmp/wt-seedcheck-$$-$k
  git -C /repo worktree add -q --detach "$WT" HEAD || exit 2
  i=0
  for d in /verif/seeded/*/; do
    i=$((i+1)); [ $((i % J)) -eq $k ] || continue
    id=$(basename "$d"); prop=$(jq -r .property "$d/meta.json")
    if ! git -C "$WT" apply "$d/patch.diff" 2>/dev/null; then echo "$id $prop: PATCH-DOES-NOT-APPLY"; continue; fi
    out=$(/verif/bin/crdcheck -p "$prop" -repo "$WT" -noevidence 2>&1 | grep '^FINDING' | sed 's/.*rule=\([A-Z0-9-]*\).*/\1/' | sort -u | tr '\n' ',')
    git -C "$WT" checkout -q -- . ; git -C "$WT" clean -fdq
    if [ -z "$out" ]; then echo "$id $prop: MISSED"; else echo "$id $prop: $out"; fi
  done
  git -C /repo worktree remove --force "$WT" >/dev/null 2>&1
}
for k in $(seq 0 $((J-1))); do worker $k > /tmp/seedcheck-$$-$k.out & done
wait
cat /tmp/seedcheck-$$-*.out | sort > /tmp/seedcheck-$$.all; rm -f /tmp/seedcheck-$$-*.out
cat /tmp/seedcheck-$$.all
n=$(wc -l < /tmp/seedcheck-$$.all); miss=$(grep -c -E ": MISSED|PATCH-DOES-NOT-APPLY" /tmp/seedcheck-$$.all); rm -f /tmp/seedcheck-$$.all
echo "$n seeded changes, $miss not detected"
[ "$miss" -eq 0 ]
