#!/bin/sh
# Entry point of every registered check: (re)builds the checker if needed, then runs it on /repo's current tree.
set -u
cd "$(dirname "$0")"
export GOFLAGS=-mod=mod GOPROXY=off GOWORK=off GOTOOLCHAIN=auto
unset GOSUMDB 2>/dev/null || true
need=0
[ -x bin/crdcheck ] || need=1
if [ $need -eq 0 ] && [ -n "$(find checker -name '*.go' -newer bin/crdcheck 2>/dev/null | head -1)" ]; then need=1; fi
if [ $need -eq 1 ]; then
  (cd checker && go build -o ../bin/crdcheck .) || { echo "crdcheck: build failed" >&2; exit 2; }
fi
case "${1:-}" in
  -replay) exec ./bin/crdcheck -replay "$2" ;;
  all) exec ./bin/crdcheck -p all -tier "${2:-quick}" ;;
  C*) exec ./bin/crdcheck -p "$1" -tier "${2:-quick}" ;;
  *) exec ./bin/crdcheck "$@" ;;
esac
