#!/usr/bin/env python3-vt
"""Validate MANIFEST.json and evidence/*.json against the published schemas."""
import json, sys, glob, jsonschema
ok = True
m = json.load(open('/verif/MANIFEST.json'))
jsonschema.validate(m, json.load(open('/root/.vp/MANIFEST.schema.json')))
es = json.load(open('/root/.vp/EVIDENCE.schema.json'))
for c in m['checks']:
    try:
        jsonschema.validate(json.load(open(c['evidence_file'])), es)
    except Exception as e:
        ok = False
        print('evidence', c['property_id'], 'INVALID:', str(e)[:300])
print('manifest ok;', len(m['checks']), 'checks;', len(m.get('not_applicable', [])), 'not applicable; evidence', 'ok' if ok else 'BAD')
sys.exit(0 if ok else 1)
