#!/bin/sh
# Run every stored variant against all properties it names; print one line each. (Developer tool; the thorough tier does the same per property.)
cd "$(dirname "$0")"
for f in variants/*.json; do
  id=$(basename $f .json)
  props=$(python3 -c "import json,sys; print(' '.join(json.load(open('$f'))['properties']))")
  for p in $props; do
    out=$(./bin/crdcheck -p $p -variant $f -noevidence 2>&1); rc=$?
    rules=$(echo "$out" | grep '^FINDING' | sed 's/.*rule=\([A-Z0-9-]*\).*/\1/' | sort -u | tr '\n' ',')
    echo "$id $p rc=$rc $rules"
  done
done
