#!/bin/bash
# Run every stored variant against all properties it names (8 at a time); print one line each.
# (Developer tool; the thorough tier does the same per property.)
cd "$(dirname "$0")"
one() {
  f=$1; p=$2; id=$(basename $f .json)
  out=$(./bin/crdcheck -p $p -variant $f -noevidence 2>&1); rc=$?
  rules=$(echo "$out" | grep '^FINDING' | sed 's/.*rule=\([A-Z0-9-]*\).*/\1/' | sort -u | tr '\n' ',')
  echo "$id $p rc=$rc $rules"
}
export -f one
for f in variants/*.json; do
  for p in $(python3 -c "import json,sys; print(' '.join(json.load(open('$f'))['properties']))"); do
    echo "$f $p"
  done
done | xargs -P 8 -n 2 bash -c 'one "$0" "$1"' | sort
