#!/bin/bash
# tools_import_seed.sh <worktree> <n> <prop> <id> "<needs>" : confirm a sub-agent's change once more and store it under /verif/seeded/<id>/.
set -u
WT=$1; N=$2; PROP=$3; ID=$4; NEEDS=$5
line=$(/verif/tools_seed.sh "$WT" "$N" "$PROP")
echo "$line"
case "$line" in *"build=0 tests=0 demo(without)=0 demo(with)=1"*) ;; *) echo "NOT CONFIRMED: not stored"; exit 1;; esac
D=/verif/seeded/$ID
mkdir -p $D
cp $WT/seeded/$N/patch.diff $D/patch.diff
for f in demo.sh demo_test.go README.md; do [ -f $WT/seeded/$N/$f ] && cp $WT/seeded/$N/$f $D/$f; done
det=$(echo "$line" | sed 's/.*| '"$PROP"' findings: \(.*\) | all:.*/\1/')
all=$(echo "$line" | sed 's/.*| all: //')
python3 - "$D" "$PROP" "$ID" "$NEEDS" "$det" "$all" <<'PY'
import json,sys
d,prop,id_,needs,det,all_=sys.argv[1:7]
json.dump({
 "id": id_, "property": prop, "source": "independent sub-agent working only from the property text in a scratch worktree",
 "needs_to_manifest": needs,
 "confirmed": {"go build ./...": "ok", "go test -count=1 ./... (with the change)": "all packages ok", "demonstration without the change": "passes (exit 0)", "demonstration with the change": "fails (exit 1)"},
 "how_to_run_demo": "in a scratch worktree of /repo at HEAD: git apply patch.diff; bash demo.sh (exit 1 = property violated); git checkout -- .",
 "checker_result_on_claimed_property": det.strip() or "NONE (missed)",
 "checker_result_all_properties": all_.strip() or "NONE",
}, open(d+"/meta.json","w"), indent=1)
PY
