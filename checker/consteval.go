package main

import (
	"fmt"
	"go/ast"
	"go/constant"
	"go/token"
	"go/types"
	"strings"

	"golang.org/x/tools/go/packages"
	"golang.org/x/tools/go/ssa"
)

// Val is an extracted compile-time value:
//
//	*CVal    basic constant (int, string, bool, float) with its Go type
//	*StructV struct literal
//	*MapV    map literal (ordered as written)
//	*ListV   slice/array literal
type Val interface{ vstr() string }

type CVal struct {
	V constant.Value
	T types.Type
	c *Ctx
}

type StructV struct {
	T      types.Type
	Fields map[string]Val
	Order  []string
}

type KV struct {
	K, V Val
	Pos  token.Pos
}

type MapV struct {
	T       types.Type
	Entries []KV
}

type ListV struct {
	T     types.Type
	Elems []Val
	Poss  []token.Pos
}

// PtrV: a pointer to an immutable value (an element of a list of pointers handed to a fold as input).
type PtrV struct {
	Elem Val
}

func (v *PtrV) vstr() string { return "&" + v.Elem.vstr() }

// NilV: a nil pointer, slice, map, interface or function stored in a map or a list during a fold.
type NilV struct {
	T types.Type
}

func (v *NilV) vstr() string { return "nil" }

// RefV: a pointer into the memory of the fold that made it (a pointer stored in a map or a list during a fold); only
// meaningful within that fold.
type RefV struct {
	Addr *faddr
}

func (v *RefV) vstr() string {
	return fmt.Sprintf("&cell%p%s", v.Addr.base, strings.Join(v.Addr.path, "."))
}

// FuncV: a function value named in a table (a package-level function or a method expression T.m; the latter takes the
// receiver as its first argument, as the method's SSA function does).
type FuncV struct {
	F  *types.Func
	Fn *ssa.Function
}

func (v *FuncV) vstr() string {
	if v.F == nil {
		return "func:" + v.Fn.String()
	}
	return "func:" + v.F.FullName()
}

func (v *CVal) vstr() string {
	if v.c != nil {
		if n := v.c.constName(v.T, v.V); n != "" {
			return n
		}
	}
	return v.V.ExactString()
}
func (v *StructV) vstr() string {
	var ss []string
	for _, f := range v.Order {
		ss = append(ss, f+":"+v.Fields[f].vstr())
	}
	return "{" + strings.Join(ss, ",") + "}"
}
func (v *MapV) vstr() string {
	var ss []string
	for _, e := range v.Entries {
		ss = append(ss, e.K.vstr()+":"+e.V.vstr())
	}
	return "map[" + strings.Join(ss, " ") + "]"
}
func (v *ListV) vstr() string {
	var ss []string
	for _, e := range v.Elems {
		ss = append(ss, e.vstr())
	}
	return "[" + strings.Join(ss, " ") + "]"
}

func (v *CVal) Int() (int64, bool) {
	if v.V.Kind() == constant.Int {
		return constant.Int64Val(v.V)
	}
	return 0, false
}
func (v *CVal) Str() (string, bool) {
	if v.V.Kind() == constant.String {
		return constant.StringVal(v.V), true
	}
	return "", false
}
func (v *CVal) Bool() (bool, bool) {
	if v.V.Kind() == constant.Bool {
		return constant.BoolVal(v.V), true
	}
	return false, false
}

func asInt(v Val) (int64, bool) {
	if c, ok := v.(*CVal); ok {
		return c.Int()
	}
	return 0, false
}
func asStr(v Val) (string, bool) {
	if c, ok := v.(*CVal); ok {
		return c.Str()
	}
	return "", false
}

// constName maps (enum type, value) to the declared constant name, e.g. (note.Name, 1) -> "C".
func (c *Ctx) constName(t types.Type, v constant.Value) string {
	n := namedOf(t)
	if n == nil || n.Obj().Pkg() == nil {
		return ""
	}
	if _, isPtr := t.(*types.Pointer); isPtr {
		return ""
	}
	sc := n.Obj().Pkg().Scope()
	best := ""
	for _, name := range sc.Names() {
		if k, ok := sc.Lookup(name).(*types.Const); ok && types.Identical(k.Type(), n) && constant.Compare(k.Val(), token.EQL, v) {
			if best == "" || len(name) < len(best) && strings.HasPrefix(best, "Unknown") {
				best = name
			}
		}
	}
	return best
}

// enumValue finds the constant named name of the given type.
func (c *Ctx) enumConsts(pkgrel, typeName string) map[string]int64 {
	out := map[string]int64{}
	p := c.pkg(pkgrel)
	if p == nil {
		return out
	}
	tn, _ := p.Types.Scope().Lookup(typeName).(*types.TypeName)
	if tn == nil {
		return out
	}
	for _, name := range p.Types.Scope().Names() {
		if k, ok := p.Types.Scope().Lookup(name).(*types.Const); ok && types.Identical(k.Type(), tn.Type()) {
			if i, ok := constant.Int64Val(k.Val()); ok {
				out[name] = i
			}
		}
	}
	return out
}

type evaluator struct {
	c     *Ctx
	depth int
}

// pkgOfObj finds the loaded package declaring obj.
func (c *Ctx) pkgOfObj(obj types.Object) *packages.Package {
	if obj == nil || obj.Pkg() == nil {
		return nil
	}
	return c.AllPkgs[obj.Pkg().Path()]
}

// varInit finds the initialiser expression of a package-level variable.
func (c *Ctx) varInit(v *types.Var) (ast.Expr, *packages.Package) {
	p := c.pkgOfObj(v)
	if p == nil {
		return nil, nil
	}
	for _, f := range p.Syntax {
		for _, d := range f.Decls {
			gd, ok := d.(*ast.GenDecl)
			if !ok || gd.Tok != token.VAR {
				continue
			}
			for _, s := range gd.Specs {
				vs := s.(*ast.ValueSpec)
				for i, n := range vs.Names {
					if p.TypesInfo.Defs[n] == v {
						if len(vs.Values) == len(vs.Names) {
							return vs.Values[i], p
						}
						if len(vs.Values) == 1 {
							return vs.Values[0], p // multi-value call, e.g. x, _ = f()
						}
						return nil, p
					}
				}
			}
		}
	}
	return nil, p
}

// eval evaluates expr (declared in package p) to a Val, or returns an error for non-constant shapes.
func (c *Ctx) eval(p *packages.Package, e ast.Expr) (Val, error) {
	ev := &evaluator{c: c}
	return ev.eval(p, e)
}

func (ev *evaluator) eval(p *packages.Package, e ast.Expr) (Val, error) {
	ev.depth++
	defer func() { ev.depth-- }()
	if ev.depth > 40 {
		return nil, fmt.Errorf("evaluation too deep")
	}
	info := p.TypesInfo
	if tv, ok := info.Types[e]; ok && tv.Value != nil {
		return &CVal{V: tv.Value, T: tv.Type, c: ev.c}, nil
	}
	switch x := e.(type) {
	case *ast.ParenExpr:
		return ev.eval(p, x.X)
	case *ast.Ident:
		obj := info.Uses[x]
		if f, ok := obj.(*types.Func); ok {
			if sf := ev.c.Prog.FuncValue(f); sf != nil {
				return &FuncV{F: f, Fn: sf}, nil
			}
		}
		if v, ok := obj.(*types.Var); ok && v.Parent() == v.Pkg().Scope() {
			init, ip := ev.c.varInit(v)
			if init == nil {
				return nil, fmt.Errorf("variable %s has no evaluable initialiser", v.Name())
			}
			return ev.eval(ip, init)
		}
		return nil, fmt.Errorf("identifier %s is not a constant or package-level variable", x.Name)
	case *ast.SelectorExpr:
		obj := info.Uses[x.Sel]
		if f, ok := obj.(*types.Func); ok {
			sel, isSel := info.Selections[x]
			// pkg.Func, or a method expression T.m on a concrete type without embedding in between
			if !isSel || (sel.Kind() == types.MethodExpr && len(sel.Index()) == 1 && !types.IsInterface(sel.Recv())) {
				if sf := ev.c.Prog.FuncValue(f); sf != nil {
					if !isSel || types.Identical(sel.Recv(), f.Type().(*types.Signature).Recv().Type()) {
						return &FuncV{F: f, Fn: sf}, nil
					}
				}
			}
			return nil, fmt.Errorf("function value %s is not a plain function or method expression", x.Sel.Name)
		}
		if v, ok := obj.(*types.Var); ok && !v.IsField() && v.Parent() == v.Pkg().Scope() {
			init, ip := ev.c.varInit(v)
			if init == nil {
				return nil, fmt.Errorf("variable %s has no evaluable initialiser", v.Name())
			}
			return ev.eval(ip, init)
		}
		// field of an evaluable struct
		base, err := ev.eval(p, x.X)
		if err != nil {
			return nil, err
		}
		if sv, ok := base.(*StructV); ok {
			if f, ok := sv.Fields[x.Sel.Name]; ok {
				return f, nil
			}
			// zero value of absent field
			return ev.zero(info.TypeOf(x)), nil
		}
		return nil, fmt.Errorf("selector %s on non-struct", x.Sel.Name)
	case *ast.UnaryExpr:
		if x.Op == token.AND {
			return ev.eval(p, x.X)
		}
		return nil, fmt.Errorf("unary %s on non-constant", x.Op)
	case *ast.CallExpr:
		// conversion T(x)
		if tv, ok := info.Types[x.Fun]; ok && tv.IsType() && len(x.Args) == 1 {
			v, err := ev.eval(p, x.Args[0])
			if err != nil {
				return nil, err
			}
			switch vv := v.(type) {
			case *ListV:
				return &ListV{T: tv.Type, Elems: vv.Elems, Poss: vv.Poss}, nil
			case *MapV:
				return &MapV{T: tv.Type, Entries: vv.Entries}, nil
			case *CVal:
				return &CVal{V: vv.V, T: tv.Type, c: ev.c}, nil
			}
			return v, nil
		}
		// a call of a repo function with evaluable arguments and one result (a constructor in a table): folded
		var callee *types.Func
		switch f := x.Fun.(type) {
		case *ast.Ident:
			callee, _ = info.Uses[f].(*types.Func)
		case *ast.SelectorExpr:
			if _, isSel := info.Selections[f]; !isSel {
				callee, _ = info.Uses[f.Sel].(*types.Func)
			}
		}
		if callee != nil && !x.Ellipsis.IsValid() {
			sf := ev.c.Prog.FuncValue(callee)
			sig := callee.Type().(*types.Signature)
			if sf != nil && ev.c.isRepoFunc(sf) && sig.Results().Len() == 1 && !sig.Variadic() && sig.Recv() == nil {
				var as []fval
				for _, a := range x.Args {
					v, err := ev.eval(p, a)
					if err != nil {
						return nil, err
					}
					as = append(as, fromVal(v))
				}
				r, err := ev.c.newFolder().foldCall(sf, as)
				if err != nil {
					return nil, fmt.Errorf("call %s does not fold: %v", types.ExprString(x.Fun), err)
				}
				if v, ok := toVal(r, sig.Results().At(0).Type(), ev.c); ok {
					return v, nil
				}
			}
		}
		return nil, fmt.Errorf("call %s is not evaluable", types.ExprString(x.Fun))
	case *ast.CompositeLit:
		t := info.TypeOf(x)
		return ev.composite(p, x, t)
	}
	return nil, fmt.Errorf("expression %T not evaluable", e)
}

func (ev *evaluator) zero(t types.Type) Val {
	switch u := t.Underlying().(type) {
	case *types.Basic:
		switch {
		case u.Info()&types.IsString != 0:
			return &CVal{V: constant.MakeString(""), T: t, c: ev.c}
		case u.Info()&types.IsBoolean != 0:
			return &CVal{V: constant.MakeBool(false), T: t, c: ev.c}
		default:
			return &CVal{V: constant.MakeInt64(0), T: t, c: ev.c}
		}
	case *types.Struct:
		return &StructV{T: t, Fields: map[string]Val{}}
	}
	return &ListV{T: t}
}

func (ev *evaluator) composite(p *packages.Package, x *ast.CompositeLit, t types.Type) (Val, error) {
	switch u := t.Underlying().(type) {
	case *types.Struct:
		sv := &StructV{T: t, Fields: map[string]Val{}}
		for i, el := range x.Elts {
			if kv, ok := el.(*ast.KeyValueExpr); ok {
				name := kv.Key.(*ast.Ident).Name
				v, err := ev.evalElem(p, kv.Value, fieldType(u, name))
				if err != nil {
					return nil, fmt.Errorf("field %s: %w", name, err)
				}
				sv.Fields[name] = v
				sv.Order = append(sv.Order, name)
			} else {
				name := u.Field(i).Name()
				v, err := ev.evalElem(p, el, u.Field(i).Type())
				if err != nil {
					return nil, fmt.Errorf("field %s: %w", name, err)
				}
				sv.Fields[name] = v
				sv.Order = append(sv.Order, name)
			}
		}
		return sv, nil
	case *types.Map:
		mv := &MapV{T: t}
		for _, el := range x.Elts {
			kv := el.(*ast.KeyValueExpr)
			k, err := ev.evalElem(p, kv.Key, u.Key())
			if err != nil {
				return nil, fmt.Errorf("map key: %w", err)
			}
			v, err := ev.evalElem(p, kv.Value, u.Elem())
			if err != nil {
				return nil, fmt.Errorf("map value for %s: %w", k.vstr(), err)
			}
			mv.Entries = append(mv.Entries, KV{k, v, kv.Pos()})
		}
		return mv, nil
	case *types.Slice, *types.Array:
		var et types.Type
		if s, ok := u.(*types.Slice); ok {
			et = s.Elem()
		} else {
			et = u.(*types.Array).Elem()
		}
		lv := &ListV{T: t}
		// elements may carry an index (`[...]T{C: 0, D: 2}`): the next element follows the last index, gaps hold zero values
		next := 0
		place := func(i int, v Val, pos token.Pos) {
			for len(lv.Elems) <= i {
				lv.Elems = append(lv.Elems, ev.zero(et))
				lv.Poss = append(lv.Poss, x.Pos())
			}
			lv.Elems[i], lv.Poss[i] = v, pos
		}
		for _, el := range x.Elts {
			if kv, ok := el.(*ast.KeyValueExpr); ok {
				tv, has := p.TypesInfo.Types[kv.Key]
				if !has || tv.Value == nil || tv.Value.Kind() != constant.Int {
					return nil, fmt.Errorf("element index is not a constant")
				}
				i, _ := constant.Int64Val(tv.Value)
				if i < 0 || i > 1<<16 {
					return nil, fmt.Errorf("element index %d out of range", i)
				}
				next = int(i)
				el = kv.Value
			}
			v, err := ev.evalElem(p, el, et)
			if err != nil {
				return nil, err
			}
			place(next, v, el.Pos())
			next++
		}
		if at, ok := u.(*types.Array); ok && at.Len() >= 0 && at.Len() <= 1<<16 {
			for int64(len(lv.Elems)) < at.Len() {
				lv.Elems = append(lv.Elems, ev.zero(et))
				lv.Poss = append(lv.Poss, x.Pos())
			}
		}
		return lv, nil
	}
	return nil, fmt.Errorf("composite literal of %s not supported", t)
}

func fieldType(s *types.Struct, name string) types.Type {
	for i := 0; i < s.NumFields(); i++ {
		if s.Field(i).Name() == name {
			return s.Field(i).Type()
		}
	}
	return nil
}

// evalElem evaluates an element whose composite type may be elided.
func (ev *evaluator) evalElem(p *packages.Package, e ast.Expr, t types.Type) (Val, error) {
	if cl, ok := e.(*ast.CompositeLit); ok && cl.Type == nil && t != nil {
		if pt, ok := t.Underlying().(*types.Pointer); ok {
			t = pt.Elem()
		}
		return ev.composite(p, cl, t)
	}
	return ev.eval(p, e)
}

// ---- locating tables ----

// pkgVar finds a package-level variable by name.
func (c *Ctx) pkgVar(pkgrel, name string) *types.Var {
	p := c.pkg(pkgrel)
	if p == nil {
		return nil
	}
	v, _ := p.Types.Scope().Lookup(name).(*types.Var)
	return v
}

// pkgVarsOfType finds package-level variables whose type string (module prefix stripped) equals ts.
func (c *Ctx) pkgVarsOfType(pkgrel, ts string) []*types.Var {
	p := c.pkg(pkgrel)
	if p == nil {
		return nil
	}
	var out []*types.Var
	for _, n := range p.Types.Scope().Names() {
		if v, ok := p.Types.Scope().Lookup(n).(*types.Var); ok && short(v.Type().String()) == ts {
			out = append(out, v)
		}
	}
	return out
}

// tableVar locates a table: prefer the unique package-level variable of the given type, else by name.
func (c *Ctx) tableVar(pkgrel, ts, name string) *types.Var {
	vs := c.pkgVarsOfType(pkgrel, ts)
	if len(vs) == 1 {
		return vs[0]
	}
	for _, v := range vs {
		if v.Name() == name {
			return v
		}
	}
	if v := c.pkgVar(pkgrel, name); v != nil {
		return v
	}
	return nil
}

// evalVar evaluates a package-level variable's initialiser.
func (c *Ctx) evalVar(v *types.Var) (Val, token.Pos, error) {
	init, p := c.varInit(v)
	if init == nil {
		return nil, v.Pos(), fmt.Errorf("no initialiser for %s", v.Name())
	}
	val, err := c.eval(p, init)
	return val, init.Pos(), err
}

// constOf returns a package-level constant's value.
func (c *Ctx) constOf(pkgrel, name string) (constant.Value, token.Pos, bool) {
	p := c.pkg(pkgrel)
	if p == nil {
		return nil, 0, false
	}
	k, ok := p.Types.Scope().Lookup(name).(*types.Const)
	if !ok {
		return nil, 0, false
	}
	return k.Val(), k.Pos(), true
}

// astFuncDecl finds a function/method declaration by name: "NewScale", "Degree.Semitone", "Opt.Update" (receiver base type name only).
func (c *Ctx) astFunc(pkgrel, name string) (*ast.FuncDecl, *packages.Package) {
	p := c.pkg(pkgrel)
	if p == nil {
		return nil, nil
	}
	// a renamed anchor (found by signature): take the declaration of the function it resolved to
	if f, ok := c.renamed[pkgrel+"|"+strings.Replace(strings.TrimPrefix(name, "(*"), ").", ".", 1)]; ok {
		if fd := c.funcDecl(f); fd != nil {
			return fd, p
		}
	}
	recv, meth := "", name
	n := strings.TrimPrefix(name, "(*")
	n = strings.Replace(n, ").", ".", 1)
	if i := strings.Index(n, "."); i >= 0 {
		recv, meth = n[:i], n[i+1:]
	}
	for _, f := range p.Syntax {
		for _, d := range f.Decls {
			fd, ok := d.(*ast.FuncDecl)
			if !ok || fd.Name.Name != meth {
				continue
			}
			if recv == "" && fd.Recv == nil {
				return fd, p
			}
			if recv != "" && fd.Recv != nil && len(fd.Recv.List) == 1 {
				t := fd.Recv.List[0].Type
				if s, ok := t.(*ast.StarExpr); ok {
					t = s.X
				}
				if ix, ok := t.(*ast.IndexExpr); ok {
					t = ix.X
				}
				if id, ok := t.(*ast.Ident); ok && id.Name == recv {
					return fd, p
				}
			}
		}
	}
	return nil, p
}
