package main

import (
	"fmt"
	"go/token"
	"go/types"
	"strings"

	"golang.org/x/tools/go/ssa"
)

// checkDecodedNilElements: YAML gives a nil element for a `null` (or empty) entry of a sequence of pointers. Every
// decode whose target is such a sequence refuses nil elements before it hands the sequence on: in the decoding
// function a loop over the whole decoded sequence compares each element with nil and returns an error for one, and no
// successful return is reached without that loop. (A consumer dereferences the elements: `- ~` crashed every write
// command with SIGSEGV.) A target type that holds a sequence or map of pointers further inside is reported as not
// reviewed.
func (c *Ctx) checkDecodedNilElements() {
	decodeNames := map[string]int{
		"gopkg.in/yaml.v3.Unmarshal":      1,
		"gopkg.in/yaml.v3.Node.Decode":    1,
		"gopkg.in/yaml.v3.Decoder.Decode": 1,
	}
	for _, fn := range c.srcFuncs() {
		for _, ci := range callsIn(fn) {
			ai, isDecode := decodeNames[calleeName(ci.Common())]
			if !isDecode || ai >= len(ci.Common().Args) {
				continue
			}
			target := ci.Common().Args[ai]
			if mi, ok := target.(*ssa.MakeInterface); ok {
				target = mi.X
			}
			pt, ok := target.Type().Underlying().(*types.Pointer)
			if !ok {
				continue
			}
			top, nested := pointerContainers(pt.Elem(), map[types.Type]bool{}, 0)
			if !top && nested == "" {
				continue
			}
			c.site(1)
			key := "nil-element|" + fname(fn) + "|" + types.TypeString(pt.Elem(), func(p *types.Package) string { return p.Name() })
			if nested != "" {
				c.bad(key, c.pos(ci.Pos()), fname(fn), fmt.Sprintf("%s decodes YAML into %s, which holds %s: a null entry arrives as a nil pointer and no reviewed check refuses it", fname(fn), pt.Elem(), nested))
				continue
			}
			problem := c.nilElementsRefused(fn, ci, target)
			c.check(problem == "", key, c.pos(ci.Pos()), fname(fn), "a null entry of the decoded sequence is refused before the sequence is handed on", fname(fn)+": "+problem+" (a YAML document such as `- ~` gives a nil element; the commands that read instances dereference it and crash)")
		}
	}
}

// pointerContainers: t is itself a slice / map of pointers (top), or holds one further inside (nested names it).
func pointerContainers(t types.Type, seen map[types.Type]bool, depth int) (bool, string) {
	if seen[t] || depth > 6 {
		return false, ""
	}
	seen[t] = true
	isPtr := func(e types.Type) bool {
		_, ok := e.Underlying().(*types.Pointer)
		return ok
	}
	switch u := t.Underlying().(type) {
	case *types.Slice:
		if isPtr(u.Elem()) {
			_, n := pointerContainers(u.Elem().Underlying().(*types.Pointer).Elem(), seen, depth+1)
			return depth == 0, firstNonEmpty(n, ifStr(depth > 0, "a sequence of pointers ("+t.String()+")"))
		}
		_, n := pointerContainers(u.Elem(), seen, depth+1)
		return false, n
	case *types.Array:
		_, n := pointerContainers(u.Elem(), seen, depth+1)
		return false, n
	case *types.Map:
		if isPtr(u.Elem()) {
			return false, "a map of pointers (" + t.String() + ")"
		}
		_, n := pointerContainers(u.Elem(), seen, depth+1)
		return false, n
	case *types.Pointer:
		_, n := pointerContainers(u.Elem(), seen, depth+1)
		return false, n
	case *types.Struct:
		// a type that decodes itself is judged at its own decode call
		if hasMethod(t, "UnmarshalYAML") {
			return false, ""
		}
		for i := 0; i < u.NumFields(); i++ {
			if tag := u.Tag(i); strings.Contains(tag, `yaml:"-"`) {
				continue
			}
			if _, n := pointerContainers(u.Field(i).Type(), seen, depth+1); n != "" {
				return false, n
			}
		}
	}
	return false, ""
}

func hasMethod(t types.Type, name string) bool {
	for _, tt := range []types.Type{t, types.NewPointer(t)} {
		ms := types.NewMethodSet(tt)
		for i := 0; i < ms.Len(); i++ {
			if ms.At(i).Obj().Name() == name {
				return true
			}
		}
	}
	return false
}

func firstNonEmpty(ss ...string) string {
	for _, s := range ss {
		if s != "" {
			return s
		}
	}
	return ""
}

func ifStr(b bool, s string) string {
	if b {
		return s
	}
	return ""
}

// nilElementsRefused: "" when fn, after the decode call, tests every element of the decoded sequence against nil in a
// loop over the whole sequence, answers a nil element with an error, and cannot return successfully past that loop.
func (c *Ctx) nilElementsRefused(fn *ssa.Function, decode ssa.CallInstruction, target ssa.Value) string {
	fromTarget := func(v ssa.Value) bool {
		// the decoded sequence: a load of the target variable
		for i := 0; i < 4; i++ {
			switch x := v.(type) {
			case *ssa.UnOp:
				if x.Op == token.MUL && x.X == target {
					return true
				}
				return false
			case *ssa.ChangeType:
				v = x.X
			case *ssa.Slice:
				if x.Low != nil || x.High != nil {
					return false
				}
				v = x.X
			default:
				return false
			}
		}
		return false
	}
	var header *ssa.BasicBlock
	problem := "no loop over the decoded sequence compares its elements with nil"
	for _, b := range fn.Blocks {
		iff, ok := b.Instrs[len(b.Instrs)-1].(*ssa.If)
		if !ok {
			continue
		}
		cmp, ok := iff.Cond.(*ssa.BinOp)
		if !ok || (cmp.Op != token.EQL && cmp.Op != token.NEQ) {
			continue
		}
		x, y := cmp.X, cmp.Y
		if isNilConst(x) {
			x, y = y, x
		}
		if !isNilConst(y) {
			continue
		}
		ld, ok := x.(*ssa.UnOp)
		if !ok || ld.Op != token.MUL {
			continue
		}
		ia, ok := ld.X.(*ssa.IndexAddr)
		if !ok || !fromTarget(ia.X) {
			continue
		}
		l := enclosingRangeLoop(b)
		if l == nil || ia.Index != l.index || !c.loopCoversSlice(b) {
			problem = "the nil test of the decoded elements does not run over the whole sequence"
			continue
		}
		if ln, ok := l.bound.(*ssa.Call); !ok || len(ln.Call.Args) != 1 || !fromTarget(ln.Call.Args[0]) {
			problem = "the loop with the nil test is not bounded by the length of the decoded sequence"
			continue
		}
		// the nil side ends in a return with an error
		side := b.Succs[0]
		if cmp.Op == token.NEQ {
			side = b.Succs[1]
		}
		okSide := false
		if r, isRet := side.Instrs[len(side.Instrs)-1].(*ssa.Return); isRet && len(r.Results) > 0 {
			last := r.Results[len(r.Results)-1]
			if isErrorType(last.Type()) && !isNilConst(last) {
				okSide = true
			}
		}
		if !okSide {
			problem = "a nil element is found but not answered with an error"
			continue
		}
		header = l.header
		problem = ""
		break
	}
	if problem != "" {
		// the same test through the standard library: slices.IndexFunc / slices.ContainsFunc over the whole decoded
		// sequence with a predicate that answers `element is nil`, a hit answered with an error
		for _, ci := range callsIn(fn) {
			n := calleeName(ci.Common())
			if n != "slices.IndexFunc" && n != "slices.ContainsFunc" && n != "slices.Index" && n != "slices.Contains" {
				continue
			}
			call, ok := ci.(*ssa.Call)
			if !ok || len(call.Call.Args) != 2 || !fromTarget(call.Call.Args[0]) {
				continue
			}
			if n == "slices.Index" || n == "slices.Contains" {
				// slices.Index(list, nil): the element looked for is nil itself
				if !isNilConst(stripConv(call.Call.Args[1])) {
					continue
				}
			} else {
				pred := funcOfValue(call.Call.Args[1])
				if pred == nil || len(pred.Params) != 1 || len(pred.Blocks) != 1 {
					continue
				}
				rets := returnsOf(pred)
				if len(rets) != 1 {
					continue
				}
				cmp, ok := rets[0].Results[0].(*ssa.BinOp)
				if !ok || cmp.Op != token.EQL || !((cmp.X == ssa.Value(pred.Params[0]) && isNilConst(cmp.Y)) || (cmp.Y == ssa.Value(pred.Params[0]) && isNilConst(cmp.X))) {
					continue
				}
			}
			// the branch on the answer: found -> a return with an error
			for _, ref := range *call.Referrers() {
				var iff *ssa.If
				foundSide := 0
				switch x := ref.(type) {
				case *ssa.If:
					iff = x // ContainsFunc
				case *ssa.BinOp:
					// i >= 0, i != -1, i > -1 (found on the true side); i < 0, i == -1 (found on the false side)
					k, isK := constInt(x.Y)
					if x.X != ssa.Value(call) || !isK {
						continue
					}
					switch {
					case (x.Op == token.GEQ && k == 0) || (x.Op == token.NEQ && k == -1) || (x.Op == token.GTR && k == -1):
						foundSide = 0
					case (x.Op == token.LSS && k == 0) || (x.Op == token.EQL && k == -1):
						foundSide = 1
					default:
						continue
					}
					for _, r2 := range *x.Referrers() {
						if i2, ok := r2.(*ssa.If); ok {
							iff = i2
						}
					}
				}
				if iff == nil {
					continue
				}
				side := iff.Block().Succs[foundSide]
				if r, isRet := side.Instrs[len(side.Instrs)-1].(*ssa.Return); isRet && len(r.Results) > 0 {
					last := r.Results[len(r.Results)-1]
					if isErrorType(last.Type()) && !isNilConst(last) {
						header = iff.Block()
						problem = ""
					}
				}
			}
		}
	}
	if problem != "" {
		return problem
	}
	// no successful return past the loop
	for _, b := range fn.Blocks {
		r, ok := b.Instrs[len(b.Instrs)-1].(*ssa.Return)
		if !ok || len(r.Results) == 0 || !isNilConst(r.Results[len(r.Results)-1]) {
			continue
		}
		if reachesAvoiding(decode.Block(), b, header) {
			return "a successful return (" + c.pos(r.Pos()) + ") is reached without the loop that refuses nil elements"
		}
	}
	return ""
}
