package main

func sweepVariants(root, repo, prop string) {}
