package main

import (
	"encoding/json"
	"fmt"
	"os"
	"os/exec"
	"path/filepath"
	"sort"
	"strings"
	"sync"
)

type sweepResult struct {
	ID       string `json:"id"`
	Note     string `json:"note"`
	Outcome  string `json:"outcome"` // detected | missed | context-changed | error
	ByRules  string `json:"by_rules,omitempty"`
	Expected string `json:"expected_rules,omitempty"`
}

// sweepVariants applies every stored variant that names this property through an in-memory
// overlay (one subprocess per variant, at most 8 in parallel) and records detected/total in the
// evidence file. It never changes the exit status: only the unmodified tree's verdict does.
func sweepVariants(root, repo, prop string) {
	files, _ := filepath.Glob(filepath.Join(root, "variants", "*.json"))
	sort.Strings(files)
	var todo []string
	meta := map[string]variantFile{}
	for _, f := range files {
		b, err := os.ReadFile(f)
		if err != nil {
			continue
		}
		var vf variantFile
		if json.Unmarshal(b, &vf) != nil {
			continue
		}
		for _, p := range vf.Properties {
			if p == prop {
				todo = append(todo, f)
				meta[f] = vf
			}
		}
	}
	if len(todo) == 0 {
		return
	}
	exe, _ := os.Executable()
	results := make([]sweepResult, len(todo))
	sem := make(chan struct{}, 8)
	var wg sync.WaitGroup
	for i, f := range todo {
		wg.Add(1)
		go func(i int, f string) {
			defer wg.Done()
			sem <- struct{}{}
			defer func() { <-sem }()
			vf := meta[f]
			cmd := exec.Command(exe, "-p", prop, "-tier", "quick", "-repo", repo, "-variant", f, "-noevidence")
			out, err := cmd.CombinedOutput()
			r := sweepResult{ID: vf.ID, Note: vf.Note, Expected: strings.Join(vf.Rules, ",")}
			code := 0
			if ee, ok := err.(*exec.ExitError); ok {
				code = ee.ExitCode()
			} else if err != nil {
				code = -1
			}
			switch code {
			case 1:
				r.Outcome = "detected"
				rules := map[string]bool{}
				for _, line := range strings.Split(string(out), "\n") {
					if strings.HasPrefix(line, "FINDING ") {
						for _, fld := range strings.Fields(line) {
							if strings.HasPrefix(fld, "rule=") {
								rules[strings.TrimPrefix(fld, "rule=")] = true
							}
						}
					}
				}
				var rs []string
				for k := range rules {
					rs = append(rs, k)
				}
				sort.Strings(rs)
				r.ByRules = strings.Join(rs, ",")
			case 0:
				r.Outcome = "missed"
			case 3:
				r.Outcome = "context-changed"
			default:
				r.Outcome = "error"
				r.ByRules = lastLine(string(out))
			}
			results[i] = r
		}(i, f)
	}
	wg.Wait()
	detected, applicable := 0, 0
	for _, r := range results {
		if r.Outcome == "context-changed" {
			continue
		}
		applicable++
		if r.Outcome == "detected" {
			detected++
		}
	}
	fmt.Printf("%s: variant sweep: %d/%d seeded variants detected (%d skipped: context changed)\n", prop, detected, applicable, len(results)-applicable)
	for _, r := range results {
		if r.Outcome != "detected" {
			fmt.Printf("  variant %s: %s %s\n", r.ID, r.Outcome, r.ByRules)
		}
	}
	// merge into the evidence file
	evp := filepath.Join(root, "evidence", prop+".json")
	b, err := os.ReadFile(evp)
	if err != nil {
		return
	}
	var ev map[string]any
	if json.Unmarshal(b, &ev) != nil {
		return
	}
	cov, _ := ev["coverage"].(map[string]any)
	if cov == nil {
		return
	}
	cov["variants_seeded"] = applicable
	cov["variants_detected"] = detected
	cov["variants"] = results
	nb, _ := json.MarshalIndent(ev, "", " ")
	os.WriteFile(evp, nb, 0o644)
}

// sweepPinned re-runs the property's rules on the repository's root commit (the pinned tree before any fix: commit)
// and reports how many of the defects recorded as `fixed` in known_findings.json are detected there again.
// It is a self-test of the rules against real, reproduced defects; it never changes the exit status.
func sweepPinned(root, repo, prop string, known *knownFile) {
	var want []knownEntry
	for _, e := range known.Findings {
		if e.Status == "fixed" && e.Property == prop {
			want = append(want, e)
		}
	}
	if len(want) == 0 {
		return
	}
	base, err := exec.Command("git", "-C", repo, "rev-list", "--max-parents=0", "HEAD").Output()
	if err != nil {
		fmt.Printf("%s: pinned-tree self-test skipped (git: %v)\n", prop, err)
		return
	}
	commit := strings.Fields(string(base))[0]
	tmp, err := os.MkdirTemp("", "crdcheck-pinned-")
	if err != nil {
		return
	}
	defer os.RemoveAll(tmp)
	ar := exec.Command("sh", "-c", fmt.Sprintf("git -C %q archive %s | tar -x -C %q", repo, commit, tmp))
	if out, err := ar.CombinedOutput(); err != nil {
		fmt.Printf("%s: pinned-tree self-test skipped (%v: %s)\n", prop, err, lastLine(string(out)))
		return
	}
	exe, _ := os.Executable()
	out, _ := exec.Command(exe, "-p", prop, "-tier", "quick", "-repo", tmp, "-noevidence").CombinedOutput()
	found := map[string]bool{}
	for _, line := range strings.Split(string(out), "\n") {
		if !strings.HasPrefix(line, "FINDING ") {
			continue
		}
		rule, cons := "", ""
		if i := strings.Index(line, "rule="); i >= 0 {
			rule = strings.Fields(line[i+5:])[0]
		}
		if i := strings.Index(line, "construct=\""); i >= 0 {
			rest := line[i+11:]
			if j := strings.Index(rest, "\" at "); j >= 0 {
				cons = rest[:j]
			}
		}
		found[rule+"|"+cons] = true
	}
	type res struct {
		Rule, Construct, Commit, What string
		Redetected                    bool
	}
	var rs []res
	n := 0
	for _, e := range want {
		ok := found[e.Rule+"|"+e.Construct]
		if ok {
			n++
		}
		rs = append(rs, res{e.Rule, e.Construct, e.Commit, e.What, ok})
	}
	fmt.Printf("%s: pinned-tree self-test: %d/%d repaired defects are reported again on the root commit %s\n", prop, n, len(want), commit[:7])
	for _, r := range rs {
		if !r.Redetected {
			fmt.Printf("  not re-detected: %s %s\n", r.Rule, r.Construct)
		}
	}
	evp := filepath.Join(root, "evidence", prop+".json")
	b, err := os.ReadFile(evp)
	if err != nil {
		return
	}
	var ev map[string]any
	if json.Unmarshal(b, &ev) != nil {
		return
	}
	if cov, _ := ev["coverage"].(map[string]any); cov != nil {
		cov["pinned_defects"] = len(want)
		cov["pinned_defects_redetected"] = n
		cov["pinned_defect_list"] = rs
		nb, _ := json.MarshalIndent(ev, "", " ")
		os.WriteFile(evp, nb, 0o644)
	}
}

func lastLine(s string) string {
	ls := strings.Split(strings.TrimSpace(s), "\n")
	return ls[len(ls)-1]
}

// sweepSeeded applies every independently seeded change stored for this property (seeded/<id>/patch.diff, written by
// sub-agents that saw only the property text) to a scratch copy of the repository's current tree and runs the
// property's rules on it: each must be reported. One scratch copy and one subprocess per change, at most 8 in parallel,
// everything removed afterwards. Like the other self-tests it never changes the exit status.
func sweepSeeded(root, repo, prop string) {
	metas, _ := filepath.Glob(filepath.Join(root, "seeded", "*", "meta.json"))
	sort.Strings(metas)
	type seed struct{ id, dir, needs string }
	var todo []seed
	for _, m := range metas {
		b, err := os.ReadFile(m)
		if err != nil {
			continue
		}
		var meta struct {
			ID       string `json:"id"`
			Property string `json:"property"`
			Needs    string `json:"needs_to_manifest"`
		}
		if json.Unmarshal(b, &meta) != nil || meta.Property != prop {
			continue
		}
		todo = append(todo, seed{meta.ID, filepath.Dir(m), meta.Needs})
	}
	if len(todo) == 0 {
		return
	}
	tmp, err := os.MkdirTemp("", "crdcheck-seeded-")
	if err != nil {
		return
	}
	defer os.RemoveAll(tmp)
	// the current working tree (tracked files as they are on disk, build output and .git left out)
	base := filepath.Join(tmp, "base")
	cp := exec.Command("sh", "-c", fmt.Sprintf("mkdir -p %q && cd %q && git ls-files -z | xargs -0 -I{} cp --parents {} %q", base, repo, base))
	if out, err := cp.CombinedOutput(); err != nil {
		fmt.Printf("%s: seeded-change self-test skipped (copy: %v: %s)\n", prop, err, lastLine(string(out)))
		return
	}
	exe, _ := os.Executable()
	results := make([]sweepResult, len(todo))
	sem := make(chan struct{}, 8)
	var wg sync.WaitGroup
	for i, sd := range todo {
		wg.Add(1)
		go func(i int, sd seed) {
			defer wg.Done()
			sem <- struct{}{}
			defer func() { <-sem }()
			r := sweepResult{ID: sd.id, Note: sd.needs}
			dir := filepath.Join(tmp, fmt.Sprintf("s%d", i))
			defer os.RemoveAll(dir)
			if out, err := exec.Command("cp", "-r", base, dir).CombinedOutput(); err != nil {
				r.Outcome, r.ByRules = "error", lastLine(string(out))
				results[i] = r
				return
			}
			ap := exec.Command("git", "apply", filepath.Join(sd.dir, "patch.diff"))
			ap.Dir = dir
			ap.Env = append(os.Environ(), "GIT_CEILING_DIRECTORIES="+tmp, "GIT_DIR=/nonexistent")
			if _, err := ap.CombinedOutput(); err != nil {
				r.Outcome = "context-changed"
				results[i] = r
				return
			}
			out, err := exec.Command(exe, "-p", prop, "-tier", "quick", "-repo", dir, "-noevidence").CombinedOutput()
			code := 0
			if ee, ok := err.(*exec.ExitError); ok {
				code = ee.ExitCode()
			} else if err != nil {
				code = -1
			}
			switch code {
			case 1:
				r.Outcome = "detected"
				rules := map[string]bool{}
				for _, line := range strings.Split(string(out), "\n") {
					if strings.HasPrefix(line, "FINDING ") {
						for _, fld := range strings.Fields(line) {
							if strings.HasPrefix(fld, "rule=") {
								rules[strings.TrimPrefix(fld, "rule=")] = true
							}
						}
					}
				}
				var rs []string
				for k := range rules {
					rs = append(rs, k)
				}
				sort.Strings(rs)
				r.ByRules = strings.Join(rs, ",")
			case 0:
				r.Outcome = "missed"
			default:
				r.Outcome = "error"
				r.ByRules = lastLine(string(out))
			}
			results[i] = r
		}(i, sd)
	}
	wg.Wait()
	detected, applicable := 0, 0
	for _, r := range results {
		if r.Outcome == "context-changed" {
			continue
		}
		applicable++
		if r.Outcome == "detected" {
			detected++
		}
	}
	fmt.Printf("%s: seeded-change self-test: %d/%d independently seeded changes reported (%d skipped: the patch no longer applies)\n", prop, detected, applicable, len(results)-applicable)
	for _, r := range results {
		if r.Outcome != "detected" && r.Outcome != "context-changed" {
			fmt.Printf("  seeded change %s: %s %s\n", r.ID, r.Outcome, r.ByRules)
		}
	}
	evp := filepath.Join(root, "evidence", prop+".json")
	b, err := os.ReadFile(evp)
	if err != nil {
		return
	}
	var ev map[string]any
	if json.Unmarshal(b, &ev) != nil {
		return
	}
	if cov, _ := ev["coverage"].(map[string]any); cov != nil {
		cov["independent_seeded_changes"] = applicable
		cov["independent_seeded_changes_reported"] = detected
		cov["independent_seeded_change_list"] = results
		nb, _ := json.MarshalIndent(ev, "", " ")
		os.WriteFile(evp, nb, 0o644)
	}
}
