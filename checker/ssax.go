package main

import (
	"go/constant"
	"go/token"
	"go/types"
	"strings"

	"golang.org/x/tools/go/ssa"
)

// ---- naming ----

// fname is a stable qualified name: "midix.MIDIWriter.Note", "math.Round", "cmd.init$1".
// funcAlias gives stable names to the anonymous cobra handlers of package cmd: cmd.init$7 -> cmd.writeCmd.RunE.
var funcAlias = map[*ssa.Function]string{}

func fname(fn *ssa.Function) string {
	if fn == nil {
		return "<nil>"
	}
	if a, ok := funcAlias[fn]; ok {
		return a
	}
	if p := fn.Parent(); p != nil {
		if pa, ok := funcAlias[p]; ok {
			// nested closure of an aliased handler: keep its ordinal suffix
			full := fn.Name()
			if i := strings.LastIndex(full, "$"); i >= 0 {
				return pa + full[i:]
			}
		}
	}
	s := stripTypeArgs(fn.String())
	s = strings.ReplaceAll(s, modulePath+"/", "")
	// (*midix.MIDIWriter).Note -> midix.(*MIDIWriter).Note ; (midix.Track).Len -> midix.Track.Len
	// generic receivers keep their type arguments: (util.Ring[note.Name]).At -> util.Ring[note.Name].At
	split := func(inner string) int {
		head := inner
		if k := strings.Index(inner, "["); k >= 0 {
			head = inner[:k]
		}
		return strings.LastIndex(head, ".")
	}
	// pointer and value receivers are named alike: changing the receiver kind of a method is not a change of behaviour
	if strings.HasPrefix(s, "(*") {
		if i := strings.LastIndex(s, ")."); i > 0 {
			inner := s[2:i]
			if j := split(inner); j >= 0 {
				return inner[:j] + "." + inner[j+1:] + "." + s[i+2:]
			}
		}
	} else if strings.HasPrefix(s, "(") {
		if i := strings.LastIndex(s, ")."); i > 0 {
			inner := s[1:i]
			if j := split(inner); j >= 0 {
				return inner[:j] + "." + inner[j+1:] + "." + s[i+2:]
			}
		}
	}
	return s
}

// stripTypeArgs removes every [...] group: instantiations are named like their generic origin.
func stripTypeArgs(s string) string {
	var b strings.Builder
	depth := 0
	for _, r := range s {
		switch {
		case r == '[':
			depth++
		case r == ']':
			depth--
		case depth == 0:
			b.WriteRune(r)
		}
	}
	return b.String()
}

// ---- calls ----

// staticCallee resolves a call to a function, following MakeClosure and bound-method closures.
func staticCallee(cc *ssa.CallCommon) *ssa.Function {
	if f := cc.StaticCallee(); f != nil {
		return f
	}
	if cc.IsInvoke() {
		return nil
	}
	return funcOfValue(cc.Value)
}

func funcOfValue(v ssa.Value) *ssa.Function {
	switch v := v.(type) {
	case *ssa.Function:
		return v
	case *ssa.MakeClosure:
		if f, ok := v.Fn.(*ssa.Function); ok {
			return f
		}
	case *ssa.ChangeType:
		return funcOfValue(v.X)
	case *ssa.MakeInterface:
		return funcOfValue(v.X)
	}
	return nil
}

// unbound returns the method a bound-method thunk ("$bound") wraps, or fn itself.
func unbound(fn *ssa.Function) *ssa.Function {
	if fn == nil || !strings.HasSuffix(fn.Name(), "$bound") {
		return fn
	}
	for _, b := range fn.Blocks {
		for _, in := range b.Instrs {
			if call, ok := in.(*ssa.Call); ok {
				if f := call.Call.StaticCallee(); f != nil {
					return f
				}
			}
		}
	}
	return fn
}

// unthunk: the method behind a method expression (T.m used as a function value is a synthetic thunk whose parameters are
// the receiver and the method's parameters, handed straight on).
func unthunk(fn *ssa.Function) *ssa.Function {
	if fn == nil || !strings.HasSuffix(fn.Name(), "$thunk") {
		return fn
	}
	for _, b := range fn.Blocks {
		for _, in := range b.Instrs {
			if call, ok := in.(*ssa.Call); ok {
				if f := call.Call.StaticCallee(); f != nil && len(f.Params) == len(fn.Params) {
					return f
				}
			}
		}
	}
	return fn
}

// invokedMethod returns the interface method name for an invoke-mode call.
func invokedMethod(cc *ssa.CallCommon) (recvType string, name string) {
	if !cc.IsInvoke() {
		return "", ""
	}
	return short(cc.Value.Type().String()), cc.Method.Name()
}

// calleeName gives a name for any call: static callee name or "iface.Method" for invokes, "" for dynamic.
func calleeName(cc *ssa.CallCommon) string {
	if f := staticCallee(cc); f != nil {
		return fname(unbound(f))
	}
	if cc.IsInvoke() {
		t, m := invokedMethod(cc)
		return t + "." + m
	}
	if b, ok := cc.Value.(*ssa.Builtin); ok {
		return "builtin." + b.Name()
	}
	// call through a package-level function variable (e.g. errorx.Invalid = wrapFunc(...))
	if u, ok := cc.Value.(*ssa.UnOp); ok && u.Op == token.MUL {
		if g, ok := u.X.(*ssa.Global); ok && g.Pkg != nil {
			return short(g.Pkg.Pkg.Path()) + "." + g.Name()
		}
	}
	return ""
}

func allInstrs(fn *ssa.Function, f func(ssa.Instruction)) {
	for _, b := range fn.Blocks {
		for _, in := range b.Instrs {
			f(in)
		}
	}
}

// callsIn lists call instructions (Call, Go, Defer) of fn in block order.
func callsIn(fn *ssa.Function) []ssa.CallInstruction {
	var out []ssa.CallInstruction
	allInstrs(fn, func(in ssa.Instruction) {
		if ci, ok := in.(ssa.CallInstruction); ok {
			out = append(out, ci)
		}
	})
	return out
}

// callsTo lists calls in fn whose callee name (see calleeName) equals one of names.
func callsTo(fn *ssa.Function, names ...string) []ssa.CallInstruction {
	var out []ssa.CallInstruction
	for _, ci := range callsIn(fn) {
		n := calleeName(ci.Common())
		for _, w := range names {
			if n == w {
				out = append(out, ci)
			}
		}
	}
	return out
}

// anonFuncsOf returns fn and all closures nested in it.
func withClosures(fn *ssa.Function) []*ssa.Function {
	out := []*ssa.Function{fn}
	for _, a := range fn.AnonFuncs {
		out = append(out, withClosures(a)...)
	}
	return out
}

// ---- constants ----

func constInt(v ssa.Value) (int64, bool) {
	switch v := v.(type) {
	case *ssa.Const:
		if v.Value == nil {
			return 0, false
		}
		if v.Value.Kind() == constant.Int {
			return v.Int64(), true
		}
		if v.Value.Kind() == constant.Float {
			f, _ := constant.Float64Val(v.Value)
			if f == float64(int64(f)) {
				return int64(f), true
			}
		}
	case *ssa.Convert:
		return constInt(v.X)
	case *ssa.ChangeType:
		return constInt(v.X)
	}
	return 0, false
}

func constBool(v ssa.Value) (bool, bool) {
	if c, ok := v.(*ssa.Const); ok && c.Value != nil && c.Value.Kind() == constant.Bool {
		return constant.BoolVal(c.Value), true
	}
	return false, false
}

func constString(v ssa.Value) (string, bool) {
	if c, ok := v.(*ssa.Const); ok && c.Value != nil && c.Value.Kind() == constant.String {
		return constant.StringVal(c.Value), true
	}
	return "", false
}

func isNilConst(v ssa.Value) bool {
	c, ok := v.(*ssa.Const)
	return ok && c.Value == nil
}

// stripConv removes value-preserving wrappers (Convert, ChangeType, MakeInterface, ChangeInterface).
func stripConv(v ssa.Value) ssa.Value {
	for {
		switch x := v.(type) {
		case *ssa.Convert:
			v = x.X
		case *ssa.ChangeType:
			v = x.X
		case *ssa.MakeInterface:
			v = x.X
		case *ssa.ChangeInterface:
			v = x.X
		default:
			return v
		}
	}
}

// ---- dominance ----

type postDom struct {
	fn    *ssa.Function
	ipdom []int // immediate post-dominator block index; -1 = virtual exit
	exits []int
}

// postDominators computes immediate post-dominators over the reversed CFG (Cooper-Harvey-Kennedy).
// Blocks ending in panic count as exits too.
func (c *Ctx) postDominators(fn *ssa.Function) *postDom {
	if pd, ok := c.postdom[fn]; ok {
		return pd
	}
	n := len(fn.Blocks)
	pd := &postDom{fn: fn, ipdom: make([]int, n)}
	// virtual exit node has index n
	succs := func(i int) []int { // successors in the reversed graph = predecessors in CFG
		if i == n {
			return pd.exits
		}
		var out []int
		for _, p := range fn.Blocks[i].Preds {
			out = append(out, p.Index)
		}
		return out
	}
	preds := func(i int) []int { // predecessors in reversed graph = successors in CFG (+ exit for exit blocks)
		var out []int
		b := fn.Blocks[i]
		for _, s := range b.Succs {
			out = append(out, s.Index)
		}
		if len(b.Succs) == 0 {
			out = append(out, n)
		}
		return out
	}
	for _, b := range fn.Blocks {
		if len(b.Succs) == 0 {
			pd.exits = append(pd.exits, b.Index)
		}
	}
	// reverse postorder on the reversed graph starting from virtual exit
	order := []int{}
	visited := make([]bool, n+1)
	var dfs func(int)
	dfs = func(u int) {
		visited[u] = true
		for _, v := range succs(u) {
			if !visited[v] {
				dfs(v)
			}
		}
		order = append(order, u)
	}
	dfs(n)
	rpoNum := make([]int, n+1)
	for i := range rpoNum {
		rpoNum[i] = -1
	}
	for i, u := range order {
		rpoNum[u] = len(order) - 1 - i
	}
	idom := make([]int, n+1)
	for i := range idom {
		idom[i] = -2
	}
	idom[n] = n
	intersect := func(a, b int) int {
		for a != b {
			for rpoNum[a] > rpoNum[b] {
				a = idom[a]
			}
			for rpoNum[b] > rpoNum[a] {
				b = idom[b]
			}
		}
		return a
	}
	changed := true
	for changed {
		changed = false
		for i := len(order) - 1; i >= 0; i-- {
			u := order[i]
			if u == n {
				continue
			}
			newIdom := -2
			for _, p := range preds(u) {
				if rpoNum[p] < 0 || idom[p] == -2 {
					continue
				}
				if newIdom == -2 {
					newIdom = p
				} else {
					newIdom = intersect(p, newIdom)
				}
			}
			if newIdom != -2 && idom[u] != newIdom {
				idom[u] = newIdom
				changed = true
			}
		}
	}
	for i := 0; i < n; i++ {
		if idom[i] == n || idom[i] == -2 {
			pd.ipdom[i] = -1
		} else {
			pd.ipdom[i] = idom[i]
		}
	}
	c.postdom[fn] = pd
	return pd
}

// postDominates reports whether block a post-dominates block b (a on every path from b to exit).
func (pd *postDom) postDominates(a, b *ssa.BasicBlock) bool {
	if a == b {
		return true
	}
	i := b.Index
	for steps := 0; steps <= len(pd.ipdom); steps++ {
		i = pd.ipdom[i]
		if i < 0 {
			return false
		}
		if i == a.Index {
			return true
		}
	}
	return false
}

func instrIndex(in ssa.Instruction) int {
	for i, x := range in.Block().Instrs {
		if x == in {
			return i
		}
	}
	return -1
}

// dominatesInstr: a executes before b on every path to b.
func dominatesInstr(a, b ssa.Instruction) bool {
	if a.Block() == b.Block() {
		return instrIndex(a) < instrIndex(b)
	}
	return a.Block().Dominates(b.Block())
}

// reachable reports whether block `to` is reachable from block `from` via >=1 edges (or 0 when same and allowSame).
func reachableBlock(from, to *ssa.BasicBlock) bool {
	seen := map[*ssa.BasicBlock]bool{}
	var st []*ssa.BasicBlock
	st = append(st, from.Succs...)
	for len(st) > 0 {
		b := st[len(st)-1]
		st = st[:len(st)-1]
		if seen[b] {
			continue
		}
		seen[b] = true
		if b == to {
			return true
		}
		st = append(st, b.Succs...)
	}
	return false
}

// naturalLoop returns the natural loop of header h (blocks dominated by h that reach one of h's back edges), nil if h is not a loop header.
func naturalLoop(h *ssa.BasicBlock) map[*ssa.BasicBlock]bool {
	var latches []*ssa.BasicBlock
	for _, p := range h.Preds {
		if h.Dominates(p) {
			latches = append(latches, p)
		}
	}
	if len(latches) == 0 {
		return nil
	}
	loop := map[*ssa.BasicBlock]bool{h: true}
	work := latches
	for len(work) > 0 {
		b := work[len(work)-1]
		work = work[:len(work)-1]
		if loop[b] {
			continue
		}
		loop[b] = true
		work = append(work, b.Preds...)
	}
	return loop
}

// inLoop reports whether a block lies on a CFG cycle.
func inLoop(b *ssa.BasicBlock) bool { return reachableBlock(b, b) }

// instrMayFollow: b may execute after a on some path.
func instrMayFollow(a, b ssa.Instruction) bool {
	if a.Block() == b.Block() && instrIndex(a) < instrIndex(b) {
		return true
	}
	return reachableBlock(a.Block(), b.Block())
}

// retVal resolves result i of a Return: in functions with defers go/ssa spills results into a local
// (`*r = v; rundefers; t = *r; return t`); the value stored last in the same block is what is returned.
func retVal(r *ssa.Return, i int) ssa.Value {
	v := r.Results[i]
	ld, ok := v.(*ssa.UnOp)
	if !ok || ld.Op != token.MUL {
		return v
	}
	al, ok := ld.X.(*ssa.Alloc)
	if !ok {
		return v
	}
	var last ssa.Value
	for _, in := range r.Block().Instrs {
		if in == ssa.Instruction(ld) {
			break
		}
		if st, ok := in.(*ssa.Store); ok && st.Addr == ssa.Value(al) {
			last = st.Val
		}
	}
	if last != nil {
		return last
	}
	return v
}

// isRecoverBlock: the synthetic block that returns the named results after a recovered panic.
func isRecoverBlock(b *ssa.BasicBlock) bool { return b.Parent().Recover == b }

// returnsOf lists the Return instructions (the synthetic recover block excluded).
func returnsOf(fn *ssa.Function) []*ssa.Return {
	var out []*ssa.Return
	allInstrs(fn, func(in ssa.Instruction) {
		if r, ok := in.(*ssa.Return); ok && !isRecoverBlock(r.Block()) {
			out = append(out, r)
		}
	})
	return out
}

// ---- value tracing ----

// phiLeaves expands phis (cycle safe) into the set of non-phi values.
func phiLeaves(v ssa.Value) []ssa.Value {
	var out []ssa.Value
	seen := map[ssa.Value]bool{}
	var walk func(ssa.Value)
	walk = func(v ssa.Value) {
		if seen[v] {
			return
		}
		seen[v] = true
		if p, ok := v.(*ssa.Phi); ok {
			for _, e := range p.Edges {
				walk(e)
			}
			return
		}
		out = append(out, v)
	}
	walk(v)
	return out
}

// errorType reports whether t is the predeclared error interface.
func isErrorType(t types.Type) bool {
	return types.Identical(t, types.Universe.Lookup("error").Type())
}

func namedOf(t types.Type) *types.Named {
	for {
		switch x := t.(type) {
		case *types.Pointer:
			t = x.Elem()
		case *types.Named:
			return x
		case *types.Alias:
			t = types.Unalias(x)
		default:
			return nil
		}
	}
}

func typeName(t types.Type) string {
	if n := namedOf(t); n != nil && n.Obj().Pkg() != nil {
		return short(n.Obj().Pkg().Path()) + "." + n.Obj().Name()
	}
	return short(t.String())
}

// fieldAddrName returns the field name for a FieldAddr/Field instruction.
func fieldName(v ssa.Value) (string, ssa.Value, bool) {
	switch x := v.(type) {
	case *ssa.FieldAddr:
		pt := x.X.Type().Underlying().(*types.Pointer).Elem()
		st := pt.Underlying().(*types.Struct)
		return stableFieldName(pt, st, x.Field), x.X, true
	case *ssa.Field:
		st := x.X.Type().Underlying().(*types.Struct)
		return stableFieldName(x.X.Type(), st, x.Field), x.X, true
	}
	return "", nil, false
}

// stableFieldName: the field's name, or - for an unexported field of a repo struct that was merely renamed (same
// position and type as on the reviewed tree, old name gone, see fieldAnchors) - the name the rules know it by.
func stableFieldName(t types.Type, st *types.Struct, idx int) string {
	f := st.Field(idx)
	name := f.Name()
	if f.Exported() {
		return name
	}
	named, ok := t.(*types.Named)
	if !ok || named.Obj().Pkg() == nil {
		return name
	}
	key := named.Obj().Pkg().Path() + "." + named.Obj().Name()
	old, ok := fieldAnchors[strings.TrimPrefix(key, modulePath+"/")]
	if !ok {
		return name
	}
	for _, o := range old {
		if strings.HasPrefix(o, name+":") {
			return name // the name is a known one
		}
	}
	q := func(p *types.Package) string { return p.Path() }
	tf := f
	if o := named.Origin(); o != nil && o != named {
		// an instance of a generic struct: compare with the declared (uninstantiated) field types
		if ost, ok := o.Underlying().(*types.Struct); ok && idx < ost.NumFields() {
			tf = ost.Field(idx)
		}
	}
	ts := types.TypeString(tf.Type(), q)
	// same position, same type, and the old name no longer exists in the struct
	if idx < len(old) {
		on, ot, _ := strings.Cut(old[idx], ":")
		if ot == ts && !hasField(st, on) {
			return on
		}
	}
	// or the only old field of that type whose name is gone
	cand := ""
	for _, o := range old {
		on, ot, _ := strings.Cut(o, ":")
		if ot == ts && !hasField(st, on) {
			if cand != "" {
				return name
			}
			cand = on
		}
	}
	if cand != "" {
		return cand
	}
	return name
}

func hasField(st *types.Struct, name string) bool {
	for i := 0; i < st.NumFields(); i++ {
		if st.Field(i).Name() == name {
			return true
		}
	}
	return false
}

// loadOfField: v is *(&X.f) or X.f ; returns field name and base.
func loadedField(v ssa.Value) (string, ssa.Value, bool) {
	if u, ok := v.(*ssa.UnOp); ok && u.Op == token.MUL {
		return fieldName(u.X)
	}
	return fieldName(v)
}

// cellValue: the value held by a local that is assigned exactly once (a parameter spilled into a cell because a closure
// captures it, say): for a load of such a cell the assigned value, otherwise v itself.
func cellValue(v ssa.Value) ssa.Value {
	ld, ok := v.(*ssa.UnOp)
	if !ok || ld.Op != token.MUL {
		return v
	}
	al, ok := ld.X.(*ssa.Alloc)
	if !ok {
		return v
	}
	var stored ssa.Value
	n := 0
	for _, r := range *al.Referrers() {
		switch x := r.(type) {
		case *ssa.Store:
			if x.Addr != ssa.Value(al) {
				return v // the cell's address escapes into memory
			}
			stored = x.Val
			n++
		case *ssa.UnOp:
		case *ssa.MakeClosure:
			// the capturing closure must only read it
			cf, _ := x.Fn.(*ssa.Function)
			for i, b := range x.Bindings {
				if b != ssa.Value(al) || cf == nil || i >= len(cf.FreeVars) {
					continue
				}
				for _, fr := range *cf.FreeVars[i].Referrers() {
					if u, isLoad := fr.(*ssa.UnOp); !isLoad || u.Op != token.MUL {
						return v
					}
				}
			}
		default:
			return v
		}
	}
	if n != 1 {
		return v
	}
	return stored
}

// origin: the generic function an instantiation was made from, or fn itself.
func origin(fn *ssa.Function) *ssa.Function {
	if o := fn.Origin(); o != nil {
		return o
	}
	return fn
}
