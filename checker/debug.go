package main

import (
	"fmt"
	"sort"
	"strings"

	"golang.org/x/tools/go/ssa"
)

// dumpDescribe prints, for every call in the named function, the canonical description of callee and arguments (developer aid).
func dumpDescribe(c *Ctx, spec string) {
	i := strings.LastIndex(spec, ":")
	if i < 0 {
		fmt.Println("usage: -describe pkg:Func")
		return
	}
	fn := c.fn(spec[:i], spec[i+1:])
	if fn == nil {
		for _, f := range c.srcFuncs() {
			if fname(f) == spec[i+1:] || fname(f) == spec[:i]+"."+spec[i+1:] {
				fn = f
			}
		}
	}
	if fn == nil {
		fmt.Println("not found")
		return
	}
	fmt.Println("== facts (WIRE)")
	for _, f := range c.facts(fn) {
		fmt.Println("  ", f)
	}
	for _, f := range withClosures(fn) {
		fmt.Println("==", fname(f))
		ac := &affCtx{c: c, fn: f, alias: map[ssa.Value]string{}}
		allInstrs(f, func(in ssa.Instruction) {
			switch x := in.(type) {
			case ssa.CallInstruction:
				var as []string
				for _, a := range x.Common().Args {
					as = append(as, ac.describe(a))
				}
				recv := ""
				if x.Common().IsInvoke() {
					recv = ac.describe(x.Common().Value) + " . "
				}
				fmt.Printf("  call %s%s(%s)\n", recv, calleeName(x.Common()), strings.Join(as, " ; "))
			case *ssa.Store:
				fmt.Printf("  store %s <- %s\n", ac.describe(x.Addr), ac.describe(x.Val))
			case *ssa.MapUpdate:
				fmt.Printf("  mapupdate %s[%s] <- %s\n", ac.describe(x.Map), ac.describe(x.Key), ac.describe(x.Value))
			case *ssa.Return:
				var rs []string
				for i := range x.Results {
					rs = append(rs, ac.describe(retVal(x, i)))
				}
				fmt.Printf("  return %s\n", strings.Join(rs, " ; "))
			}
		})
	}
}

// dumpLexTable prints the folded rune -> token table (developer aid).
func dumpLexTable(c *Ctx) {
	lt, err := c.lexerTables()
	if err != nil {
		fmt.Println("error:", err)
		return
	}
	var rs []int
	for r := range lt.runeToken {
		rs = append(rs, int(r))
	}
	sort.Ints(rs)
	for _, r := range rs {
		fmt.Printf("%q -> %s\n", rune(r), lt.runeToken[rune(r)])
	}
	fmt.Printf("symbol terminators %q, metadata terminators %q\n", lt.symbolExcl, lt.metaExcl)
}
