package main

import (
	"fmt"
	"go/token"
	"go/types"
	"sort"
	"strings"

	"golang.org/x/tools/go/ssa"
)

// reviewedChordConverters: the types that may stand behind astconv.ChordConverter.
var reviewedChordConverters = map[string]string{
	"astconv.SyllableChordConverter": "reads note names in the current scale; ScaleChangeable (decided by the domain fold / WIRE)",
	"astconv.DegreeChordConverter":   "reads degree numbers; has no state",
}

// reviewedConverterState: the fields of the converting types that may be written after construction, with the one
// function that does it.
var reviewedConverterState = map[string]string{
	"astconv.SyllableChordConverter.scale": "astconv.SyllableChordConverter.ChangeScale",
}

// checkConverterState (CONVORDER): what a text converts to depends on the text and the key only:
//   - no other type of the repo implements ChordConverter (a wrapper hides ScaleChangeable from the type assertion in
//     changeScale: every key change written in the text is then ignored without a word);
//   - the converting types of astconv keep no state beyond the reviewed one (a field written while converting - a
//     remembered key, a cache - makes the result depend on what was converted before);
//   - changeScale does not write into the instance it is handed;
//   - a handler hands the converter it makes to one conversion (a second pass starts in the key the first ended in).
func (c *Ctx) checkConverterState() {
	ap := c.pkg("astconv")
	if ap == nil {
		return
	}
	if tn, _ := ap.Types.Scope().Lookup("ChordConverter").(*types.TypeName); tn != nil {
		if iface, ok := tn.Type().Underlying().(*types.Interface); ok {
			c.site(1)
			var others []string
			for _, p := range c.Pkgs {
				for _, n := range p.Types.Scope().Names() {
					t, ok := p.Types.Scope().Lookup(n).(*types.TypeName)
					if !ok || t.IsAlias() {
						continue
					}
					if _, isIface := t.Type().Underlying().(*types.Interface); isIface {
						continue
					}
					if types.Implements(t.Type(), iface) || types.Implements(types.NewPointer(t.Type()), iface) {
						if _, reviewed := reviewedChordConverters[typeName(t.Type())]; !reviewed {
							others = append(others, typeName(t.Type())+" ("+c.pos(t.Pos())+")")
						}
					}
				}
			}
			sort.Strings(others)
			c.check(len(others) == 0, "astconv.ChordConverter|implementations", c.pos(tn.Pos()), "astconv.ChordConverter", "only the note-name and the degree converter stand behind ChordConverter", fmt.Sprintf("%s also implement(s) ChordConverter: a wrapper around the note-name converter is not ScaleChangeable, so the type assertion in changeScale fails quietly and every key change written in the text is ignored", strings.Join(others, ", ")))
		}
	}
	// state of the converting types
	sp := c.ssapkg("astconv")
	if sp != nil {
		c.site(1)
		var writes []string
		// the functions that run while a text is converted: what ASTConverter.Convert reaches (interface calls resolved to
		// every method of that name in the package); constructors and option functions are not among them
		reach := map[*ssa.Function]bool{}
		var visit func(f *ssa.Function)
		visit = func(f *ssa.Function) {
			if f == nil || reach[f] || !c.isRepoFunc(f) || len(f.Blocks) == 0 {
				return
			}
			reach[f] = true
			for _, g := range f.AnonFuncs {
				visit(g)
			}
			for _, ci := range callsIn(f) {
				if callee := staticCallee(ci.Common()); callee != nil {
					visit(unbound(callee))
					continue
				}
				if ci.Common().IsInvoke() {
					name := ci.Common().Method.Name()
					for _, g := range c.srcFuncs() {
						if g.Pkg == sp && g.Name() == name && g.Signature.Recv() != nil {
							visit(g)
						}
					}
				}
			}
		}
		visit(c.fn("astconv", "ASTConverter.Convert"))
		for _, fn := range c.srcFuncs() {
			if fn.Pkg != sp || !reach[fn] {
				continue
			}
			allInstrs(fn, func(in ssa.Instruction) {
				st, ok := in.(*ssa.Store)
				if !ok {
					return
				}
				fa, ok := st.Addr.(*ssa.FieldAddr)
				if !ok {
					return
				}
				// a field of a value that was not made in this function (a constructor fills what it has just allocated)
				base := fa.X
				if _, isAlloc := base.(*ssa.Alloc); isAlloc {
					return
				}
				pt, ok := base.Type().Underlying().(*types.Pointer)
				if !ok {
					return
				}
				nt := namedOf(pt.Elem())
				if nt == nil || nt.Obj().Pkg() == nil || nt.Obj().Pkg() != sp.Pkg {
					return
				}
				fname0, _, _ := fieldName(fa)
				key := typeName(nt) + "." + fname0
				if reviewedConverterState[key] == fname(fn) {
					return
				}
				writes = append(writes, key+" in "+fname(fn)+" ("+c.pos(st.Pos())+")")
			})
		}
		sort.Strings(writes)
		c.check(len(writes) == 0, "astconv|state", "", "astconv", "the converters keep no state but the current scale, switched by ChangeScale", fmt.Sprintf("a field of a converting type is written while converting: %s: what a chord converts to then depends on what was converted before it (or two results share one variable)", strings.Join(uniq(writes), ", ")))
	}
	// changeScale leaves the instance alone
	if cs := c.fn("astconv", "ASTConverter.changeScale"); cs != nil && len(cs.Params) >= 2 {
		c.site(1)
		problem := ""
		for _, f := range c.regionFuncChainsList(cs) {
			if f != cs {
				continue
			}
			allInstrs(f, func(in ssa.Instruction) {
				st, ok := in.(*ssa.Store)
				if !ok {
					return
				}
				a := st.Addr
				for i := 0; i < 4; i++ {
					if fa, ok := a.(*ssa.FieldAddr); ok {
						a = fa.X
						continue
					}
					break
				}
				if a == ssa.Value(cs.Params[1]) {
					problem = "changeScale writes into the instance it is handed (" + c.pos(st.Pos()) + "): the converted instance no longer says what the text said"
				}
			})
		}
		c.check(problem == "", fname(cs)+"|reads-only", c.pos(cs.Pos()), fname(cs), "changeScale reads the instance's key and writes nothing into the instance", fname(cs)+": "+problem)
	}
	// one converter, one conversion
	for f, a := range funcAlias {
		if a != "cmd.textCmdConvSyllable.RunE" && a != "cmd.textCmdConvDegree.RunE" {
			continue
		}
		for _, ci := range callsIn(f) {
			n := calleeName(ci.Common())
			if n != "astconv.NewSyllableASTConverter" && n != "astconv.NewDegreeASTConverter" {
				continue
			}
			call, ok := ci.(*ssa.Call)
			if !ok {
				continue
			}
			c.site(1)
			uses := 0
			inLoopUse := false
			var walk func(v ssa.Value, depth int)
			walk = func(v ssa.Value, depth int) {
				if depth > 4 {
					return
				}
				for _, r := range *v.Referrers() {
					switch x := r.(type) {
					case *ssa.MakeInterface:
						walk(x, depth+1)
					case *ssa.ChangeInterface:
						walk(x, depth+1)
					case *ssa.ChangeType:
						walk(x, depth+1)
					case *ssa.Phi:
						walk(x, depth+1)
					case ssa.CallInstruction:
						uses++
						if inLoop(x.Block()) {
							inLoopUse = true
						}
					case *ssa.Store:
						if x.Val == v {
							uses += 2 // kept in a variable: further uses are not counted here
						}
					}
				}
			}
			walk(call, 0)
			_ = token.NoPos
			c.check(uses == 1 && !inLoopUse, a+"|one-conversion", c.pos(call.Pos()), a, "the converter the handler makes is handed to one conversion", fmt.Sprintf("%s: the converter is handed on %d times (or inside a loop): the note-name converter keeps the scale it ended in, so a second pass over the text starts in the key the first one ended in", a, uses))
		}
	}
}
