package main

import (
	"crypto/sha1"
	"encoding/hex"
	"fmt"
	"go/ast"
	"go/token"
	"go/types"
	"os"
	"path/filepath"
	"sort"
	"strings"

	"golang.org/x/tools/go/callgraph"
	"golang.org/x/tools/go/callgraph/cha"
	"golang.org/x/tools/go/callgraph/vta"
	"golang.org/x/tools/go/packages"
	"golang.org/x/tools/go/ssa"
	"golang.org/x/tools/go/ssa/ssautil"
)

const modulePath = "github.com/berquerant/crd"

// Status of one obligation.
type Status string

const (
	Discharged Status = "discharged"
	Violated   Status = "violated"
	Undecided  Status = "undecided"
)

// Obligation is one checked instance of a rule on one construct.
type Obligation struct {
	Rule    string   `json:"rule"`
	Key     string   `json:"construct"` // rule-level construct key, never a line number
	Pos     string   `json:"pos,omitempty"`
	Func    string   `json:"function,omitempty"`
	Status  Status   `json:"status"`
	Msg     string   `json:"explanation"`
	Witness []string `json:"witness,omitempty"`
}

type RuleStat struct {
	Rule        string `json:"rule"`
	Sites       int    `json:"sites"`
	Floor       int    `json:"floor"`
	Obligations int    `json:"obligations"`
	Discharged  int    `json:"discharged"`
	Doc         string `json:"statement"`
}

// Ctx is the loaded program plus the obligation log.
type Ctx struct {
	parseDegreeFolded     bool // note.ParseDegree was decided on its spelling domain (rules_wire.go)
	addDegreeFolded       bool
	hiddenStateChecked    bool
	diatonicViaAPI        map[string]bool                       // name tables read off Triads() / Sevenths() themselves (rules_tab2.go)
	scalesFolded          bool                                  // op.NewScale was decided on all 42 key spellings (rules_codec.go)
	pkgInits              map[*ssa.Package]map[*ssa.Global]fval // folded package initialisers (fold.go)
	initPoisoned          map[*MapV]bool
	syllableConvertFolded bool
	playPipelineChecked   bool
	diatonicKeyProblem    map[string]string
	inputFree             map[*ssa.Function]bool
	playPipeFold          map[int]*foldVerdict
	lexProduced           map[string]bool
	lexFold               *foldVerdict
	chordPipeFold         *foldVerdict
	descKeyFold           *foldVerdict
	descFold              *foldVerdict
	readArgsFold          *foldVerdict
	circleFold            *foldVerdict
	scalesFold            *foldVerdict
	ticksFromClock        bool
	forwarders            map[*ssa.Function]bool
	pipelineChecked       bool
	genAttrsFolded        bool
	marshalWrap           map[*ssa.Function]int
	diatonicPaired        map[string]bool
	scaleDegreeFold       *foldVerdict
	parseKeyFold          *foldVerdict
	degreeConvertFolded   bool
	repoFuncsCache        []*ssa.Function
	decodedInsideCache    map[*types.Named]bool
	// wants: an obligation of this rule with this construct key bears on one of the properties being checked (expensive
	// decisions are skipped when nobody asks for them)
	wants              func(rule, key string) bool
	degreeSearchFolded bool                                     // op.ScaleNote.GetDegree was decided on its whole domain (rules_wire.go)
	globalRaw          map[*ssa.Global]Val                      // consteval values of immutable globals (fold.go)
	callersOf          map[*ssa.Function]map[*ssa.Function]bool // static callers (rules_c09.go ownerName)
	fnLookups          map[string]bool                          // every (package|name) asked of fn, for -anchors
	renamed            map[string]*ssa.Function                 // anchors found by signature after a rename
	extendsWalks       []*ssa.Function                          // loops that walk the chord table's extends links (loopmeasure.go)
	extendsChecked     bool
	lexTabs            *lexTables // cached lexer tables (rules_tab2.go)
	lexTabsErr         error
	globalTabs         map[*ssa.Global]fval // immutable package-level tables seen by the folder (fold.go)
	wm                 *writerModel         // lazily built model of midix.MIDIWriter (emission.go)
	RepoDir            string
	Overlay            map[string][]byte // absolute path -> content (Go and non-Go)

	Fset    *token.FileSet
	Pkgs    map[string]*packages.Package // repo packages by import path
	AllPkgs map[string]*packages.Package
	Prog    *ssa.Program
	SSA     map[string]*ssa.Package // repo ssa packages by import path

	curRule string
	obs     []*Obligation
	stats   map[string]*RuleStat
	seen    map[string]bool

	cg      *callgraph.Graph
	NFuncs  int
	postdom map[*ssa.Function]*postDom
}

func (c *Ctx) rel(path string) string {
	if r, err := filepath.Rel(c.RepoDir, path); err == nil && !strings.HasPrefix(r, "..") {
		return r
	}
	return path
}

// ReadFile reads a repo file, honouring the overlay.
func (c *Ctx) ReadFile(relpath string) ([]byte, error) {
	abs := filepath.Join(c.RepoDir, relpath)
	if b, ok := c.Overlay[abs]; ok {
		return b, nil
	}
	return os.ReadFile(abs)
}

func (c *Ctx) pos(p token.Pos) string {
	if !p.IsValid() {
		return ""
	}
	pp := c.Fset.PositionFor(p, false) // unadjusted: //line directives of generated code are ignored
	return fmt.Sprintf("%s:%d", c.rel(pp.Filename), pp.Line)
}

func load(repo string, overlay map[string][]byte) (*Ctx, error) {
	goOverlay := map[string][]byte{}
	for k, v := range overlay {
		if strings.HasSuffix(k, ".go") {
			goOverlay[k] = v
		}
	}
	env := []string{}
	for _, e := range os.Environ() {
		if strings.HasPrefix(e, "GOFLAGS=") || strings.HasPrefix(e, "GOWORK=") ||
			strings.HasPrefix(e, "GOPROXY=") || strings.HasPrefix(e, "GOSUMDB=") ||
			strings.HasPrefix(e, "GOTOOLCHAIN=") {
			continue
		}
		env = append(env, e)
	}
	env = append(env, "GOFLAGS=-mod=mod", "GOPROXY=off", "GOWORK=off", "GOTOOLCHAIN=auto")
	cfg := &packages.Config{
		Mode:    packages.LoadAllSyntax,
		Dir:     repo,
		Env:     env,
		Overlay: goOverlay,
		Tests:   false,
	}
	pkgs, err := packages.Load(cfg, "./...")
	if err != nil {
		return nil, fmt.Errorf("packages.Load: %w", err)
	}
	if len(pkgs) == 0 {
		return nil, fmt.Errorf("no packages loaded from %s", repo)
	}
	c := &Ctx{
		RepoDir: repo,
		Overlay: overlay,
		Pkgs:    map[string]*packages.Package{},
		AllPkgs: map[string]*packages.Package{},
		SSA:     map[string]*ssa.Package{},
		stats:   map[string]*RuleStat{},
		seen:    map[string]bool{},
		postdom: map[*ssa.Function]*postDom{},
	}
	var loadErrs []string
	packages.Visit(pkgs, nil, func(p *packages.Package) {
		c.AllPkgs[p.PkgPath] = p
		if p.PkgPath == modulePath || strings.HasPrefix(p.PkgPath, modulePath+"/") {
			c.Pkgs[p.PkgPath] = p
			for _, e := range p.Errors {
				loadErrs = append(loadErrs, e.Error())
			}
		}
	})
	if len(loadErrs) > 0 {
		return nil, fmt.Errorf("load/type errors in repo packages: %s", strings.Join(loadErrs, "; "))
	}
	if len(c.Pkgs) < 10 {
		return nil, fmt.Errorf("only %d repo packages loaded, expected the crd module", len(c.Pkgs))
	}
	c.Fset = pkgs[0].Fset
	prog, _ := ssautil.AllPackages(pkgs, ssa.InstantiateGenerics)
	prog.Build()
	c.Prog = prog
	for path, p := range c.Pkgs {
		sp := prog.Package(p.Types)
		if sp == nil {
			return nil, fmt.Errorf("no SSA for %s", path)
		}
		c.SSA[path] = sp
	}
	for fn := range ssautil.AllFunctions(prog) {
		if c.isRepoFunc(fn) {
			c.NFuncs++
		}
	}
	c.buildCobraModel() // also names the anonymous command handlers
	c.resolveAnchors()
	return c, nil
}

func (c *Ctx) isRepoPkgPath(p string) bool {
	return p == modulePath || strings.HasPrefix(p, modulePath+"/")
}

// isRepoFunc: decided by module path, never by "has no blocks".
func (c *Ctx) isRepoFunc(fn *ssa.Function) bool {
	if fn == nil {
		return false
	}
	if fn.Pkg != nil {
		return c.isRepoPkgPath(fn.Pkg.Pkg.Path())
	}
	if o := fn.Origin(); o != nil && o != fn {
		return c.isRepoFunc(o)
	}
	if fn.Parent() != nil {
		return c.isRepoFunc(fn.Parent())
	}
	if obj := fn.Object(); obj != nil && obj.Pkg() != nil {
		return c.isRepoPkgPath(obj.Pkg().Path())
	}
	return false
}

// pkg returns the repo package with the given path relative to the module ("" for root... there is none, "cmd", "note", "input/ast").
func (c *Ctx) pkg(rel string) *packages.Package {
	return c.Pkgs[modulePath+"/"+rel]
}

func (c *Ctx) ssapkg(rel string) *ssa.Package {
	return c.SSA[modulePath+"/"+rel]
}

// short strips the module prefix from a qualified name.
func short(s string) string {
	return strings.ReplaceAll(s, modulePath+"/", "")
}

// fn looks up a function or method: fn("play", "Key.Apply"), fn("midix", "MIDIWriter.Note"), fn("op", "NewScale").
// fn finds a function by package and (receiver-qualified) name. When an unexported anchor is not found under its name,
// it is looked for by what identifies it besides the name (package, receiver type, signature; see anchors.go): a plain
// rename then keeps every rule working, and the function keeps its old name in keys and facts.
func (c *Ctx) fn(pkgrel, name string) *ssa.Function {
	if c.fnLookups == nil {
		c.fnLookups = map[string]bool{}
	}
	c.fnLookups[pkgrel+"|"+name] = true
	if f := c.fnByName(pkgrel, name); f != nil {
		return f
	}
	if f, ok := c.renamed[pkgrel+"|"+name]; ok {
		return f
	}
	if f := c.fnBySignature(pkgrel, name); f != nil {
		return f
	}
	// a method that became a package function of the same name (or changed the type it hangs on), same parameters
	// and results: the one function of that name in the package
	want, ok := anchorSigs[pkgrel+"|"+name]
	_, meth := splitRecv(name)
	sp := c.ssapkg(pkgrel)
	if !ok || sp == nil || meth == "" {
		return nil
	}
	tail := want[strings.Index(want, "("):]
	var cands []*ssa.Function
	consider := func(f *ssa.Function) {
		if f == nil || len(f.Blocks) == 0 || f.Synthetic != "" || f.Name() != meth {
			return
		}
		if k := sigKey(f); k[strings.Index(k, "("):] == tail {
			cands = append(cands, f)
		}
	}
	for _, m := range sp.Members {
		switch x := m.(type) {
		case *ssa.Function:
			consider(x)
		case *ssa.Type:
			if named, ok := x.Type().(*types.Named); ok {
				for i := 0; i < named.NumMethods(); i++ {
					consider(c.Prog.FuncValue(named.Method(i)))
				}
			}
		}
	}
	if len(cands) != 1 {
		return nil
	}
	f := cands[0]
	if c.renamed == nil {
		c.renamed = map[string]*ssa.Function{}
	}
	c.renamed[pkgrel+"|"+name] = f
	funcAlias[f] = pkgrel + "." + name
	return f
}

func splitRecv(name string) (recv, meth string) {
	meth = name
	if strings.HasPrefix(name, "(*") {
		i := strings.Index(name, ").")
		return name[2:i], name[i+2:]
	}
	if i := strings.Index(name, "."); i >= 0 {
		return name[:i], name[i+1:]
	}
	return "", name
}

// sigKey: receiver type name and signature of a function, package-qualified, without parameter names.
func sigKey(f *ssa.Function) string {
	sig := f.Signature
	recv := ""
	if r := sig.Recv(); r != nil {
		recv = typeName(r.Type())
	}
	q := func(p *types.Package) string { return p.Path() }
	var ps, rs []string
	for i := 0; i < sig.Params().Len(); i++ {
		ps = append(ps, types.TypeString(sig.Params().At(i).Type(), q))
	}
	for i := 0; i < sig.Results().Len(); i++ {
		rs = append(rs, types.TypeString(sig.Results().At(i).Type(), q))
	}
	v := ""
	if sig.Variadic() {
		v = "..."
	}
	return recv + "(" + strings.Join(ps, ",") + v + ")(" + strings.Join(rs, ",") + ")"
}

func (c *Ctx) fnBySignature(pkgrel, name string) *ssa.Function {
	want, ok := anchorSigs[pkgrel+"|"+name]
	_, meth := splitRecv(name)
	if !ok || meth == "" || ast.IsExported(meth) {
		return nil
	}
	sp := c.ssapkg(pkgrel)
	if sp == nil {
		return nil
	}
	// names that belong to other anchors which are still found under their own name
	taken := map[*ssa.Function]bool{}
	for k := range anchorSigs {
		i := strings.Index(k, "|")
		if k[:i] == pkgrel {
			if f := c.fnByName(pkgrel, k[i+1:]); f != nil {
				taken[f] = true
			}
		}
	}
	var cands []*ssa.Function
	consider := func(f *ssa.Function) {
		if f == nil || len(f.Blocks) == 0 || f.Synthetic != "" || taken[f] || f.Object() == nil || f.Object().Exported() {
			return
		}
		if sigKey(f) == want {
			cands = append(cands, f)
		}
	}
	for _, m := range sp.Members {
		switch x := m.(type) {
		case *ssa.Function:
			consider(x)
		case *ssa.Type:
			if named, ok := x.Type().(*types.Named); ok {
				for i := 0; i < named.NumMethods(); i++ {
					consider(c.Prog.FuncValue(named.Method(i)))
				}
			}
		}
	}
	if len(cands) == 0 {
		// a method that lost or changed its receiver (a receiver-less method made a plain function): same parameters
		// and results, whatever it hangs on
		tail := want[strings.Index(want, "("):]
		relaxed := func(f *ssa.Function) {
			if f == nil || len(f.Blocks) == 0 || f.Synthetic != "" || taken[f] || f.Object() == nil || f.Object().Exported() {
				return
			}
			if k := sigKey(f); k[strings.Index(k, "("):] == tail {
				cands = append(cands, f)
			}
		}
		for _, m := range sp.Members {
			switch x := m.(type) {
			case *ssa.Function:
				relaxed(x)
			case *ssa.Type:
				if named, ok := x.Type().(*types.Named); ok {
					for i := 0; i < named.NumMethods(); i++ {
						relaxed(c.Prog.FuncValue(named.Method(i)))
					}
				}
			}
		}
	}
	if len(cands) != 1 {
		return nil
	}
	f := cands[0]
	if c.renamed == nil {
		c.renamed = map[string]*ssa.Function{}
	}
	c.renamed[pkgrel+"|"+name] = f
	recv, _ := splitRecv(name)
	old := pkgrel + "."
	if recv != "" {
		old += recv + "."
	}
	funcAlias[f] = old + meth
	return f
}

func (c *Ctx) fnByName(pkgrel, name string) *ssa.Function {
	sp := c.ssapkg(pkgrel)
	if sp == nil {
		return nil
	}
	ptr := false
	recv := ""
	meth := name
	if strings.HasPrefix(name, "(*") {
		i := strings.Index(name, ").")
		recv, meth, ptr = name[2:i], name[i+2:], true
	} else if i := strings.Index(name, "."); i >= 0 {
		recv, meth = name[:i], name[i+1:]
	}
	if recv == "" {
		return sp.Func(meth)
	}
	tn, _ := sp.Pkg.Scope().Lookup(recv).(*types.TypeName)
	if tn == nil {
		return nil
	}
	var T types.Type = tn.Type()
	_ = ptr
	// look in both method sets; the declared receiver decides.
	for _, t := range []types.Type{T, types.NewPointer(T)} {
		ms := c.Prog.MethodSets.MethodSet(t)
		for i := 0; i < ms.Len(); i++ {
			sel := ms.At(i)
			if sel.Obj().Name() == meth && sel.Obj().Pkg() == sp.Pkg && len(sel.Index()) == 1 {
				if f, ok := sel.Obj().(*types.Func); ok {
					return c.Prog.FuncValue(f)
				}
			}
		}
	}
	return nil
}

// funcDecl finds the AST declaration of an ssa function (nil for synthetic ones).
func (c *Ctx) funcDecl(fn *ssa.Function) *ast.FuncDecl {
	if fn == nil {
		return nil
	}
	if d, ok := fn.Syntax().(*ast.FuncDecl); ok {
		return d
	}
	return nil
}

func (c *Ctx) callGraph() *callgraph.Graph {
	if c.cg == nil {
		c.cg = vta.CallGraph(ssautil.AllFunctions(c.Prog), cha.CallGraph(c.Prog))
	}
	return c.cg
}

// ---- obligation log ----

func (c *Ctx) rule(name, doc string, floor int) {
	c.curRule = name
	if _, ok := c.stats[name]; !ok {
		c.stats[name] = &RuleStat{Rule: name, Floor: floor, Doc: doc}
	}
}

func (c *Ctx) add(st Status, key, pos, fn, msg string, witness ...string) {
	full := c.curRule + "|" + key
	if c.seen[full] {
		// keep keys unique: a second obligation on the same construct gets a suffix
		for i := 2; ; i++ {
			k := fmt.Sprintf("%s#%d", full, i)
			if !c.seen[k] {
				full = k
				key = fmt.Sprintf("%s#%d", key, i)
				break
			}
		}
	}
	c.seen[full] = true
	o := &Obligation{Rule: c.curRule, Key: key, Pos: pos, Func: short(fn), Status: st, Msg: msg, Witness: witness}
	c.obs = append(c.obs, o)
	s := c.stats[c.curRule]
	s.Obligations++
	if st == Discharged {
		s.Discharged++
	}
}

func (c *Ctx) ok(key, pos, fn, msg string)                 { c.add(Discharged, key, pos, fn, msg) }
func (c *Ctx) bad(key, pos, fn, msg string, w ...string)   { c.add(Violated, key, pos, fn, msg, w...) }
func (c *Ctx) undec(key, pos, fn, msg string, w ...string) { c.add(Undecided, key, pos, fn, msg, w...) }

// check records ok/bad depending on cond.
func (c *Ctx) check(cond bool, key, pos, fn, okmsg, badmsg string) bool {
	if cond {
		c.ok(key, pos, fn, okmsg)
	} else {
		c.bad(key, pos, fn, badmsg)
	}
	return cond
}

// site counts one matched instance of the current rule (for the floor).
func (c *Ctx) site(n int) { c.stats[c.curRule].Sites += n }

// finishRule checks the floor.
func (c *Ctx) finishRule() {
	s := c.stats[c.curRule]
	// a refactoring may merge or remove a few of the sites that were confirmed by reading; what must not happen is that
	// the rule goes (nearly) blind: at least two thirds of the confirmed number have to be matched
	need := (2*s.Floor + 2) / 3
	if s.Floor > 0 && need < 1 {
		need = 1
	}
	if s.Sites < need {
		c.bad("floor", "", "", fmt.Sprintf("rule matched %d sites, fewer than two thirds of the %d confirmed by reading: a construct the property depends on has disappeared or the rule no longer recognises it", s.Sites, s.Floor))
	}
}

// missing records an unresolved anchor.
func (c *Ctx) missing(what string) {
	c.bad("anchor:"+what, "", "", "anchor not found: "+what+" (the construct this rule reasons about was removed or renamed)")
}

func hashKey(s string) string {
	h := sha1.Sum([]byte(s))
	return hex.EncodeToString(h[:])[:10]
}

func sortedKeys[M ~map[string]V, V any](m M) []string {
	ks := make([]string, 0, len(m))
	for k := range m {
		ks = append(ks, k)
	}
	sort.Strings(ks)
	return ks
}

// resolveAnchors looks every known anchor up once, so that a renamed helper gets its stable alias before any rule runs.
func (c *Ctx) resolveAnchors() {
	for k := range anchorSigs {
		i := strings.Index(k, "|")
		c.fn(k[:i], k[i+1:])
	}
}
