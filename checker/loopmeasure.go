package main

// Termination measures for condition-only loops, recognised on the SSA form so that a loop keeps its verdict when it is
// moved into another function: (P1) a walk that records every visited key in a local set and leaves on a repeat,
// (P2) a counter that grows by a positive constant towards a bound, (P3) a walk along `extends` links of the chord
// table, which is finite because Map.validate rejects cyclic links (checked by checkExtendsAcyclic).

import (
	"go/ast"
	"go/constant"
	"go/token"
	"go/types"

	"golang.org/x/tools/go/ssa"
)

// ssaLoopOf finds the natural loop of fn (or one of its closures) that corresponds to the for statement.
func ssaLoopOf(fn *ssa.Function, fs *ast.ForStmt) (map[*ssa.BasicBlock]bool, *ssa.BasicBlock) {
	var best map[*ssa.BasicBlock]bool
	var bestH *ssa.BasicBlock
	for _, f := range withClosures(fn) {
		for _, h := range f.Blocks {
			l := naturalLoop(h)
			if l == nil {
				continue
			}
			inside, positioned := true, 0
			for b := range l {
				for _, in := range b.Instrs {
					if _, isPhi := in.(*ssa.Phi); isPhi {
						continue // a phi carries the position of the variable's declaration
					}
					if p := in.Pos(); p.IsValid() {
						positioned++
						if p < fs.Pos() || p >= fs.End() {
							inside = false
						}
					}
				}
			}
			if !inside || positioned == 0 {
				continue
			}
			if best == nil || len(l) > len(best) {
				best, bestH = l, h
			}
		}
	}
	return best, bestH
}

// loopMeasure returns a termination argument for the loop, or "".
func (c *Ctx) loopMeasure(loop map[*ssa.BasicBlock]bool, h *ssa.BasicBlock) (string, bool) {
	if loop == nil {
		return "", false
	}
	fn := h.Parent()
	var latches []*ssa.BasicBlock
	for _, p := range h.Preds {
		if loop[p] {
			latches = append(latches, p)
		}
	}
	exitsOn := func(iff *ssa.If) (trueLeaves, falseLeaves bool) {
		return !loop[iff.Block().Succs[0]], !loop[iff.Block().Succs[1]]
	}
	// P2: counter
	for _, in := range h.Instrs {
		phi, ok := in.(*ssa.Phi)
		if !ok {
			break
		}
		if b, ok := phi.Type().Underlying().(*types.Basic); !ok || b.Info()&types.IsInteger == 0 {
			continue
		}
		grows := true
		var stepped []ssa.Value
		for i, e := range phi.Edges {
			if !loop[h.Preds[i]] {
				continue
			}
			if k, ok := incrementOf(e, phi, 0); !ok || k <= 0 {
				grows = false
				break
			}
			stepped = append(stepped, e)
		}
		if !grows || len(stepped) == 0 {
			continue
		}
		for b := range loop {
			iff, ok := b.Instrs[len(b.Instrs)-1].(*ssa.If)
			if !ok {
				continue
			}
			cmp, ok := iff.Cond.(*ssa.BinOp)
			if !ok || (cmp.Op != token.LSS && cmp.Op != token.LEQ) {
				continue
			}
			isCounter := cmp.X == ssa.Value(phi)
			for _, s := range stepped {
				if cmp.X == s {
					isCounter = true
				}
			}
			if _, falseLeaves := exitsOn(iff); isCounter && falseLeaves {
				return "a counter grows by a positive constant on every iteration and the loop ends when it reaches the bound", true
			}
		}
	}
	// P4: every iteration consumes input: a block that every way back to the head passes holds r.DiscardWhile(p) /
	// r.NextWhile(p) on a reader whose next rune is known there (`r.Peek() == k` on the way) with p(k) true, so at least
	// that rune is consumed; a ybase.Reader only moves forward and its input is finite
	for b := range loop {
		dominatesLatches := true
		for _, l := range latches {
			if !(b == l || b.Dominates(l)) {
				dominatesLatches = false
			}
		}
		if !dominatesLatches {
			continue
		}
		for _, in := range b.Instrs {
			call, ok := in.(*ssa.Call)
			if !ok || !call.Call.IsInvoke() || (call.Call.Method.Name() != "DiscardWhile" && call.Call.Method.Name() != "NextWhile") {
				continue
			}
			pf := funcOfValue(call.Call.Args[0])
			if pf == nil || len(pf.Params) != 1 {
				continue
			}
			for _, pc := range pathConds(b) {
				cmp, ok := pc.cond.(*ssa.BinOp)
				if !ok || (cmp.Op != token.EQL && cmp.Op != token.NEQ) || (cmp.Op == token.EQL) != pc.side {
					continue
				}
				pk, ok := cmp.X.(*ssa.Call)
				if !ok || !pk.Call.IsInvoke() || pk.Call.Method.Name() != "Peek" || cellValue(pk.Call.Value) != cellValue(call.Call.Value) || !loop[pk.Block()] {
					continue
				}
				k, ok := cmp.Y.(*ssa.Const)
				if !ok || k.Value == nil {
					continue
				}
				r, err := c.newFolder().foldCall(pf, []fval{{k: k.Value, t: pf.Params[0].Type()}})
				if err == nil && r.k != nil && r.k.Kind() == constant.Bool && constant.BoolVal(r.k) {
					return "every iteration consumes at least the rune it has just peeked (" + call.Call.Method.Name() + " with a predicate that holds for it); a reader only moves forward over finite input", true
				}
			}
		}
	}
	// P1: visited set (kept in a map directly, or behind add / has helpers)
	for b := range loop {
		for _, in := range b.Instrs {
			add, ok := setAddOf(in)
			if !ok {
				continue
			}
			if _, local := stripChangeType(add.set).(*ssa.MakeMap); !local {
				continue
			}
			dominatesLatches := true
			for _, l := range latches {
				if !(in.Block() == l || in.Block().Dominates(l)) {
					dominatesLatches = false
				}
			}
			if !dominatesLatches {
				continue
			}
			// a test of the same key in the same set decides whether the walk goes on
			for b2 := range loop {
				for _, in2 := range b2.Instrs {
					test, ok := setTestOf(in2)
					if !ok || stripChangeType(test.set) != stripChangeType(add.set) || !sameFieldValue(test.key, add.key) || test.result == nil {
						continue
					}
					for _, r := range *test.result.Referrers() {
						iff, ok := r.(*ssa.If)
						if !ok {
							continue
						}
						// a key that is already in the set ends the walk; the update happens on the other side
						if trueLeaves, _ := exitsOn(iff); trueLeaves && dominatesInstr(in2, in) && c.keyFromFiniteTable(add.key) {
							return "every iteration that goes on adds a key of a finite table to a local visited set; a key seen before ends the loop", true
						}
					}
				}
			}
		}
	}
	// P3: extends chain of the chord table
	for _, in := range h.Instrs {
		phi, ok := in.(*ssa.Phi)
		if !ok {
			break
		}
		walk := true
		n := 0
		for i, e := range phi.Edges {
			if !loop[h.Preds[i]] {
				continue
			}
			n++
			name, base, ok := loadedFieldOrField(e)
			if !ok || name != "Extends" {
				walk = false
				break
			}
			if al, isLocal := base.(*ssa.Alloc); isLocal {
				// a local copy of the looked-up element
				for _, r := range *al.Referrers() {
					if st, ok := r.(*ssa.Store); ok && st.Addr == ssa.Value(al) {
						base = st.Val
					}
				}
			}
			ex, ok := base.(*ssa.Extract)
			if !ok {
				walk = false
				break
			}
			lk, ok := ex.Tuple.(*ssa.Lookup)
			if !ok || lk.Index != ssa.Value(phi) {
				walk = false
				break
			}
			if fnm, _, ok := loadedField(lk.X); !ok || fnm != "chords" {
				walk = false
			}
		}
		if walk && n > 0 {
			c.extendsWalks = append(c.extendsWalks, fn)
			return "walks the `extends` links of the chord table, which Map.validate guarantees to be acyclic (see chord.Map.validate|cyclic-extends)", true
		}
	}
	return "", false
}

// loadedFieldOrField: v is x.f (value struct) or *(&x.f).
func loadedFieldOrField(v ssa.Value) (string, ssa.Value, bool) {
	if f, ok := v.(*ssa.Field); ok {
		n, _, ok := fieldName(f)
		return n, f.X, ok
	}
	return loadedField(v)
}

// keyFromFiniteTable: the key is (a field of) an element looked up in a map, so it ranges over finitely many values.
func (c *Ctx) keyFromFiniteTable(v ssa.Value) bool {
	for i := 0; i < 8; i++ {
		switch x := v.(type) {
		case *ssa.Call:
			// an accessor that returns the looked-up element
			if callee := staticCallee(&x.Call); callee != nil && accessorOfField(callee) != "" {
				return true
			}
			return false
		case *ssa.Field:
			v = x.X
		case *ssa.Extract:
			v = x.Tuple
		case *ssa.Lookup:
			_, isMap := x.X.Type().Underlying().(*types.Map)
			return isMap
		case *ssa.UnOp:
			v = x.X
		case *ssa.FieldAddr:
			v = x.X
		case *ssa.Alloc:
			// a local that only ever holds looked-up elements
			var src ssa.Value
			for _, r := range *x.Referrers() {
				if st, ok := r.(*ssa.Store); ok && st.Addr == ssa.Value(x) {
					if src != nil && src != st.Val {
						return false
					}
					src = st.Val
				}
			}
			if src == nil {
				return false
			}
			v = src
		default:
			return false
		}
	}
	return false
}

// incrementOf: e = phi + k1 + k2 + ... with constant ks; returns their sum.
func incrementOf(e ssa.Value, phi *ssa.Phi, depth int) (int64, bool) {
	if e == ssa.Value(phi) {
		return 0, true
	}
	add, ok := e.(*ssa.BinOp)
	if !ok || add.Op != token.ADD || depth > 8 {
		return 0, false
	}
	k, ok := constInt(add.Y)
	if !ok {
		return 0, false
	}
	r, ok := incrementOf(add.X, phi, depth+1)
	return r + k, ok
}

// sameFieldValue: the same SSA value, or two reads of the same field of the same value (go/ssa does no CSE).
func sameFieldValue(a, b ssa.Value) bool {
	if a == b {
		return true
	}
	fa, ok1 := a.(*ssa.Field)
	fb, ok2 := b.(*ssa.Field)
	if ok1 && ok2 {
		return fa.Field == fb.Field && sameFieldValue(fa.X, fb.X)
	}
	la, ok1 := a.(*ssa.UnOp)
	lb, ok2 := b.(*ssa.UnOp)
	if ok1 && ok2 && la.Op == token.MUL && lb.Op == token.MUL {
		pa, ok1 := la.X.(*ssa.FieldAddr)
		pb, ok2 := lb.X.(*ssa.FieldAddr)
		if ok1 && ok2 {
			return pa.Field == pb.Field && sameFieldValue(pa.X, pb.X)
		}
	}
	return false
}

// setOp: an operation on a set kept in a map: adding a key, or testing a key (result is the boolean that says "present").
type setOp struct {
	set, key ssa.Value
	result   ssa.Value
}

func stripChangeType(v ssa.Value) ssa.Value {
	for {
		ct, ok := v.(*ssa.ChangeType)
		if !ok {
			return v
		}
		v = ct.X
	}
}

// setAddOf: the instruction puts a key into a map - `m[k] = v`, or a call of a helper whose whole body is `p[q] = v` for
// two of its parameters (`seen.add(name)`).
func setAddOf(in ssa.Instruction) (setOp, bool) {
	switch x := in.(type) {
	case *ssa.MapUpdate:
		return setOp{set: x.Map, key: x.Key}, true
	case *ssa.Call:
		g := staticCallee(&x.Call)
		if g == nil || len(g.Blocks) != 1 || x.Call.IsInvoke() {
			return setOp{}, false
		}
		var mu *ssa.MapUpdate
		for _, gi := range g.Blocks[0].Instrs {
			switch y := gi.(type) {
			case *ssa.MapUpdate:
				if mu != nil {
					return setOp{}, false
				}
				mu = y
			case *ssa.Return, *ssa.DebugRef:
			default:
				if _, isVal := gi.(ssa.Value); !isVal {
					return setOp{}, false // another effect
				}
				if _, isCall := gi.(*ssa.Call); isCall {
					return setOp{}, false
				}
			}
		}
		if mu == nil {
			return setOp{}, false
		}
		mi, ki := paramIndexOf(g, stripChangeType(mu.Map)), paramIndexOf(g, mu.Key)
		if mi < 0 || ki < 0 || mi >= len(x.Call.Args) || ki >= len(x.Call.Args) {
			return setOp{}, false
		}
		return setOp{set: x.Call.Args[mi], key: x.Call.Args[ki]}, true
	}
	return setOp{}, false
}

// setTestOf: the instruction asks whether a key is in a map - `m[k]` (comma-ok or a boolean element), or a call of a
// helper that returns just that for two of its parameters (`seen.has(name)`).
func setTestOf(in ssa.Instruction) (setOp, bool) {
	presence := func(lk *ssa.Lookup) ssa.Value {
		if _, isMap := lk.X.Type().Underlying().(*types.Map); !isMap {
			return nil
		}
		if !lk.CommaOk {
			return lk
		}
		for _, r := range *lk.Referrers() {
			if ex, ok := r.(*ssa.Extract); ok && ex.Index == 1 {
				return ex
			}
		}
		return nil
	}
	switch x := in.(type) {
	case *ssa.Lookup:
		if res := presence(x); res != nil {
			return setOp{set: x.X, key: x.Index, result: res}, true
		}
	case *ssa.Call:
		g := staticCallee(&x.Call)
		if g == nil || len(g.Blocks) != 1 || x.Call.IsInvoke() || g.Signature.Results().Len() != 1 {
			return setOp{}, false
		}
		rets := returnsOf(g)
		if len(rets) != 1 {
			return setOp{}, false
		}
		var lk *ssa.Lookup
		for _, gi := range g.Blocks[0].Instrs {
			if l, ok := gi.(*ssa.Lookup); ok {
				lk = l
			}
		}
		if lk == nil || presence(lk) != rets[0].Results[0] {
			return setOp{}, false
		}
		mi, ki := paramIndexOf(g, stripChangeType(lk.X)), paramIndexOf(g, lk.Index)
		if mi < 0 || ki < 0 || mi >= len(x.Call.Args) || ki >= len(x.Call.Args) {
			return setOp{}, false
		}
		return setOp{set: x.Call.Args[mi], key: x.Call.Args[ki], result: x}, true
	}
	return setOp{}, false
}

func paramIndexOf(fn *ssa.Function, v ssa.Value) int {
	for i, p := range fn.Params {
		if ssa.Value(p) == v {
			return i
		}
	}
	return -1
}
