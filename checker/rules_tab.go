package main

// TAB engine: constant tables extracted from source, compared row by row with
// the independent specification in spec.go.

import (
	"fmt"
	"go/ast"
	"go/constant"
	"go/token"
	"go/types"
	"os"
	"regexp/syntax"
	"sort"
	"strings"

	"golang.org/x/tools/go/packages"
	"golang.org/x/tools/go/ssa"
)

func init() {
	register("TAB-NOTE", "letter pitches C0 D2 E4 F5 G7 A9 B11; accidentals natural 0, sharp +1, flat -1, double +-2; 12 semitones per octave; name/accidental strings injective", 16, ruleTabNote)
	register("TAB-DEGREE", "every row of the interval-size table equals the textbook size; the quality-adjustment tuples and octave constants are right; the size computed from the extracted tables by the documented algorithm equals the specification for n=1..64 x 7 qualities", 18, ruleTabDegree)
	register("TAB-NOTATION", "interval notation marks '', b, #, bb, ##, bbb map to the right qualities, parser candidates equal the printer table and are tried longest first", 6, ruleTabNotation)
	register("TAB-KEYSIG", "every key-signature row equals the signature derived from the step pattern; the 28 required keys exist; order of flats; tonic index table; slicing bounds; tonic accidental matches the key", 28, ruleTabKeysig)
}

// ---------------------------------------------------------------------------

func (c *Ctx) mapTable(pkgrel, ts, name string) (*MapV, *types.Var, token.Pos) {
	v := c.tableVar(pkgrel, ts, name)
	if v == nil {
		// the same table kept as an array indexed by the enumeration instead of a map keyed by it
		if m, av, pos := c.arrayAsMapTable(pkgrel, ts); m != nil {
			return m, av, pos
		}
	}
	if v == nil {
		c.missing(pkgrel + "." + name + " (" + ts + ")")
		return nil, nil, 0
	}
	val, pos, err := c.evalVar(v)
	if err != nil {
		// not a literal: what the package initialiser leaves in the variable, when that folds (a table filled from a
		// list of specs, two tables made by one helper)
		if sp := c.ssapkg(pkgrel); sp != nil {
			if g := sp.Var(v.Name()); g != nil {
				if mv, ok := c.globalTable(g).cv.(*MapV); ok {
					for i := range mv.Entries {
						if mv.Entries[i].Pos == 0 {
							mv.Entries[i].Pos = v.Pos()
						}
					}
					return mv, v, v.Pos()
				}
			}
		}
		c.undec(pkgrel+"."+v.Name(), c.pos(v.Pos()), "", "table initialiser is not a constant literal: "+err.Error())
		return nil, v, pos
	}
	m, ok := val.(*MapV)
	if !ok {
		c.undec(pkgrel+"."+v.Name(), c.pos(v.Pos()), "", "table is not a map literal")
		return nil, v, pos
	}
	return m, v, pos
}

// arrayAsMapTable: for a table type map[K]V, the unique package-level array (or slice literal) of V, read as the map
// from index to element with the indexes typed K; rows that are entirely zero (the unused slot of the enumeration's zero
// value) are left out.
func (c *Ctx) arrayAsMapTable(pkgrel, ts string) (*MapV, *types.Var, token.Pos) {
	p := c.pkg(pkgrel)
	if p == nil || !strings.HasPrefix(ts, "map[") {
		return nil, nil, 0
	}
	end := strings.Index(ts, "]")
	if end < 0 {
		return nil, nil, 0
	}
	keyTS, valTS := ts[4:end], ts[end+1:]
	var keyT types.Type
	for _, n := range p.Types.Scope().Names() {
		if tn, ok := p.Types.Scope().Lookup(n).(*types.TypeName); ok && short(tn.Type().String()) == keyTS {
			keyT = tn.Type()
		}
	}
	if keyT == nil {
		return nil, nil, 0
	}
	var cands []*types.Var
	for _, n := range p.Types.Scope().Names() {
		v, ok := p.Types.Scope().Lookup(n).(*types.Var)
		if !ok {
			continue
		}
		var elem types.Type
		switch t := v.Type().Underlying().(type) {
		case *types.Array:
			elem = t.Elem()
		case *types.Slice:
			elem = t.Elem()
		}
		if elem != nil && short(elem.String()) == valTS {
			cands = append(cands, v)
		}
	}
	if len(cands) != 1 {
		return nil, nil, 0
	}
	val, pos, err := c.evalVar(cands[0])
	lv, ok := val.(*ListV)
	if err != nil || !ok {
		return nil, nil, 0
	}
	var isZero func(x Val) bool
	isZero = func(x Val) bool {
		switch y := x.(type) {
		case nil:
			return true
		case *CVal:
			if y.V == nil {
				return true
			}
			switch y.V.Kind() {
			case constant.String:
				return constant.StringVal(y.V) == ""
			case constant.Bool:
				return !constant.BoolVal(y.V)
			case constant.Int, constant.Float:
				return constant.Sign(y.V) == 0
			}
			return false
		case *StructV:
			for _, f := range y.Fields {
				if !isZero(f) {
					return false
				}
			}
			return true
		}
		return false
	}
	m := &MapV{T: types.NewMap(keyT, cands[0].Type())}
	for i, e := range lv.Elems {
		if isZero(e) {
			continue
		}
		ep := pos
		if i < len(lv.Poss) && lv.Poss[i] != 0 {
			ep = lv.Poss[i]
		}
		m.Entries = append(m.Entries, KV{K: &CVal{V: constant.MakeInt64(int64(i)), T: keyT, c: c}, V: e, Pos: ep})
	}
	if len(m.Entries) == 0 {
		return nil, nil, 0
	}
	return m, cands[0], pos
}

// printedTable is mapTable for a table whose only reader is a printer method over an enum: when the variable is gone
// (the printer became a switch, say) the same table is synthesised by folding the printer over the enum's constants.
// The returned name is the label obligations are keyed by (the variable's name today).
func (c *Ctx) printedTable(pkgrel, ts, name, printer, enumType string, skip ...string) (*MapV, string, token.Pos) {
	if c.tableVar(pkgrel, ts, name) != nil {
		m, v, pos := c.mapTable(pkgrel, ts, name)
		if v != nil {
			name = v.Name()
		}
		return m, name, pos
	}
	pf := c.fn(pkgrel, printer)
	enum := c.enumConsts(pkgrel, enumType)
	if pf == nil || len(pf.Params) != 1 || len(enum) == 0 {
		c.missing(pkgrel + "." + name + " (" + ts + ")")
		return nil, name, 0
	}
	m := &MapV{}
	for _, n := range sortedKeys(enum) {
		skipped := false
		for _, sk := range skip {
			skipped = skipped || sk == n
		}
		if skipped {
			continue
		}
		k := constant.MakeInt64(enum[n])
		r, err := c.newFolder().foldCall(pf, []fval{{k: k, t: pf.Params[0].Type()}})
		if err != nil || r.k == nil || r.k.Kind() != constant.String {
			c.undec(pkgrel+"."+name, c.pos(pf.Pos()), fname(pf), "there is no table variable and the printer does not fold for "+n)
			return nil, name, pf.Pos()
		}
		m.Entries = append(m.Entries, KV{K: &CVal{V: k, T: pf.Params[0].Type(), c: c}, V: &CVal{V: r.k, T: types.Typ[types.String], c: c}, Pos: pf.Pos()})
	}
	return m, name, pf.Pos()
}

// checkInjective: values of a map table are pairwise distinct.
func (c *Ctx) checkInjective(tab string, m *MapV, pos token.Pos) {
	seen := map[string]string{}
	okAll := true
	for _, e := range m.Entries {
		vs := e.V.vstr()
		if prev, dup := seen[vs]; dup {
			c.bad(tab+"|injective|"+vs, c.pos(e.Pos), "", fmt.Sprintf("value %s is given to both %s and %s: the inverse table (built with MustInverseMap at init) panics or a reverse lookup becomes ambiguous", vs, prev, e.K.vstr()))
			okAll = false
		}
		seen[vs] = e.K.vstr()
	}
	if okAll {
		c.ok(tab+"|injective", c.pos(pos), "", fmt.Sprintf("%d values pairwise distinct", len(m.Entries)))
	}
}

func ruleTabNote(c *Ctx) {
	// letter pitches: decided on the accessor when it folds (a table lookup and a switch are alike), else on the table literal
	if vals, ok := c.foldEnumAccessor("note", "Name.Semitone", "note", "Name", specLetters); ok {
		for _, l := range specLetters {
			c.site(1)
			n := int64(-99)
			if vals[l].k != nil && vals[l].k.Kind() == constant.Int {
				n, _ = constant.Int64Val(vals[l].k)
			}
			want := specNatural(l)
			c.check(int64(want) == n, "note.nameSemitoneMap|"+l, "", "note.Name.Semitone", fmt.Sprintf("%s = %d semitones above C (folded from Name.Semitone)", l, n), fmt.Sprintf("%s is %d semitones above C, the major scale from C puts it at %d", l, n, want))
		}
	} else if m, v, _ := c.mapTable("note", "map[note.Name]note.Semitone", "nameSemitoneMap"); m != nil {
		tab := "note." + v.Name()
		got := map[string]int64{}
		for _, e := range m.Entries {
			k := e.K.vstr()
			n, _ := asInt(e.V)
			got[k] = n
			c.site(1)
			want := specNatural(k)
			c.check(want >= 0 && int64(want) == n, tab+"|"+k, c.pos(e.Pos), "",
				fmt.Sprintf("%s = %d semitones above C", k, n),
				fmt.Sprintf("%s is %d semitones above C in the table, the major scale from C puts it at %d", k, n, want))
		}
		for _, l := range specLetters {
			if _, ok := got[l]; !ok {
				c.bad(tab+"|"+l, c.pos(v.Pos()), "", "letter "+l+" has no pitch row (Name.Semitone panics for it)")
			}
		}
	}
	// letter strings
	if m, vname, pos := c.printedTable("note", "map[note.Name]string", "nameStringMap", "Name.String", "Name", "UnknownName"); m != nil {
		tab := "note." + vname
		for _, e := range m.Entries {
			s, _ := asStr(e.V)
			c.site(1)
			c.check(s == e.K.vstr(), tab+"|"+e.K.vstr(), c.pos(e.Pos), "", "letter prints as itself", fmt.Sprintf("letter %s prints as %q", e.K.vstr(), s))
		}
		c.checkInjective(tab, m, pos)
	}
	// accidentals
	wantAcc := map[string]int64{"Natural": 0, "Sharp": 1, "Flat": -1, "DoubleSharp": 2, "DoubleFlat": -2}
	// decided on the accessor when it folds (a table lookup and a switch are alike), else on the table literal
	accFolded := false
	if fn := c.fn("note", "Accidental.Semitone"); fn != nil {
		enum := c.enumConsts("note", "Accidental")
		vals := map[string]int64{}
		okAll := len(enum) > 0
		for name := range wantAcc {
			k, has := enum[name]
			if !has {
				okAll = false
				break
			}
			r, err := c.newFolder().foldCall(fn, []fval{{k: constant.MakeInt64(k), t: fn.Params[0].Type()}})
			if err != nil || r.k == nil || r.k.Kind() != constant.Int {
				okAll = false
				break
			}
			vals[name], _ = constant.Int64Val(r.k)
		}
		if okAll {
			accFolded = true
			for _, name := range sortedKeys(wantAcc) {
				c.site(1)
				c.check(vals[name] == wantAcc[name], "note.accidentalSemitoneMap|"+name, c.pos(fn.Pos()), fname(fn), fmt.Sprintf("%s alters by %d (folded from Accidental.Semitone)", name, vals[name]), fmt.Sprintf("%s alters by %d semitones, should be %d", name, vals[name], wantAcc[name]))
			}
		}
	}
	if accFolded {
		// nothing more to read from a table
	} else if m, v, _ := c.mapTable("note", "map[note.Accidental]note.Semitone", "accidentalSemitoneMap"); m != nil {
		tab := "note." + v.Name()
		got := map[string]bool{}
		for _, e := range m.Entries {
			k := e.K.vstr()
			n, _ := asInt(e.V)
			got[k] = true
			c.site(1)
			w, known := wantAcc[k]
			c.check(known && w == n, tab+"|"+k, c.pos(e.Pos), "", fmt.Sprintf("%s alters by %d", k, n), fmt.Sprintf("%s alters by %d semitones, should be %d", k, n, w))
		}
		for k := range wantAcc {
			if !got[k] {
				c.bad(tab+"|"+k, c.pos(v.Pos()), "", "accidental "+k+" has no row (Accidental.Semitone panics for it)")
			}
		}
	}
	// accidental strings: all spellings distinct, simple spellings are the ASCII ones
	if m, v, pos := c.mapTable("note", "map[note.Accidental]note.accidentalStringCell", "accidentalStringMap"); m != nil {
		tab := "note." + v.Name()
		seen := map[string]string{}
		dup := false
		wantSimple := map[string]string{"Sharp": "#", "Flat": "b", "DoubleSharp": "##", "DoubleFlat": "bb"}
		for _, e := range m.Entries {
			sv, ok := e.V.(*StructV)
			if !ok {
				continue
			}
			c.site(1)
			for _, f := range []string{"origin", "simple"} {
				s, _ := asStr(sv.Fields[f])
				if p, d := seen[s]; d {
					c.bad(tab+"|distinct|"+s, c.pos(e.Pos), "", fmt.Sprintf("spelling %q belongs to both %s and %s: NewAccidental ranges over a map and would return either, depending on iteration order", s, p, e.K.vstr()))
					dup = true
				}
				seen[s] = e.K.vstr()
			}
			if w, ok := wantSimple[e.K.vstr()]; ok {
				s, _ := asStr(sv.Fields["simple"])
				c.check(s == w, tab+"|simple|"+e.K.vstr(), c.pos(e.Pos), "", "ASCII spelling "+w, fmt.Sprintf("ASCII spelling of %s is %q, want %q", e.K.vstr(), s, w))
			}
		}
		if !dup {
			c.ok(tab+"|distinct", c.pos(pos), "", "all accidental spellings pairwise distinct")
		}
	}
	// octave
	if k, pos, ok := c.constOf("note", "octaveSemitones"); ok {
		n, _ := constant.Int64Val(k)
		c.site(1)
		c.check(n == 12, "note.octaveSemitones", c.pos(pos), "", "12 semitones per octave", fmt.Sprintf("octave is %d semitones", n))
	} else {
		c.missing("note.octaveSemitones")
	}
	// op.Accidental enum functions folded over the declared constants
	enum := c.enumConsts("op", "Accidental")
	noteAcc := c.enumConsts("note", "Accidental")
	for _, spec := range []struct {
		fn   string
		want map[string]int64
	}{
		{"Accidental.Semitone", map[string]int64{"Sharp": 1, "Flat": -1, "Natural": 0, "UnknownAccidental": 0}},
		{"Accidental.AsNoteAccidental", map[string]int64{"Sharp": noteAcc["Sharp"], "Flat": noteAcc["Flat"], "Natural": noteAcc["Natural"]}},
	} {
		fn := c.fn("op", spec.fn)
		if fn == nil {
			c.missing("op." + spec.fn)
			continue
		}
		for _, name := range sortedKeys(spec.want) {
			want := spec.want[name]
			c.site(1)
			key := "op." + spec.fn + "|" + name
			r, err := c.newFolder().foldCall(fn, []fval{{k: constant.MakeInt64(enum[name]), t: fn.Params[0].Type()}})
			if err != nil || r.k == nil {
				c.undec(key, c.pos(fn.Pos()), fname(fn), fmt.Sprintf("does not fold to a constant for %s: %v", name, err))
				continue
			}
			got, _ := constant.Int64Val(r.k)
			c.check(got == want, key, c.pos(fn.Pos()), fname(fn), fmt.Sprintf("%s -> %d", name, got), fmt.Sprintf("%s maps to %d, want %d", name, got, want))
		}
	}
	// op accidental strings
	if m, v, pos := c.printedTable("op", "map[op.Accidental]string", "accidentalStringMap", "Accidental.String", "Accidental", "UnknownAccidental"); m != nil {
		tab := "op." + v
		want := map[string]string{"Natural": "", "Sharp": "#", "Flat": "b"}
		for _, e := range m.Entries {
			s, _ := asStr(e.V)
			c.site(1)
			w, ok := want[e.K.vstr()]
			c.check(ok && w == s, tab+"|"+e.K.vstr(), c.pos(e.Pos), "", fmt.Sprintf("%s prints as %q", e.K.vstr(), s), fmt.Sprintf("%s prints as %q, want %q", e.K.vstr(), s, w))
		}
		c.checkInjective(tab, m, pos)
	}
}

// ---------------------------------------------------------------------------

var degreeNameQuality = map[string]Quality{
	"MajorDegree": QMajor, "MinorDegree": QMinor, "PerfectDegree": QPerfect, "AugmentedDegree": QAugmented,
	"DiminishedDegree": QDiminished, "DoublyAugmentedDegree": QDoublyAugmented, "DoublyDiminishedDegree": QDoublyDiminished,
}

type degRow struct {
	value int64
	name  string
	semi  int64
	pos   token.Pos
}

func (c *Ctx) degreeRows() ([]degRow, *types.Var) {
	m, v, _ := c.mapTable("note", "map[note.Degree]note.Semitone", "degreeSemitoneMap")
	if m == nil {
		return nil, v
	}
	var rows []degRow
	for _, e := range m.Entries {
		sv, ok := e.K.(*StructV)
		if !ok {
			c.undec("note."+v.Name()+"|row", c.pos(e.Pos), "", "row key is not a struct literal")
			continue
		}
		val, _ := asInt(sv.Fields["Value"])
		name := ""
		if n, ok := sv.Fields["Name"]; ok {
			name = n.vstr()
		}
		semi, _ := asInt(e.V)
		rows = append(rows, degRow{val, name, semi, e.Pos})
	}
	return rows, v
}

type adjustTuple struct {
	target string   // d.Name
	bases  []string // k.Name alternatives
	delta  int64
	pos    token.Pos
}

// extractAdjustTuples reads the quality-adjustment switch: case d.Name == X && (k.Name == Y || k.Name == Z): return v +- c, true
func (c *Ctx) extractAdjustTuples(fd *ast.FuncDecl, p *packages.Package) ([]adjustTuple, []string) {
	var tuples []adjustTuple
	var problems []string
	ast.Inspect(fd.Body, func(n ast.Node) bool {
		sw, ok := n.(*ast.SwitchStmt)
		if !ok || sw.Tag != nil {
			return true
		}
		for _, s := range sw.Body.List {
			cc := s.(*ast.CaseClause)
			if cc.List == nil {
				continue
			}
			for _, cond := range cc.List {
				t := adjustTuple{pos: cc.Pos()}
				if !c.parseAdjustCond(p, cond, &t) {
					problems = append(problems, "case condition not of the form d.Name == Q && (k.Name == A || k.Name == B): "+types.ExprString(cond))
					continue
				}
				// body: return v + c, true
				if len(cc.Body) != 1 {
					problems = append(problems, "case body is not a single return")
					continue
				}
				rs, ok := cc.Body[0].(*ast.ReturnStmt)
				if !ok || len(rs.Results) != 2 {
					problems = append(problems, "case body is not `return v±c, true`")
					continue
				}
				be, ok := rs.Results[0].(*ast.BinaryExpr)
				if !ok || (be.Op != token.ADD && be.Op != token.SUB) {
					problems = append(problems, "adjusted size is not v±c: "+types.ExprString(rs.Results[0]))
					continue
				}
				tv := p.TypesInfo.Types[be.Y]
				if tv.Value == nil {
					problems = append(problems, "adjustment is not a constant")
					continue
				}
				d, _ := constant.Int64Val(tv.Value)
				if be.Op == token.SUB {
					d = -d
				}
				if bv := p.TypesInfo.Types[rs.Results[1]]; bv.Value == nil || !constant.BoolVal(bv.Value) {
					problems = append(problems, "adjusted case does not return ok=true")
					continue
				}
				t.delta = d
				tuples = append(tuples, t)
			}
		}
		return true
	})
	return tuples, problems
}

func (c *Ctx) parseAdjustCond(p *packages.Package, e ast.Expr, t *adjustTuple) bool {
	e = ast.Unparen(e)
	be, ok := e.(*ast.BinaryExpr)
	if !ok {
		return false
	}
	switch be.Op {
	case token.LAND:
		return c.parseAdjustCond(p, be.X, t) && c.parseAdjustCond(p, be.Y, t)
	case token.LOR:
		var a, b adjustTuple
		if !c.parseAdjustCond(p, be.X, &a) || !c.parseAdjustCond(p, be.Y, &b) {
			return false
		}
		if a.target != "" || b.target != "" {
			return false
		}
		t.bases = append(t.bases, a.bases...)
		t.bases = append(t.bases, b.bases...)
		return true
	case token.EQL:
		sel, ok := ast.Unparen(be.X).(*ast.SelectorExpr)
		if !ok || sel.Sel.Name != "Name" {
			return false
		}
		tv := p.TypesInfo.Types[be.Y]
		if tv.Value == nil {
			return false
		}
		name := c.constName(tv.Type, tv.Value)
		// receiver/parameter side = target; other identifier = base
		id, ok := sel.X.(*ast.Ident)
		if !ok {
			return false
		}
		obj := p.TypesInfo.Uses[id]
		if v, ok := obj.(*types.Var); ok && isParamOrRecv(p, v) {
			if t.target != "" {
				return false
			}
			t.target = name
		} else {
			t.bases = append(t.bases, name)
		}
		return true
	}
	return false
}

func isParamOrRecv(p *packages.Package, v *types.Var) bool {
	// parameters and receivers are declared in a function scope whose parent is the file/package scope
	sc := v.Parent()
	if sc == nil {
		return false
	}
	for _, f := range p.Syntax {
		found := false
		ast.Inspect(f, func(n ast.Node) bool {
			fd, ok := n.(*ast.FuncDecl)
			if !ok {
				return true
			}
			check := func(fl *ast.FieldList) {
				if fl == nil {
					return
				}
				for _, fld := range fl.List {
					for _, nm := range fld.Names {
						if p.TypesInfo.Defs[nm] == v {
							found = true
						}
					}
				}
			}
			check(fd.Recv)
			check(fd.Type.Params)
			return false
		})
		if found {
			return true
		}
	}
	return false
}

// evalIntExpr evaluates an integer AST expression built from constants, fields of
// constant struct variables, lookups in constant map tables and + - * / %.
func (c *Ctx) evalIntExpr(p *packages.Package, e ast.Expr) (int64, bool) {
	e = ast.Unparen(e)
	if tv, ok := p.TypesInfo.Types[e]; ok && tv.Value != nil {
		return constant.Int64Val(constant.ToInt(tv.Value))
	}
	switch x := e.(type) {
	case *ast.BinaryExpr:
		a, ok1 := c.evalIntExpr(p, x.X)
		b, ok2 := c.evalIntExpr(p, x.Y)
		if !ok1 || !ok2 {
			return 0, false
		}
		switch x.Op {
		case token.ADD:
			return a + b, true
		case token.SUB:
			return a - b, true
		case token.MUL:
			return a * b, true
		case token.QUO:
			if b == 0 {
				return 0, false
			}
			return a / b, true
		case token.REM:
			if b == 0 {
				return 0, false
			}
			return a % b, true
		}
	case *ast.CallExpr: // conversion
		if tv, ok := p.TypesInfo.Types[x.Fun]; ok && tv.IsType() && len(x.Args) == 1 {
			return c.evalIntExpr(p, x.Args[0])
		}
	case *ast.IndexExpr:
		tab, err := c.eval(p, x.X)
		if err != nil {
			return 0, false
		}
		key, err := c.eval(p, x.Index)
		if err != nil {
			return 0, false
		}
		if m, ok := tab.(*MapV); ok {
			for _, en := range m.Entries {
				if en.K.vstr() == key.vstr() {
					return asInt(en.V)
				}
			}
		}
	case *ast.SelectorExpr, *ast.Ident:
		v, err := c.eval(p, e)
		if err == nil {
			return asInt(v)
		}
		// local variable with a single evaluable definition
		if id, ok := e.(*ast.Ident); ok {
			if def := c.localDef(p, id); def != nil {
				return c.evalIntExpr(p, def)
			}
		}
	}
	return 0, false
}

// localDef finds the unique defining expression of a local variable (":=" or "var x = e" with one name), nil otherwise.
func (c *Ctx) localDef(p *packages.Package, id *ast.Ident) ast.Expr {
	obj := p.TypesInfo.Uses[id]
	if obj == nil {
		return nil
	}
	var def ast.Expr
	count := 0
	for _, f := range p.Syntax {
		if f.Pos() > obj.Pos() || obj.Pos() > f.End() {
			continue
		}
		ast.Inspect(f, func(n ast.Node) bool {
			switch s := n.(type) {
			case *ast.AssignStmt:
				for i, l := range s.Lhs {
					if li, ok := l.(*ast.Ident); ok && (p.TypesInfo.Defs[li] == obj || p.TypesInfo.Uses[li] == obj) {
						count++
						if len(s.Lhs) == len(s.Rhs) && s.Tok == token.DEFINE {
							def = s.Rhs[i]
						} else {
							def = nil
							count += 10
						}
					}
				}
			case *ast.ValueSpec:
				for i, nm := range s.Names {
					if p.TypesInfo.Defs[nm] == obj {
						count++
						if len(s.Values) == len(s.Names) {
							def = s.Values[i]
						}
					}
				}
			case *ast.IncDecStmt:
				if li, ok := s.X.(*ast.Ident); ok && p.TypesInfo.Uses[li] == obj {
					count += 10
				}
			}
			return true
		})
	}
	if count == 1 {
		return def
	}
	return nil
}

func ruleTabDegree(c *Ctx) {
	rows, v := c.degreeRows()
	if rows == nil {
		return
	}
	tab := "note." + v.Name()
	type cls struct {
		value int64
		class string
	}
	classCount := map[cls][]string{}
	table := map[string]int64{} // "value/name" -> semitone
	for _, r := range rows {
		c.site(1)
		q, known := degreeNameQuality[r.name]
		key := fmt.Sprintf("%s|%s%d", tab, strings.TrimSuffix(r.name, "Degree"), r.value)
		if !known {
			c.bad(key, c.pos(r.pos), "", "row with unknown quality "+r.name)
			continue
		}
		want, valid := specSize(int(r.value), q)
		c.check(valid && int64(want) == r.semi, key, c.pos(r.pos), "",
			fmt.Sprintf("%s %d = %d semitones", qualityNames[q], r.value, r.semi),
			fmt.Sprintf("%s %d is %d semitones in the table, theory says %d (valid=%v)", qualityNames[q], r.value, r.semi, want, valid))
		table[fmt.Sprintf("%d/%s", r.value, r.name)] = r.semi
		switch q {
		case QMajor, QPerfect:
			classCount[cls{r.value, "MajorOrPerfect"}] = append(classCount[cls{r.value, "MajorOrPerfect"}], r.name)
		case QMinor:
			classCount[cls{r.value, "Minor"}] = append(classCount[cls{r.value, "Minor"}], r.name)
		}
	}
	// one key per (Value, class): the search over the map is order independent
	uniq := true
	for k, names := range classCount {
		if len(names) > 1 {
			uniq = false
			c.bad(fmt.Sprintf("%s|unique|%d/%s", tab, k.value, k.class), c.pos(v.Pos()), "", fmt.Sprintf("number %d has %d rows of class %s (%v): the adjustment search ranges over a Go map and would pick either", k.value, len(names), k.class, names))
		}
	}
	if uniq {
		c.ok(tab+"|unique", c.pos(v.Pos()), "", "at most one Major/Perfect and one Minor row per number: the map-range search is order independent")
	}
	// coverage: every simple number 1..7 has its reference rows
	for n := int64(1); n <= 7; n++ {
		perfect := n == 1 || n == 4 || n == 5
		need := []string{"MajorDegree", "MinorDegree"}
		if perfect {
			need = []string{"PerfectDegree"}
		}
		for _, nm := range need {
			if _, ok := table[fmt.Sprintf("%d/%s", n, nm)]; !ok {
				c.bad(fmt.Sprintf("%s|present|%s%d", tab, strings.TrimSuffix(nm, "Degree"), n), c.pos(v.Pos()), "", fmt.Sprintf("no row for %s %d: every altered interval on %d becomes invalid", nm, n, n))
			}
		}
	}

	// when the size function folds for every (number, quality) the algorithm needs no shape analysis: decide it by value
	if done := c.degreeSizesByFolding(); done {
		c.checkCoerceTables()
		return
	}
	// adjustment tuples from the code that searches the table
	var tuples []adjustTuple
	var host *ast.FuncDecl
	var hostPkg *packages.Package
	for _, name := range []string{"Degree.simpleSemitone", "Degree.simple", "Degree.Semitone"} {
		fd, p := c.astFunc("note", name)
		if fd == nil {
			continue
		}
		ts, problems := c.extractAdjustTuples(fd, p)
		if len(ts) > 0 || len(problems) > 0 {
			tuples, host, hostPkg = ts, fd, p
			for _, pr := range problems {
				c.undec("note."+name+"|adjust|shape", c.pos(fd.Pos()), "note."+name, pr)
			}
			break
		}
	}
	if host == nil {
		// any function in package note that ranges over the table
		c.undec("note.Degree.Semitone|adjust", "", "", "no quality-adjustment switch found in note.Degree.Semitone or its helpers")
		return
	}
	wantTuples := map[string]struct {
		bases []string
		delta int64
	}{
		"AugmentedDegree":        {[]string{"MajorDegree", "PerfectDegree"}, 1},
		"DiminishedDegree":       {[]string{"MinorDegree", "PerfectDegree"}, -1},
		"DoublyAugmentedDegree":  {[]string{"MajorDegree", "PerfectDegree"}, 2},
		"DoublyDiminishedDegree": {[]string{"MinorDegree", "PerfectDegree"}, -2},
	}
	gotT := map[string]adjustTuple{}
	for _, t := range tuples {
		c.site(1)
		key := "note.Degree|adjust|" + t.target
		w, ok := wantTuples[t.target]
		if !ok {
			c.bad(key, c.pos(t.pos), "note.Degree."+host.Name.Name, "adjustment for unexpected quality "+t.target)
			continue
		}
		bs := append([]string{}, t.bases...)
		sort.Strings(bs)
		ws := append([]string{}, w.bases...)
		sort.Strings(ws)
		good := strings.Join(bs, ",") == strings.Join(ws, ",") && t.delta == w.delta
		c.check(good, key, c.pos(t.pos), "note.Degree."+host.Name.Name,
			fmt.Sprintf("%s = %v %+d", t.target, t.bases, t.delta),
			fmt.Sprintf("%s is computed as %v %+d, theory says %v %+d", t.target, t.bases, t.delta, w.bases, w.delta))
		gotT[t.target] = t
	}
	for _, k := range sortedKeys(wantTuples) {
		if _, ok := gotT[k]; !ok {
			c.bad("note.Degree|adjust|"+k, c.pos(host.Pos()), "note.Degree."+host.Name.Name, "no adjustment case for "+k+": such intervals are rejected")
		}
	}

	// compound intervals: closed form checked on SSA (older recursive shape: constants extracted from the AST)
	closed := c.checkCompound()
	// octave constants: divisors / step / octave size in Degree.Semitone
	span, octSize, octOK := c.extractOctaveConsts(hostPkg)
	_ = closed
	if octOK {
		c.site(2)
		c.check(span == 7, "note.Degree.Semitone|octave|span", "", "note.Degree.Semitone", "an octave spans 7 interval numbers", fmt.Sprintf("compound intervals are reduced by %d numbers per octave, want 7", span))
		c.check(octSize == 12, "note.Degree.Semitone|octave|size", "", "note.Degree.Semitone", "an octave adds 12 semitones", fmt.Sprintf("an octave adds %d semitones, want 12", octSize))
	}

	// model check of the extracted tables against the specification, n = 1..64 x 7 qualities
	if octOK && len(gotT) == 4 {
		model := func(n int64, name string) (int64, bool) {
			if n == 0 {
				return 0, false
			}
			oct := int64(0)
			if n > 8 {
				oct = (n - 1) / span
				n = (n-1)%span + 1
			}
			lookup := func(n int64) (int64, bool) {
				if s, ok := table[fmt.Sprintf("%d/%s", n, name)]; ok {
					return s, true
				}
				if t, ok := gotT[name]; ok {
					for _, b := range t.bases {
						if s, ok := table[fmt.Sprintf("%d/%s", n, b)]; ok {
							return s + t.delta, true
						}
					}
				}
				return 0, false
			}
			s, ok := lookup(n)
			return s + oct*octSize, ok
		}
		bad := 0
		total := 0
		for n := 1; n <= 64; n++ {
			for name, q := range degreeNameQuality {
				total++
				got, gok := model(int64(n), name)
				want, wok := specSize(n, q)
				if gok != wok || (gok && got != int64(want)) {
					bad++
					if bad <= 5 {
						c.bad(fmt.Sprintf("note.Degree.Semitone|model|%s%d", strings.TrimSuffix(name, "Degree"), n), c.pos(host.Pos()), "note.Degree.Semitone",
							fmt.Sprintf("tables+algorithm give (%d,%v) for %s %d, theory gives (%d,%v)", got, gok, name, n, want, wok))
					}
				}
			}
		}
		c.site(1)
		if bad == 0 {
			c.ok("note.Degree.Semitone|model", c.pos(host.Pos()), "note.Degree.Semitone", fmt.Sprintf("%d (number, quality) pairs: extracted tables + documented algorithm agree with the specification on size and validity", total))
		}
	}

	c.checkCoerceTables()
}

// checkCoerceTables: the quality -> notation-class table and the candidates each class tries.
func (c *Ctx) checkCoerceTables() {
	// coercion table: DegreeName -> CoerceDegreeName
	if m, v2, _ := c.mapTable("note", "map[note.DegreeName]note.CoerceDegreeName", "degreeCoerceMap"); m != nil {
		want := map[string]string{
			"MajorDegree": "MajorOrPerfectCoerceDegree", "PerfectDegree": "MajorOrPerfectCoerceDegree",
			"MinorDegree": "MinorOrDiminishedCoerceDegree", "DiminishedDegree": "DiminishedCoerceDegree",
			"AugmentedDegree": "AugmentedCoerceDegree", "DoublyAugmentedDegree": "DoublyAugmentedCoerceDegree",
			"DoublyDiminishedDegree": "DoublyDiminishedCoerceDegree",
		}
		got := map[string]bool{}
		for _, e := range m.Entries {
			c.site(1)
			k := e.K.vstr()
			got[k] = true
			c.check(want[k] == e.V.vstr(), "note."+v2.Name()+"|"+k, c.pos(e.Pos), "", k+" -> "+e.V.vstr(), fmt.Sprintf("%s coerces to %s, want %s (the printed mark would denote another quality)", k, e.V.vstr(), want[k]))
		}
		for _, k := range sortedKeys(want) {
			if !got[k] {
				c.bad("note."+v2.Name()+"|"+k, c.pos(v2.Pos()), "", k+" has no coercion: Degree.String panics for it")
			}
		}
	}
	// CoerceDegreeName.Degree: for each coerce constant, the ordered list of NewDegree qualities tried
	c.checkCoerceDegree()
}

// extractOctaveConsts finds, in note.Degree.Semitone, the divisor of the octave reduction and the size added per octave.
func (c *Ctx) extractOctaveConsts(p *packages.Package) (span, size int64, ok bool) {
	fd, p := c.astFunc("note", "Degree.Semitone")
	if fd == nil {
		c.missing("note.Degree.Semitone")
		return 0, 0, false
	}
	var divisors []int64
	var sizes []int64
	var recursiveStep []int64
	undecided := ""
	ast.Inspect(fd.Body, func(n ast.Node) bool {
		switch x := n.(type) {
		case *ast.BinaryExpr:
			if x.Op == token.QUO || x.Op == token.REM {
				if d, ok := c.evalIntExpr(p, x.Y); ok {
					divisors = append(divisors, d)
				} else {
					undecided = "divisor " + types.ExprString(x.Y) + " does not evaluate"
				}
			}
			if x.Op == token.MUL {
				// octaves * size
				if d, ok := c.evalIntExpr(p, x.Y); ok {
					sizes = append(sizes, d)
				} else if d, ok := c.evalIntExpr(p, x.X); ok {
					sizes = append(sizes, d)
				}
			}
			if x.Op == token.ADD {
				// v + degreeSemitoneMap[perfect8]  (recursive form)
				if ix, ok := ast.Unparen(x.Y).(*ast.IndexExpr); ok {
					if d, ok := c.evalIntExpr(p, ix); ok {
						sizes = append(sizes, d)
					}
				}
			}
		case *ast.KeyValueExpr:
			// recursive form: Value: d.Value - perfect8.Value + 1
			if id, ok := x.Key.(*ast.Ident); ok && id.Name == "Value" {
				if be, ok := ast.Unparen(x.Value).(*ast.BinaryExpr); ok {
					// evaluate with d.Value := 0 by computing the constant part: (d.Value - A + B) => step = A - B
					if st, ok := c.linearStep(p, be); ok {
						recursiveStep = append(recursiveStep, st)
					}
				}
			}
		}
		return true
	})
	if undecided != "" {
		c.undec("note.Degree.Semitone|octave", c.pos(fd.Pos()), "note.Degree.Semitone", undecided)
		return 0, 0, false
	}
	switch {
	case len(divisors) > 0:
		span = divisors[0]
		for _, d := range divisors {
			if d != span {
				c.bad("note.Degree.Semitone|octave|span", c.pos(fd.Pos()), "note.Degree.Semitone", fmt.Sprintf("octave reduction divides by %d and by %d", span, d))
				return 0, 0, false
			}
		}
	case len(recursiveStep) == 1:
		span = recursiveStep[0]
	default:
		c.undec("note.Degree.Semitone|octave", c.pos(fd.Pos()), "note.Degree.Semitone", "no octave reduction (division by 7 or step of 7) found for compound intervals")
		return 0, 0, false
	}
	if len(sizes) == 0 {
		c.undec("note.Degree.Semitone|octave", c.pos(fd.Pos()), "note.Degree.Semitone", "no octave size (12 semitones) found for compound intervals")
		return 0, 0, false
	}
	size = sizes[0]
	for _, s := range sizes {
		if s != size {
			c.undec("note.Degree.Semitone|octave", c.pos(fd.Pos()), "note.Degree.Semitone", fmt.Sprintf("several candidate octave sizes %v", sizes))
			return 0, 0, false
		}
	}
	return span, size, true
}

// linearStep: for an expression x - A + B over one non-constant x, returns A - B.
func (c *Ctx) linearStep(p *packages.Package, e ast.Expr) (int64, bool) {
	// collect constant terms with sign
	var total int64
	nonconst := 0
	var walk func(e ast.Expr, sign int64) bool
	walk = func(e ast.Expr, sign int64) bool {
		e = ast.Unparen(e)
		if v, ok := c.evalIntExpr(p, e); ok {
			total += sign * v
			return true
		}
		if be, ok := e.(*ast.BinaryExpr); ok && (be.Op == token.ADD || be.Op == token.SUB) {
			s2 := sign
			if be.Op == token.SUB {
				s2 = -sign
			}
			return walk(be.X, sign) && walk(be.Y, s2)
		}
		nonconst++
		return sign == 1
	}
	if !walk(e, 1) || nonconst != 1 {
		return 0, false
	}
	return -total, true
}

// checkCoerceDegree: CoerceDegreeName.Degree tries the right qualities in the right order.
func (c *Ctx) checkCoerceDegree() {
	fn := c.fn("note", "CoerceDegreeName.Degree")
	if fn == nil {
		c.missing("note.CoerceDegreeName.Degree")
		return
	}
	enum := c.enumConsts("note", "CoerceDegreeName")
	dn := c.enumConsts("note", "DegreeName")
	dnName := map[int64]string{}
	for k, v := range dn {
		dnName[v] = k
	}
	want := map[string][]string{
		"MajorOrPerfectCoerceDegree":    {"MajorDegree", "PerfectDegree"},
		"MinorOrDiminishedCoerceDegree": {"MinorDegree", "DiminishedDegree"},
		"AugmentedCoerceDegree":         {"AugmentedDegree"},
		"DiminishedCoerceDegree":        {"DiminishedDegree"},
		"DoublyAugmentedCoerceDegree":   {"DoublyAugmentedDegree"},
		"DoublyDiminishedCoerceDegree":  {"DoublyDiminishedDegree"},
	}
	// Per coerce constant: walk the CFG with the receiver bound, collecting NewDegree calls' constant quality argument along all paths.
	for _, name := range sortedKeys(want) {
		c.site(1)
		key := "note.CoerceDegreeName.Degree|" + name
		got, err := c.callsAlongFold(fn, enum[name], "note.NewDegree", 1)
		if err != nil {
			c.undec(key, c.pos(fn.Pos()), fname(fn), err.Error())
			continue
		}
		var names []string
		for _, g := range got {
			names = append(names, dnName[g])
		}
		// majors/minors are mutually exclusive per number, so only the set matters, but the first must be the primary quality
		c.check(strings.Join(names, ",") == strings.Join(want[name], ","), key, c.pos(fn.Pos()), fname(fn),
			fmt.Sprintf("%s tries %v", name, names), fmt.Sprintf("%s tries qualities %v, want %v", name, names, want[name]))
	}
}

// callsAlongFold binds the first parameter of fn to the constant recv and explores the function path by path with the
// constant folder: branches whose condition folds are followed, the others fork. It returns the constant value of
// argument argIdx of every call to callee along the longest path, in execution order; every other path must be a
// prefix of it (the function tries the same candidates in the same order and merely stops earlier on success).
// Tables and loops over immutable package-level literals are folded, so a switch and a table-driven loop look alike.
func (c *Ctx) callsAlongFold(fn *ssa.Function, recv int64, callee string, argIdx int) ([]int64, error) {
	f := c.newFolder()
	f.depth = 1
	type state struct {
		b, prev *ssa.BasicBlock
		env     map[ssa.Value]fval
		mem     map[*ssa.Alloc]fval
		calls   []int64
	}
	var results [][]int64
	steps := 0
	var run func(st state) error
	run = func(st state) error {
		for {
			steps++
			if steps > 4000 {
				return fmt.Errorf("path exploration of %s exceeds its budget", fname(fn))
			}
			phiVals := map[ssa.Value]fval{}
			for _, in := range st.b.Instrs {
				p, ok := in.(*ssa.Phi)
				if !ok {
					break
				}
				phiVals[p] = top
				for i, pb := range st.b.Preds {
					if pb == st.prev {
						phiVals[p] = f.val(st.env, p.Edges[i])
					}
				}
			}
			for k, v := range phiVals {
				st.env[k] = v
			}
			var next *ssa.BasicBlock
			for _, in := range st.b.Instrs {
				switch x := in.(type) {
				case *ssa.Phi:
					continue
				case *ssa.If:
					cv := f.val(st.env, x.Cond)
					if cv.k != nil && cv.k.Kind() == constant.Bool {
						if constant.BoolVal(cv.k) {
							next = st.b.Succs[0]
						} else {
							next = st.b.Succs[1]
						}
						break
					}
					for _, s := range st.b.Succs {
						env2 := make(map[ssa.Value]fval, len(st.env))
						for k, v := range st.env {
							env2[k] = v
						}
						mem2 := make(map[*ssa.Alloc]fval, len(st.mem))
						for k, v := range st.mem {
							mem2[k] = v
						}
						if err := run(state{s, st.b, env2, mem2, append([]int64{}, st.calls...)}); err != nil {
							return err
						}
					}
					return nil
				case *ssa.Jump:
					next = st.b.Succs[0]
				case *ssa.Return:
					results = append(results, st.calls)
					return nil
				case *ssa.Panic:
					return nil
				case *ssa.Call:
					if calleeName(&x.Call) == callee {
						av := f.val(st.env, x.Call.Args[argIdx])
						if av.k == nil || av.k.Kind() != constant.Int {
							return fmt.Errorf("argument %d of %s is not constant", argIdx, callee)
						}
						n, _ := constant.Int64Val(av.k)
						st.calls = append(st.calls, n)
						st.env[x] = top
						continue
					}
					f.evalInstr(st.env, st.mem, in)
				default:
					f.evalInstr(st.env, st.mem, in)
				}
			}
			if next == nil {
				return fmt.Errorf("fell off block %d of %s", st.b.Index, fname(fn))
			}
			st.prev, st.b = st.b, next
		}
	}
	env := map[ssa.Value]fval{fn.Params[0]: {k: constant.MakeInt64(recv), t: fn.Params[0].Type()}}
	if err := run(state{fn.Blocks[0], nil, env, map[*ssa.Alloc]fval{}, nil}); err != nil {
		return nil, err
	}
	var longest []int64
	for _, r := range results {
		if len(r) > len(longest) {
			longest = r
		}
	}
	for _, r := range results {
		for i := range r {
			if r[i] != longest[i] {
				return nil, fmt.Errorf("paths of %s try different candidates (%v vs %v)", fname(fn), r, longest)
			}
		}
	}
	return longest, nil
}

// ---------------------------------------------------------------------------

func ruleTabNotation(c *Ctx) {
	want := map[string]string{
		"":    "MajorOrPerfectCoerceDegree",
		"b":   "MinorOrDiminishedCoerceDegree",
		"#":   "AugmentedCoerceDegree",
		"bb":  "DiminishedCoerceDegree",
		"##":  "DoublyAugmentedCoerceDegree",
		"bbb": "DoublyDiminishedCoerceDegree",
	}
	m, v, pos := c.mapTable("note", "map[string]note.CoerceDegreeName", "stringCoerceDegreeNameMap")
	if m == nil {
		return
	}
	tab := "note." + v.Name()
	got := map[string]string{}
	for _, e := range m.Entries {
		c.site(1)
		s, _ := asStr(e.K)
		got[s] = e.V.vstr()
		w, ok := want[s]
		c.check(ok && w == e.V.vstr(), fmt.Sprintf("%s|%q", tab, s), c.pos(e.Pos), "", fmt.Sprintf("%q -> %s", s, e.V.vstr()), fmt.Sprintf("mark %q denotes %s, want %s", s, e.V.vstr(), w))
	}
	for _, k := range sortedKeys(want) {
		if _, ok := got[k]; !ok {
			c.bad(fmt.Sprintf("%s|%q", tab, k), c.pos(v.Pos()), "", fmt.Sprintf("mark %q missing: %s cannot be written or read", k, want[k]))
		}
	}
	c.checkInjective(tab, m, pos)

	// ParseDegree candidate list
	fd, p := c.astFunc("note", "ParseDegree")
	if fd == nil {
		c.missing("note.ParseDegree")
		return
	}
	var cands []struct {
		symbol, name string
		pos          token.Pos
	}
	found := false
	ast.Inspect(fd.Body, func(n ast.Node) bool {
		rs, ok := n.(*ast.RangeStmt)
		if !ok || found {
			return true
		}
		cl, ok := ast.Unparen(rs.X).(*ast.CompositeLit)
		if !ok {
			return true
		}
		val, err := c.eval(p, cl)
		if err != nil {
			return true
		}
		lv, ok := val.(*ListV)
		if !ok {
			return true
		}
		for i, el := range lv.Elems {
			sv, ok := el.(*StructV)
			if !ok {
				return true
			}
			sym := ""
			if s, ok := sv.Fields["symbol"]; ok {
				sym, _ = asStr(s)
			}
			nm := ""
			if s, ok := sv.Fields["name"]; ok {
				nm = s.vstr()
			}
			cands = append(cands, struct {
				symbol, name string
				pos          token.Pos
			}{sym, nm, lv.Poss[i]})
		}
		found = true
		return false
	})
	if !found {
		c.undec("note.ParseDegree|candidates", c.pos(fd.Pos()), "note.ParseDegree", "candidate list (range over a literal of {symbol,name}) not found")
		return
	}
	seenSym := map[string]bool{}
	for i, cd := range cands {
		c.site(1)
		key := fmt.Sprintf("note.ParseDegree|candidate|%q", cd.symbol)
		good := got[cd.symbol] == cd.name && want[cd.symbol] == cd.name
		msg := fmt.Sprintf("candidate %q reads as %s, the printer table says %s", cd.symbol, cd.name, got[cd.symbol])
		// longest first: no earlier candidate may be a proper substring of a later one
		for j := 0; j < i; j++ {
			if cands[j].symbol != cd.symbol && strings.Contains(cd.symbol, cands[j].symbol) {
				good = false
				msg = fmt.Sprintf("candidate %q is tried before %q, which contains it: %q%d would be read with the shorter mark", cands[j].symbol, cd.symbol, cd.symbol, 3)
			}
		}
		if seenSym[cd.symbol] {
			good = false
			msg = fmt.Sprintf("candidate %q listed twice", cd.symbol)
		}
		seenSym[cd.symbol] = true
		c.check(good, key, c.pos(cd.pos), "note.ParseDegree", fmt.Sprintf("%q -> %s, after every longer mark", cd.symbol, cd.name), msg)
	}
	for _, k := range sortedKeys(want) {
		if !seenSym[k] {
			c.bad(fmt.Sprintf("note.ParseDegree|candidate|%q", k), c.pos(fd.Pos()), "note.ParseDegree", fmt.Sprintf("mark %q is printed by Degree.String but never tried by ParseDegree", k))
		}
	}
}

// ---------------------------------------------------------------------------

// keySignatureTable: the table key spelling -> signed number of accidentals. The variable of that type when there is one;
// otherwise the same table read off the folded op.keySignatures (the keys rendered letter + accidental + m, the number the
// size of the row's set, negative for flat rows), whatever the seeds it is built from look like.
func (c *Ctx) keySignatureTable() (*MapV, string, token.Pos) {
	if v := c.tableVar("op", "map[string]int", "keyStringSignatures"); v != nil {
		m, v2, _ := c.mapTable("op", "map[string]int", "keyStringSignatures")
		if v2 != nil {
			return m, v2.Name(), v2.Pos()
		}
		return m, "keyStringSignatures", v.Pos()
	}
	sp := c.ssapkg("op")
	if sp == nil || sp.Var("keySignatures") == nil {
		c.missing("op.keyStringSignatures (map[string]int)")
		return nil, "keyStringSignatures", 0
	}
	g := sp.Var("keySignatures")
	mv, ok := c.globalTable(g).cv.(*MapV)
	if !ok {
		c.missing("op.keyStringSignatures (map[string]int)")
		return nil, "keyStringSignatures", 0
	}
	out := &MapV{}
	for _, e := range mv.Entries {
		ks, isK := e.K.(*StructV)
		row, isR := e.V.(*StructV)
		if !isK || !isR {
			c.undec("op.keySignatures", c.pos(g.Pos()), "", "a row of the folded signature table is not a key / row pair")
			return nil, "keyStringSignatures", g.Pos()
		}
		spell := ks.Fields["Name"].vstr()
		switch ks.Fields["Accidental"].vstr() {
		case "Sharp":
			spell += "#"
		case "Flat":
			spell += "b"
		}
		if mn, ok := ks.Fields["Minor"].(*CVal); ok && mn.V.Kind() == constant.Bool && constant.BoolVal(mn.V) {
			spell += "m"
		}
		n := int64(0)
		if set, ok := row.Fields["names"].(*MapV); ok {
			n = int64(len(set.Entries))
		}
		if sh, ok := row.Fields["isSharp"].(*CVal); !ok || sh.V.Kind() != constant.Bool || !constant.BoolVal(sh.V) {
			n = -n
		}
		out.Entries = append(out.Entries, KV{K: &CVal{V: constant.MakeString(spell), T: types.Typ[types.String], c: c}, V: &CVal{V: constant.MakeInt64(n), T: types.Typ[types.Int], c: c}, Pos: g.Pos()})
	}
	return out, "keyStringSignatures", g.Pos()
}

func ruleTabKeysig(c *Ctx) {
	m, vname, vpos := c.keySignatureTable()
	if m == nil {
		return
	}
	tab := "op." + vname
	have := map[string]int64{}
	for _, e := range m.Entries {
		ks, _ := asStr(e.K)
		n, _ := asInt(e.V)
		c.site(1)
		key := tab + "|" + ks
		if _, dup := have[ks]; dup {
			c.bad(key, c.pos(e.Pos), "", "duplicate row")
			continue
		}
		have[ks] = n
		k, ok := parseSpecKey(ks)
		if !ok {
			c.bad(key, c.pos(e.Pos), "", fmt.Sprintf("row key %q is not a canonical key spelling [A-G][#b]?m? (ParseKey would read it as another key and the init-time copy would collide)", ks))
			continue
		}
		sc, err := specScale(k)
		if err != nil {
			c.bad(key, c.pos(e.Pos), "", fmt.Sprintf("key %s has no conventional signature (%v) but the table lists %d", ks, err, n))
			continue
		}
		if !c.check(int64(sc.Sig) == n, key, c.pos(e.Pos), "",
			fmt.Sprintf("%s: %+d (derived scale %v)", ks, n, scaleString(sc)),
			fmt.Sprintf("%s has signature %+d in the table; walking the step pattern from %s gives %+d (%s)", ks, n, ks, sc.Sig, scaleString(sc))) {
			continue
		}
	}
	for _, rk := range requiredKeys() {
		if _, ok := have[rk]; !ok {
			c.bad(tab+"|"+rk, c.pos(vpos), "", "required key "+rk+" has no row: crd has no scale for it")
		}
	}

	// order of flats
	var flats []string
	fv := c.tableVar("op", "[]note.Name", "flatSequence")
	if fv == nil {
		c.missing("op.flatSequence")
	} else if val, pos, err := c.evalVar(fv); err != nil {
		c.undec("op."+fv.Name(), c.pos(fv.Pos()), "", err.Error())
	} else if lv, ok := val.(*ListV); ok {
		for _, e := range lv.Elems {
			flats = append(flats, e.vstr())
		}
		c.site(1)
		c.check(strings.Join(flats, "") == strings.Join(orderOfFlats(), ""), "op."+fv.Name(), c.pos(pos), "",
			"order of flats "+strings.Join(flats, " "), fmt.Sprintf("order of flats is %v, stacking fifths gives %v", flats, orderOfFlats()))
	}

	if problem, _, ok := c.scalesVerdict(); ok && problem == "" {
		// op.NewScale is decided on every key spelling by folding (SCALEWIRE `op.NewScale|domain`): how the signature
		// is turned into altered letters inside is decided with it
		c.site(1)
		c.ok("op.NewScale|folded", "", "op.NewScale", "the constructor is decided on all 42 key spellings by folding: the slicing of the order of flats and the letter table are not read separately")
	} else {
		// slicing bounds of newScaleAccidentals: flats take the first n, sharps the last n
		c.checkScaleAccidentalSlices()
		// and, for every signature size -7..7, the letters it hands to the set constructor (decided by folding)
		c.checkScaleAccidentalSets()

		// tonic -> index table in newRawScaleNotes, by folding the switch for every letter
		c.checkRawScaleIndex()
	}

	// model: for each row, the altered letters obtained by slicing the extracted sequence equal the derived scale's
	if len(flats) == 7 {
		for _, ks := range sortedKeys(have) {
			n := have[ks]
			k, ok := parseSpecKey(ks)
			if !ok {
				continue
			}
			sc, err := specScale(k)
			if err != nil || int64(sc.Sig) != n {
				continue
			}
			var alt []string
			if n < 0 && -n <= 7 {
				alt = append(alt, flats[:-n]...)
			} else if n > 0 && n <= 7 {
				alt = append(alt, flats[7-n:]...)
			}
			sort.Strings(alt)
			c.check(strings.Join(alt, "") == strings.Join(sc.altered(), ""), tab+"|altered|"+ks, c.pos(vpos), "",
				fmt.Sprintf("%s alters %v", ks, alt), fmt.Sprintf("%s: slicing the sequence alters %v, the derived scale alters %v", ks, alt, sc.altered()))
			// C03 precondition: tonic's own accidental under the row equals the key's accidental
			tonicAlt := 0
			for _, l := range alt {
				if l == k.Letter {
					if n > 0 {
						tonicAlt = 1
					} else {
						tonicAlt = -1
					}
				}
			}
			c.check(tonicAlt == k.Acc, tab+"|tonic|"+ks, c.pos(vpos), "", "tonic carries the key's accidental", fmt.Sprintf("%s: the scale built from the row starts on %s with accidental %+d, the key says %+d: every conversion in this key is a semitone off", ks, k.Letter, tonicAlt, k.Acc))
		}
	}
}

func scaleString(s *SpecScale) string {
	var ss []string
	for i := range s.Notes {
		a := ""
		if s.Accs[i] == 1 {
			a = "#"
		} else if s.Accs[i] == -1 {
			a = "b"
		}
		ss = append(ss, s.Notes[i]+a)
	}
	return strings.Join(ss, " ")
}

func (c *Ctx) checkScaleAccidentalSlices() {
	fd, p := c.astFunc("op", "newScaleAccidentals")
	if fd == nil {
		c.missing("op.newScaleAccidentals")
		return
	}
	// Each switch case on the sign of n builds a literal: record (condition op, slice shape, isSharp)
	type branch struct {
		cond    string // "<0", ">0", "default"
		slice   string // "prefix(-n)", "suffix(n)", "none", "?"
		isSharp bool
		pos     token.Pos
	}
	var brs []branch
	ast.Inspect(fd.Body, func(n ast.Node) bool {
		cc, ok := n.(*ast.CaseClause)
		if !ok {
			return true
		}
		b := branch{pos: cc.Pos(), slice: "none"}
		if cc.List == nil {
			b.cond = "default"
		} else if be, ok := ast.Unparen(cc.List[0]).(*ast.BinaryExpr); ok {
			if z, ok := c.evalIntExpr(p, be.Y); ok && z == 0 {
				b.cond = be.Op.String() + "0"
			}
		}
		ast.Inspect(cc, func(n ast.Node) bool {
			switch x := n.(type) {
			case *ast.KeyValueExpr:
				// the bool field of the literal (isSharp, whatever it is called)
				isBoolField := false
				if id, ok := x.Key.(*ast.Ident); ok {
					if fv, ok := p.TypesInfo.Uses[id].(*types.Var); ok && fv.IsField() {
						if bt, ok := fv.Type().Underlying().(*types.Basic); ok && bt.Kind() == types.Bool {
							isBoolField = true
						}
					}
				}
				if isBoolField {
					if tv := p.TypesInfo.Types[x.Value]; tv.Value != nil && tv.Value.Kind() == constant.Bool {
						b.isSharp = constant.BoolVal(tv.Value)
					}
				}
			case *ast.SliceExpr:
				b.slice = "?"
				lo, hi := x.Low, x.High
				switch {
				case lo == nil && hi != nil:
					if u, ok := ast.Unparen(hi).(*ast.UnaryExpr); ok && u.Op == token.SUB {
						if _, isId := ast.Unparen(u.X).(*ast.Ident); isId {
							b.slice = "prefix(-n)"
						}
					} else if _, isId := ast.Unparen(hi).(*ast.Ident); isId {
						b.slice = "prefix(n)"
					}
				case lo != nil && hi == nil:
					if be, ok := ast.Unparen(lo).(*ast.BinaryExpr); ok && be.Op == token.SUB {
						if call, ok := ast.Unparen(be.X).(*ast.CallExpr); ok {
							if f, ok := call.Fun.(*ast.Ident); ok && f.Name == "len" {
								if _, isId := ast.Unparen(be.Y).(*ast.Ident); isId {
									b.slice = "suffix(n)"
								}
							}
						}
					}
				}
			}
			return true
		})
		brs = append(brs, b)
		return false
	})
	if len(brs) == 0 {
		c.undec("op.newScaleAccidentals|shape", c.pos(fd.Pos()), "op.newScaleAccidentals", "no switch on the sign of n found")
		return
	}
	for _, b := range brs {
		c.site(1)
		key := "op.newScaleAccidentals|" + b.cond
		switch b.cond {
		case "<0":
			c.check(b.slice == "prefix(-n)" && !b.isSharp, key, c.pos(b.pos), "op.newScaleAccidentals", "flats: first -n of the order of flats, isSharp=false", fmt.Sprintf("flat branch uses slice %s, isSharp=%v; want the first -n letters and isSharp=false", b.slice, b.isSharp))
		case ">0":
			c.check(b.slice == "suffix(n)" && b.isSharp, key, c.pos(b.pos), "op.newScaleAccidentals", "sharps: last n of the order of flats, isSharp=true", fmt.Sprintf("sharp branch uses slice %s, isSharp=%v; want the last n letters and isSharp=true", b.slice, b.isSharp))
		case "default":
			c.check(b.slice == "none" && !b.isSharp, key, c.pos(b.pos), "op.newScaleAccidentals", "no signature: empty set", fmt.Sprintf("zero branch uses slice %s isSharp=%v", b.slice, b.isSharp))
		default:
			c.undec(key+"?", c.pos(b.pos), "op.newScaleAccidentals", "case condition is not a comparison of n with 0")
		}
	}
}

func (c *Ctx) checkRawScaleIndex() {
	fn := c.fn("op", "newRawScaleNotes")
	if fn == nil {
		c.missing("op.newRawScaleNotes")
		return
	}
	// ring literal order
	fd, p := c.astFunc("op", "newRawScaleNotes")
	var ring []string
	ast.Inspect(fd.Body, func(n ast.Node) bool {
		call, ok := n.(*ast.CallExpr)
		if !ok || len(ring) > 0 {
			return true
		}
		if len(call.Args) == 7 {
			var names []string
			for _, a := range call.Args {
				tv := p.TypesInfo.Types[a]
				if tv.Value == nil {
					return true
				}
				names = append(names, c.constName(tv.Type, tv.Value))
			}
			ring = names
		}
		return true
	})
	if len(ring) != 7 {
		c.undec("op.newRawScaleNotes|ring", c.pos(fd.Pos()), "op.newRawScaleNotes", "seven-letter ring literal not found")
		return
	}
	c.site(1)
	c.check(strings.Join(ring, "") == "CDEFGAB", "op.newRawScaleNotes|ring", c.pos(fd.Pos()), "op.newRawScaleNotes", "ring C D E F G A B", fmt.Sprintf("letter ring is %v", ring))
	// index for each tonic: find the phi/const feeding `index + i`
	enum := c.enumConsts("note", "Name")
	for _, l := range specLetters {
		c.site(1)
		key := "op.newRawScaleNotes|index|" + l
		idx, err := c.foldSwitchIndex(fn, enum[l])
		if err != nil {
			c.undec(key, c.pos(fn.Pos()), fname(fn), err.Error())
			continue
		}
		want := int64(-1)
		for i, r := range ring {
			if r == l {
				want = int64(i)
			}
		}
		c.check(idx == want, key, c.pos(fn.Pos()), fname(fn), fmt.Sprintf("tonic %s starts at ring index %d", l, idx), fmt.Sprintf("tonic %s starts the scale at ring index %d (letter %s), want %d", l, idx, ring[((idx%7)+7)%7], want))
	}
}

// foldSwitchIndex: bind param 0 to a letter, fold along the feasible path and return the folded
// argument of the first call to Ring.At (index + 0 in the first iteration).
func (c *Ctx) foldSwitchIndex(fn *ssa.Function, arg int64) (int64, error) {
	f := c.newFolder()
	var got *int64
	f.hook = func(in ssa.Instruction, val func(ssa.Value) fval) bool {
		call, ok := in.(*ssa.Call)
		if !ok {
			return false
		}
		n := calleeName(&call.Call)
		if n != "util.Ring.At" {
			return false
		}
		args := call.Call.Args
		v := val(args[len(args)-1])
		if v.k != nil && v.k.Kind() == constant.Int {
			x, _ := constant.Int64Val(v.k)
			got = &x
		}
		return true
	}
	_, err := f.foldCall(fn, []fval{{k: constant.MakeInt64(arg), t: fn.Params[0].Type()}})
	if got != nil {
		return *got, nil
	}
	if err != nil && err != errStopped {
		return 0, err
	}
	return 0, fmt.Errorf("the start index handed to Ring.At does not fold to a constant")
}

var _ = syntax.Perl

// checkScaleAccidentalSets folds op.newScaleAccidentals(n) for n = -7..7 and compares the letters passed to the set
// constructor and the isSharp flag with the circle of fifths: n flats = the first -n letters of B E A D G C F,
// n sharps = the first n letters of F C G D A E B. Anything executed before the sign test (a clamp, a remap) is covered.
func (c *Ctx) checkScaleAccidentalSets() {
	fn := c.fn("op", "newScaleAccidentals")
	if fn == nil {
		return
	}
	flats := orderOfFlats()
	sharps := make([]string, len(flats))
	for i := range flats {
		sharps[i] = flats[len(flats)-1-i]
	}
	type res struct {
		letters []string
		sharp   bool
	}
	results := map[int]res{}
	for n := -7; n <= 7; n++ {
		f := c.newFolder()
		var letters []string
		seen, failed := false, false
		f.hook = func(in ssa.Instruction, val func(ssa.Value) fval) bool {
			call, ok := in.(*ssa.Call)
			if !ok || calleeName(&call.Call) != "util.NewSet" {
				return false
			}
			seen = true
			if len(call.Call.Args) == 1 {
				a := val(call.Call.Args[0])
				if a.isNil {
					return false
				}
				l, ok := a.cv.(*ListV)
				if !ok {
					failed = true
					return false
				}
				for _, e := range l.Elems {
					letters = append(letters, e.vstr())
				}
			}
			return false
		}
		r, err := f.foldCall(fn, []fval{{k: constant.MakeInt64(int64(n)), t: types.Typ[types.Int]}})
		if err != nil || !seen || failed || r.fields == nil || r.fields["isSharp"].k == nil {
			return // does not fold: the syntactic check above stands alone
		}
		results[n] = res{letters, constant.BoolVal(r.fields["isSharp"].k)}
	}
	for n := -7; n <= 7; n++ {
		c.site(1)
		var want []string
		switch {
		case n < 0:
			want = flats[:-n]
		case n > 0:
			want = sharps[:n]
		}
		got := append([]string{}, results[n].letters...)
		ws := append([]string{}, want...)
		sort.Strings(got)
		sort.Strings(ws)
		key := fmt.Sprintf("op.newScaleAccidentals|set|%+d", n)
		good := strings.Join(got, "") == strings.Join(ws, "") && results[n].sharp == (n > 0)
		c.check(good, key, c.pos(fn.Pos()), fname(fn), fmt.Sprintf("signature %+d alters %v", n, want), fmt.Sprintf("a signature of %+d alters %v (sharp=%v), want %v (sharp=%v): keys with that signature get a wrong scale", n, results[n].letters, results[n].sharp, want, n > 0))
	}
}

// degreeSizesByFolding folds note.Degree.Semitone on every number 0..64 and every quality (plus the unknown one) and
// compares size and validity with the specification. It reports false (and emits nothing) when the function does not
// fold, e.g. when it searches its table by ranging over the map; the shape analysis then takes over.
func (c *Ctx) degreeSizesByFolding() bool {
	fn := c.fn("note", "Degree.Semitone")
	if fn == nil {
		return false
	}
	enum := c.enumConsts("note", "DegreeName")
	type res struct {
		semi int64
		ok   bool
	}
	got := map[string]res{}
	var orderDep []string
	for name, q := range enum {
		for n := int64(0); n <= 64; n++ {
			recv := fval{fields: map[string]fval{"Value": {k: constant.MakeInt64(n)}, "Name": {k: constant.MakeInt64(q)}}}
			fd := c.newFolder()
			r, err := fd.foldCall(fn, []fval{recv})
			if err == nil && fd.sawMapRange {
				// the function searches a table by ranging over a map: its answer must not depend on the order of visit
				fr := c.newFolder()
				fr.reverseMaps = true
				r2, err2 := fr.foldCall(fn, []fval{recv})
				if err2 != nil || r2.String() != r.String() {
					orderDep = append(orderDep, fmt.Sprintf("%s %d: %s visiting the table first to last, %s last to first", name, n, r.String(), r2.String()))
				}
			}
			if err != nil || len(r.tuple) != 2 || r.tuple[1].k == nil || r.tuple[1].k.Kind() != constant.Bool {
				if os.Getenv("CRDCHECK_DEBUG") != "" {
					fmt.Fprintf(os.Stderr, "degreeSizesByFolding: %s %d does not fold: %v %v\n", name, n, err, r)
				}
				return false
			}
			ok := constant.BoolVal(r.tuple[1].k)
			var semi int64
			if ok {
				if r.tuple[0].k == nil || r.tuple[0].k.Kind() != constant.Int {
					return false
				}
				semi, _ = constant.Int64Val(r.tuple[0].k)
			}
			got[fmt.Sprintf("%s/%d", name, n)] = res{semi, ok}
		}
	}
	for _, name := range sortedKeys(enum) {
		c.site(1)
		key := "note.Degree.Semitone|folded|" + strings.TrimSuffix(name, "Degree")
		q, known := degreeNameQuality[name]
		problem := ""
		for n := 0; n <= 64 && problem == ""; n++ {
			g := got[fmt.Sprintf("%s/%d", name, n)]
			want, valid := 0, false
			if known && n >= 1 {
				want, valid = specSize(n, q)
			}
			switch {
			case g.ok != valid:
				problem = fmt.Sprintf("%s %d: valid=%v, theory says valid=%v", name, n, g.ok, valid)
			case valid && g.semi != int64(want):
				problem = fmt.Sprintf("%s %d is %d semitones, theory says %d", name, n, g.semi, want)
			}
		}
		c.check(problem == "", key, c.pos(fn.Pos()), fname(fn), "size and validity for numbers 0..64 agree with the specification (folded)", "note.Degree.Semitone: "+problem)
	}
	c.site(1)
	sort.Strings(orderDep)
	if len(orderDep) > 3 {
		orderDep = append(orderDep[:3], fmt.Sprintf("... and %d more", len(orderDep)-3))
	}
	c.check(len(orderDep) == 0, "note.Degree.Semitone|order", c.pos(fn.Pos()), fname(fn), "the table search gives the same answer whichever way the map is visited", "note.Degree.Semitone depends on map iteration order (two rows qualify): "+strings.Join(orderDep, "; ")+" — the same command gives different bytes on different runs")
	return true
}

// foldEnumAccessor folds a one-argument function (or a method on the enum type) on the named constants of an enum type;
// ok=false when it does not fold to a known value for every one of them.
func (c *Ctx) foldEnumAccessor(pkg, fn, enumPkg, enumType string, names []string) (map[string]fval, bool) {
	f := c.fn(pkg, fn)
	if f == nil || len(f.Params) != 1 {
		return nil, false
	}
	enum := c.enumConsts(enumPkg, enumType)
	out := map[string]fval{}
	for _, n := range names {
		k, has := enum[n]
		if !has {
			return nil, false
		}
		r, err := c.newFolder().foldCall(f, []fval{{k: constant.MakeInt64(k), t: f.Params[0].Type()}})
		if err != nil || !r.known() {
			if os.Getenv("CRDCHECK_DEBUG") != "" {
				fmt.Fprintf(os.Stderr, "foldEnumAccessor: %s.%s(%s) does not fold: %v %v\n", pkg, fn, n, err, r)
			}
			return nil, false
		}
		out[n] = r
	}
	return out, true
}
