package main

import (
	"fmt"
	"go/ast"
	"go/constant"
	"go/token"
	"go/types"
	"os"
	"regexp"
	"regexp/syntax"
	"sort"
	"strings"
	"unicode"

	"golang.org/x/tools/go/packages"
	"golang.org/x/tools/go/ssa"
	"gopkg.in/yaml.v3"
)

func init() {
	register("TAB-CIRCLE", "both rings of the circle of fifths, their alignment, the enharmonic partition and the four (mode, delta) pairs satisfy the laws of dominant / subdominant / relative / parallel; all chains up to length 6 from all keys succeed on the extracted model", 28, ruleTabCircle)
	register("TAB-CHORDS", "every built-in chord symbol resolves (parent first) to its conventional interval set; references resolve; extends is acyclic; no name collides with another entry's display", 23, ruleTabChords)
	register("TAB-ATTRS", "the embedded attribute list equals what the independent generator produces for 1..19, each name denotes the interval its English name says", 67, ruleTabAttrs)
	register("TAB-DIATONIC", "diatonic triad/seventh name tables equal stacked thirds on the derived scale through chord.yml; names are paired with scale notes by index", 28, ruleTabDiatonic)
	register("TAB-LEXNAMES", "everything `info key describe` prints lexes back as SYLLABLE [accidental] SYMBOL: letters and accidental strings are lexer cases, each diatonic name is one SYMBOL run, `_` exactly where a digit starts the name", 28, ruleTabLexnames)
	register("TAB-DYNAMICS", "six dynamic signs pp p mp mf f ff with strictly increasing velocities in 1..127; string table injective and named right", 12, ruleTabDynamics)
	register("TAB-DEFAULTS", "defaults: 100 bpm, 4/4, key C, a dynamic in the table, middle C = 60, default bass = perfect unison, txt/lic/mrk keys", 9, ruleTabDefaults)
	register("TAB-REGEX", "the key and note regexes accept exactly the letters and accidental marks the printers produce, and the minor mark", 2, ruleTabRegex)
	register("TAB-SEARCH", "both quality-search lists of ScaleNote.GetDegree contain major/perfect, minor/diminished and augmented; Tendency returns Unknown only for Unknown inputs", 2, ruleTabSearch)
}

// ---------------------------------------------------------------------------
// TAB-CIRCLE

type circleModel struct {
	rings map[bool][][]string // minor? -> slots -> spellings
	pos   map[bool]token.Pos
}

// circleSeeds extracts the seed literal of a ring constructor.
func (c *Ctx) circleSeeds(fnName string) ([][]string, token.Pos, error) {
	fd, p := c.astFunc("op", fnName)
	if fd == nil {
		return nil, 0, fmt.Errorf("op.%s not found", fnName)
	}
	var out [][]string
	var pos token.Pos
	var err error
	ast.Inspect(fd.Body, func(n ast.Node) bool {
		cl, ok := n.(*ast.CompositeLit)
		if !ok || out != nil {
			return true
		}
		t := p.TypesInfo.TypeOf(cl)
		if t == nil {
			return true
		}
		sl, ok := t.Underlying().(*types.Slice)
		if !ok {
			return true
		}
		if inner, ok := sl.Elem().Underlying().(*types.Slice); !ok || !types.Identical(inner.Elem(), types.Typ[types.String]) {
			return true
		}
		v, e := c.eval(p, cl)
		if e != nil {
			err = e
			return false
		}
		lv := v.(*ListV)
		for _, el := range lv.Elems {
			il, ok := el.(*ListV)
			if !ok {
				err = fmt.Errorf("seed is not a list")
				return false
			}
			var slot []string
			for _, s := range il.Elems {
				str, _ := asStr(s)
				slot = append(slot, str)
			}
			out = append(out, slot)
		}
		pos = cl.Pos()
		return false
	})
	if err != nil {
		return nil, 0, err
	}
	if out == nil {
		// the seeds may live in a package-level variable the constructor reads: a list of lists of strings among the
		// immutable globals the function loads
		if fn := c.fn("op", fnName); fn != nil {
			allInstrs(fn, func(in ssa.Instruction) {
				ld, ok := in.(*ssa.UnOp)
				if !ok || ld.Op != token.MUL || out != nil {
					return
				}
				g, ok := ld.X.(*ssa.Global)
				if !ok {
					return
				}
				lv, ok := c.globalTable(g).cv.(*ListV)
				if !ok {
					return
				}
				var seeds [][]string
				for _, el := range lv.Elems {
					il, ok := el.(*ListV)
					if !ok {
						return
					}
					var slot []string
					for _, sv := range il.Elems {
						str, ok := asStr(sv)
						if !ok {
							return
						}
						slot = append(slot, str)
					}
					seeds = append(seeds, slot)
				}
				out, pos = seeds, g.Pos()
			})
		}
	}
	if out == nil {
		return nil, 0, fmt.Errorf("no [][]string seed literal in op.%s", fnName)
	}
	return out, pos, nil
}

// findCall describes one call to CircleOfFifth.find inside a conversion method.
type findCall struct {
	method      string
	flipMode    bool           // isMinor argument is !key.Minor
	deltaByMode map[bool]int64 // key.Minor -> delta
	pos         token.Pos
}

func (c *Ctx) extractFindCall(method string) (*findCall, error) {
	fn := c.fn("op", "CircleOfFifth."+method)
	if fn == nil {
		return nil, fmt.Errorf("op.CircleOfFifth.%s not found", method)
	}
	// the call of find may sit in a helper shared by the four conversions: look at the region, resolve arguments upwards
	tr := c.plainTracer()
	region := c.regionCalls(fn, func(f *ssa.Function) bool { return !isExportedFn(f) && f.Name() != "find" && f.Name() != "index" })
	calls := findRegion(region, func(ci ssa.CallInstruction) bool { return calleeName(ci.Common()) == "op.CircleOfFifth.find" })
	if len(calls) != 1 {
		return nil, fmt.Errorf("%d calls to find in %s", len(calls), method)
	}
	rc := calls[0]
	call := rc.call.Common()
	fc := &findCall{method: method, pos: rc.call.Pos(), deltaByMode: map[bool]int64{}}
	keyParam := fn.Params[1]
	isKeyMinor := func(v ssa.Value) bool {
		name, base, ok := loadedField(v)
		if !ok || name != "Minor" {
			return false
		}
		return c.derivesFromParam(base, keyParam)
	}
	arg := func(i int) lval { return tr.trace(lval{call.Args[i], rc.fn, rc.chain}) }
	// args: c, key, isMinor, delta
	modeArg := arg(2)
	if len(modeArg.chain) != 0 {
		return nil, fmt.Errorf("mode argument of find in %s does not come from the method's key", method)
	}
	if u, ok := modeArg.v.(*ssa.UnOp); ok && u.Op == token.NOT && isKeyMinor(u.X) {
		fc.flipMode = true
	} else if isKeyMinor(modeArg.v) {
		fc.flipMode = false
	} else {
		return nil, fmt.Errorf("mode argument of find in %s is neither key.Minor nor !key.Minor", method)
	}
	if ka := arg(1); len(ka.chain) != 0 || !c.derivesFromParam(ka.v, keyParam) {
		return nil, fmt.Errorf("find in %s is not called with the method's key", method)
	}
	dl := arg(3)
	delta := dl.v
	if len(dl.chain) != 0 {
		return nil, fmt.Errorf("delta of find in %s is not decided by the method", method)
	}
	if k, ok := constInt(delta); ok {
		fc.deltaByMode[true], fc.deltaByMode[false] = k, k
		return fc, nil
	}
	// a choice on key.Minor in any shape (if/else, default then override, helper with two returns): guarded alternatives
	alts := tr.alts(lval{delta, fn, nil}, 0)
	if len(alts) < 2 {
		return nil, fmt.Errorf("delta of find in %s is neither a constant nor a two-way choice on key.Minor", method)
	}
	for _, a := range alts {
		k, ok := constInt(a.leaf.v)
		if !ok {
			return nil, fmt.Errorf("delta alternative is not constant in %s", method)
		}
		side, known := false, false
		for _, g := range a.conds {
			gl := tr.trace(g.cond)
			if len(gl.chain) == 0 && isKeyMinor(gl.v) {
				side, known = g.want, true
			}
		}
		if !known {
			return nil, fmt.Errorf("delta alternative not controlled by key.Minor in %s", method)
		}
		if prev, dup := fc.deltaByMode[side]; dup && prev != k {
			return nil, fmt.Errorf("two different deltas for the same mode in %s", method)
		}
		fc.deltaByMode[side] = k
	}
	if len(fc.deltaByMode) != 2 {
		return nil, fmt.Errorf("delta not defined for both modes in %s", method)
	}
	return fc, nil
}

// branchSide: walking up single-predecessor chains from b, find the If whose condition satisfies pred; report which side b is on.
func (c *Ctx) branchSide(b *ssa.BasicBlock, isCond func(ssa.Value) bool) (bool, bool) {
	for steps := 0; steps < 8; steps++ {
		if len(b.Preds) != 1 {
			return false, false
		}
		p := b.Preds[0]
		if iff, ok := p.Instrs[len(p.Instrs)-1].(*ssa.If); ok {
			if isCond(iff.Cond) {
				return p.Succs[0] == b, true
			}
			if u, ok := iff.Cond.(*ssa.UnOp); ok && u.Op == token.NOT && isCond(u.X) {
				return p.Succs[0] != b, true
			}
			return false, false
		}
		b = p
	}
	return false, false
}

// derivesFromParam: v is the parameter, a load of a local that only ever stores the parameter, or a field/address chain on those.
func (c *Ctx) derivesFromParam(v ssa.Value, p *ssa.Parameter) bool {
	for steps := 0; steps < 12; steps++ {
		switch x := v.(type) {
		case *ssa.Parameter:
			return x == p
		case *ssa.UnOp:
			if x.Op == token.MUL {
				v = x.X
				continue
			}
			return false
		case *ssa.FieldAddr:
			v = x.X
		case *ssa.Field:
			v = x.X
		case *ssa.Alloc:
			// all stores into the alloc must store the parameter
			okAll, any := true, false
			for _, r := range *x.Referrers() {
				if st, ok := r.(*ssa.Store); ok && st.Addr == x {
					any = true
					if st.Val != p {
						okAll = false
					}
				}
			}
			return any && okAll
		default:
			return false
		}
	}
	return false
}

func ruleTabCircle(c *Ctx) {
	// ring constructors wired to the Majors / Minors fields
	fd, p := c.astFunc("op", "NewCircleOfFifth")
	if fd == nil {
		c.missing("op.NewCircleOfFifth")
		return
	}
	ctor := map[string]string{} // field -> constructor func name
	ast.Inspect(fd.Body, func(n ast.Node) bool {
		kv, ok := n.(*ast.KeyValueExpr)
		if !ok {
			return true
		}
		id, ok := kv.Key.(*ast.Ident)
		if !ok {
			return true
		}
		if call, ok := kv.Value.(*ast.CallExpr); ok {
			if f, ok := call.Fun.(*ast.Ident); ok {
				if _, isFunc := p.TypesInfo.Uses[f].(*types.Func); isFunc {
					ctor[id.Name] = f.Name
				}
			}
		}
		return true
	})
	model := &circleModel{rings: map[bool][][]string{}, pos: map[bool]token.Pos{}}
	for field, minor := range map[string]bool{"Majors": false, "Minors": true} {
		fnName, ok := ctor[field]
		if !ok {
			c.undec("op.NewCircleOfFifth|"+field, c.pos(fd.Pos()), "op.NewCircleOfFifth", "field "+field+" is not initialised by a ring constructor call")
			return
		}
		seeds, pos, err := c.circleSeeds(fnName)
		if err != nil {
			c.undec("op."+fnName+"|seeds", c.pos(fd.Pos()), "op."+fnName, err.Error())
			return
		}
		model.rings[minor] = seeds
		model.pos[minor] = pos
	}

	sigTab, _, _ := c.keySignatureTable()
	supported := map[string]bool{}
	if sigTab != nil {
		for _, e := range sigTab.Entries {
			s, _ := asStr(e.K)
			supported[s] = true
		}
	}

	type slotInfo struct {
		pc, sig int
		keys    []string
		ok      bool
	}
	info := map[bool][]slotInfo{}
	seenKey := map[string]string{}
	modeName := map[bool]string{false: "major", true: "minor"}
	for _, minor := range []bool{false, true} {
		ring := model.rings[minor]
		rkey := "op.circle|" + modeName[minor]
		c.check(len(ring) == 12, rkey+"|len", c.pos(model.pos[minor]), "", "12 slots", fmt.Sprintf("%s ring has %d slots, want 12", modeName[minor], len(ring)))
		for i, slot := range ring {
			c.site(1)
			si := slotInfo{ok: true}
			skey := fmt.Sprintf("%s|slot|%s", rkey, strings.Join(slot, "="))
			if len(slot) == 0 {
				c.bad(skey, c.pos(model.pos[minor]), "", fmt.Sprintf("slot %d is empty", i))
				si.ok = false
			}
			for j, ks := range slot {
				k, ok := parseSpecKey(ks)
				if !ok || k.Minor != minor {
					c.bad(skey+"|"+ks, c.pos(model.pos[minor]), "", fmt.Sprintf("%q in the %s ring is not a %s key spelling", ks, modeName[minor], modeName[minor]))
					si.ok = false
					continue
				}
				sc, err := specScale(k)
				if err != nil {
					c.bad(skey+"|"+ks, c.pos(model.pos[minor]), "", fmt.Sprintf("seed %s has no scale (%v): MustNewScale in member() panics when the circle is built", ks, err))
					si.ok = false
					continue
				}
				if !supported[ks] {
					c.bad(skey+"|"+ks, c.pos(model.pos[minor]), "", fmt.Sprintf("seed %s has no row in the signature table: MustNewScale in member() panics when the circle is built", ks))
					si.ok = false
				}
				if prev, dup := seenKey[ks]; dup {
					c.bad(skey+"|dup|"+ks, c.pos(model.pos[minor]), "", fmt.Sprintf("%s is listed in two slots (%s and %s): Index finds the first only", ks, prev, strings.Join(slot, "=")))
					si.ok = false
				}
				seenKey[ks] = strings.Join(slot, "=")
				sig12 := ((sc.Sig % 12) + 12) % 12
				if j == 0 {
					si.pc, si.sig = k.pc(), sig12
				} else if k.pc() != si.pc || sig12 != si.sig {
					c.bad(skey+"|enharmonic|"+ks, c.pos(model.pos[minor]), "", fmt.Sprintf("%s shares a slot with %s but is not enharmonic to it (pitch class %d vs %d, signature %d vs %d mod 12)", ks, slot[0], k.pc(), si.pc, sig12, si.sig))
					si.ok = false
				}
				si.keys = append(si.keys, ks)
			}
			if si.ok {
				c.ok(skey, c.pos(model.pos[minor]), "", fmt.Sprintf("slot %d: %v pitch class %d signature %d (mod 12)", i, slot, si.pc, si.sig))
			}
			info[minor] = append(info[minor], si)
		}
	}
	// partition: every supported key appears in exactly one slot ("lists every supported spelling")
	for _, ks := range sortedKeys(supported) {
		if _, ok := seenKey[ks]; !ok {
			c.bad("op.circle|partition|"+ks, c.pos(model.pos[strings.HasSuffix(ks, "m")]), "", fmt.Sprintf("supported key %s is in no slot of the circle: conversions from it fail and results never list it", ks))
		}
	}
	if len(info[false]) != 12 || len(info[true]) != 12 {
		return
	}
	allOK := true
	for _, minor := range []bool{false, true} {
		for _, s := range info[minor] {
			allOK = allOK && s.ok
		}
	}
	if !allOK {
		return
	}
	// ring laws: one step = a fifth up
	for _, minor := range []bool{false, true} {
		for i := 0; i < 12; i++ {
			a, b := info[minor][i], info[minor][(i+1)%12]
			key := fmt.Sprintf("op.circle|%s|fifth|%s->%s", modeName[minor], a.keys[0], b.keys[0])
			c.check(b.pc == (a.pc+7)%12 && b.sig == (a.sig+1)%12, key, c.pos(model.pos[minor]), "",
				"next slot is a fifth up (+1 sharp)",
				fmt.Sprintf("slot after %v is %v: pitch class %d->%d (want +7), signature %d->%d (want +1): dominant/subdominant of these keys are wrong", a.keys, b.keys, a.pc, b.pc, a.sig, b.sig))
		}
	}
	// alignment: same index = relative keys (same signature)
	for i := 0; i < 12; i++ {
		a, b := info[false][i], info[true][i]
		key := fmt.Sprintf("op.circle|relative|%s~%s", a.keys[0], b.keys[0])
		c.check(a.sig == b.sig && b.pc == (a.pc+9)%12, key, c.pos(model.pos[true]), "",
			"major and minor slot at the same index share the signature",
			fmt.Sprintf("index %d pairs %v with %v: signatures %d vs %d (mod 12), tonic distance %d (want 9): relative keys are wrong", i, a.keys, b.keys, a.sig, b.sig, (b.pc-a.pc+12)%12))
	}

	// the four conversions
	want := map[string]struct {
		flip       bool
		dMaj, dMin int64
	}{
		"Dominant":    {false, 1, 1},
		"SubDominant": {false, -1, -1},
		"Relative":    {true, 0, 0},
		"Parallel":    {true, -3, 3},
	}
	calls := map[string]*findCall{}
	for _, m := range sortedKeys(want) {
		c.site(1)
		key := "op.CircleOfFifth." + m + "|find"
		fc, err := c.extractFindCall(m)
		if err != nil {
			c.undec(key, "", "op.CircleOfFifth."+m, err.Error())
			continue
		}
		calls[m] = fc
		// a conversion refuses a key only because find refuses it (a check of its own would reject keys the circle holds)
		if mfn := c.fn("op", "CircleOfFifth."+m); mfn != nil {
			c.site(1)
			isFindErr := func(v ssa.Value) bool {
				ex, ok := v.(*ssa.Extract)
				if !ok || !isErrorType(ex.Type()) {
					return false
				}
				call, ok := ex.Tuple.(*ssa.Call)
				if !ok {
					return false
				}
				n := calleeName(&call.Call)
				return n == "op.CircleOfFifth.find" || strings.HasPrefix(n, "op.CircleOfFifth.")
			}
			problem := ""
			for _, r := range returnsOf(mfn) {
				e := retVal(r, len(r.Results)-1)
				if isNilConst(e) {
					continue
				}
				if !dataDependsOn(e, isFindErr) {
					problem = "an error is returned that does not come from the lookup on the circle (at " + c.pos(r.Pos()) + ")"
				}
			}
			c.check(problem == "", "op.CircleOfFifth."+m+"|refusals", c.pos(mfn.Pos()), fname(mfn), "refuses a key only when the circle lookup does", fname(mfn)+": "+problem+": keys that are on the circle are refused by an extra test (e.g. the two seven-accidental keys)")
			// ... and what it hands back on success is the member the lookup found, as it is (every spelling of the slot;
			// picking one of them makes the answer depend on which spelling of the source came first)
			c.site(1)
			tr := &tracer{c: c, stop: func(f *ssa.Function) bool { return f.Name() == "find" || isExportedFn(f) }}
			whole := ""
			isFound := func(v ssa.Value) bool {
				ex, ok := v.(*ssa.Extract)
				if !ok || ex.Index != 0 {
					return false
				}
				call, ok := ex.Tuple.(*ssa.Call)
				if !ok {
					return false
				}
				n := calleeName(&call.Call)
				return n == "op.CircleOfFifth.find" || strings.HasPrefix(n, "op.CircleOfFifth.")
			}
			// results kept in cells (a return from inside a range-over-func body writes them there): whatever is stored
			// into the member's cell, here or in a loop-body closure, is the found member
			for _, r := range returnsOf(mfn) {
				ld, ok := r.Results[0].(*ssa.UnOp)
				if !ok || ld.Op != token.MUL {
					continue
				}
				cell, ok := ld.X.(*ssa.Alloc)
				if !ok {
					continue
				}
				var stored []lval
				for _, ref := range *cell.Referrers() {
					switch x := ref.(type) {
					case *ssa.Store:
						if x.Addr == ssa.Value(cell) {
							stored = append(stored, lval{x.Val, mfn, nil})
						}
					case *ssa.MakeClosure:
						cf, _ := x.Fn.(*ssa.Function)
						for i, b := range x.Bindings {
							if b != ssa.Value(cell) || cf == nil || i >= len(cf.FreeVars) {
								continue
							}
							for _, fr := range *cf.FreeVars[i].Referrers() {
								if st, ok := fr.(*ssa.Store); ok && st.Addr == ssa.Value(cf.FreeVars[i]) {
									stored = append(stored, lval{st.Val, cf, nil})
								}
							}
						}
					}
				}
				for _, sv := range stored {
					for _, alt := range tr.alts(sv, 0) {
						v := alt.leaf.v
						if l2, ok := v.(*ssa.UnOp); ok && l2.Op == token.MUL {
							// a load of the local the found member is kept in
							if al, ok := l2.X.(*ssa.Alloc); ok {
								okAll := false
								for _, ref := range *al.Referrers() {
									if st, ok := ref.(*ssa.Store); ok && st.Addr == ssa.Value(al) {
										okAll = isFound(st.Val)
									}
								}
								if okAll {
									continue
								}
							}
							if fv, ok := l2.X.(*ssa.FreeVar); ok {
								_ = fv
								continue // the found member's cell, read inside the loop body
							}
						}
						if isFound(v) || isUnwrittenLocal(v) {
							continue
						}
						whole = "something else than the member found on the circle is stored as the result (" + c.pos(sv.fn.Pos()) + ")"
					}
				}
			}
			for _, r := range returnsOf(mfn) {
				if !isNilConst(retVal(r, len(r.Results)-1)) {
					continue
				}
				for _, alt := range tr.alts(lval{retVal(r, 0), mfn, nil}, 0) {
					ex, ok := alt.leaf.v.(*ssa.Extract)
					found := false
					if ok && ex.Index == 0 {
						if call, ok := ex.Tuple.(*ssa.Call); ok {
							n := calleeName(&call.Call)
							found = n == "op.CircleOfFifth.find" || strings.HasPrefix(n, "op.CircleOfFifth.")
						}
					}
					if !found {
						whole = "a successful return hands back something else than the member found on the circle (at " + c.pos(r.Pos()) + ")"
					}
				}
			}
			c.check(whole == "", "op.CircleOfFifth."+m+"|whole-member", c.pos(mfn.Pos()), fname(mfn), "returns the member the lookup found, unchanged", fname(mfn)+": "+whole+": the result no longer lists every spelling of the target")
		}
		w := want[m]
		good := fc.flipMode == w.flip && fc.deltaByMode[false] == w.dMaj && fc.deltaByMode[true] == w.dMin
		c.check(good, key, c.pos(fc.pos), "op.CircleOfFifth."+m,
			fmt.Sprintf("%s: otherRing=%v delta(major)=%+d delta(minor)=%+d", m, fc.flipMode, fc.deltaByMode[false], fc.deltaByMode[true]),
			fmt.Sprintf("%s looks up otherRing=%v with delta %+d from a major key and %+d from a minor key; the circle needs otherRing=%v, %+d, %+d", m, fc.flipMode, fc.deltaByMode[false], fc.deltaByMode[true], w.flip, w.dMaj, w.dMin))
	}
	if len(calls) != 4 {
		return
	}
	// semantic check of each conversion on the extracted model, for every supported key
	type st struct {
		minor bool
		idx   int
	}
	step := func(s st, m string) st {
		fc := calls[m]
		nm := s.minor
		if fc.flipMode {
			nm = !nm
		}
		return st{nm, int(((int64(s.idx)+fc.deltaByMode[s.minor])%12 + 12) % 12)}
	}
	locate := func(ks string) (st, bool) {
		for _, minor := range []bool{false, true} {
			for i, s := range info[minor] {
				for _, k := range s.keys {
					if k == ks {
						return st{minor, i}, true
					}
				}
			}
		}
		return st{}, false
	}
	sem := map[string]func(from, to slotInfo, fromMinor, toMinor bool) bool{
		"Dominant":    func(f, t slotInfo, fm, tm bool) bool { return fm == tm && t.pc == (f.pc+7)%12 },
		"SubDominant": func(f, t slotInfo, fm, tm bool) bool { return fm == tm && t.pc == (f.pc+5)%12 },
		"Relative":    func(f, t slotInfo, fm, tm bool) bool { return fm != tm && t.sig == f.sig },
		"Parallel":    func(f, t slotInfo, fm, tm bool) bool { return fm != tm && t.pc == f.pc },
	}
	for _, ks := range sortedKeys(supported) {
		s0, ok := locate(ks)
		if !ok {
			continue
		}
		for _, m := range sortedKeys(want) {
			s1 := step(s0, m)
			f, t := info[s0.minor][s0.idx], info[s1.minor][s1.idx]
			c.check(sem[m](f, t, s0.minor, s1.minor), fmt.Sprintf("op.circle|law|%s(%s)", m, ks), c.pos(calls[m].pos), "op.CircleOfFifth."+m,
				fmt.Sprintf("%s(%s) = %v", m, ks, t.keys), fmt.Sprintf("%s(%s) yields %v on the extracted model, which violates the definition of %s", m, ks, t.keys, m))
		}
	}
	// group laws and chains up to length 6, exhaustively on the model
	ops := []string{"Parallel", "Relative", "Dominant", "SubDominant"}
	chains, broken := 0, 0
	for _, ks := range sortedKeys(supported) {
		s0, ok := locate(ks)
		if !ok {
			continue
		}
		var rec func(s st, depth int)
		rec = func(s st, depth int) {
			if depth > 0 {
				chains++
			}
			// local laws at every reachable state
			if step(step(s, "Dominant"), "SubDominant") != s || step(step(s, "SubDominant"), "Dominant") != s ||
				step(step(s, "Relative"), "Relative") != s || step(step(s, "Parallel"), "Parallel") != s {
				broken++
			}
			if depth == 6 {
				return
			}
			for _, o := range ops {
				rec(step(s, o), depth+1)
			}
		}
		rec(s0, 0)
		// twelve dominants
		s := s0
		for i := 0; i < 12; i++ {
			s = step(s, "Dominant")
		}
		if s != s0 {
			broken++
		}
	}
	c.site(1)
	c.check(broken == 0, "op.circle|chains", c.pos(model.pos[false]), "", fmt.Sprintf("%d chains of length 1..6 from %d keys: d.s = s.d = id, r.r = p.p = id, d^12 = id at every reachable state of the model", chains, len(supported)), fmt.Sprintf("%d law violations over %d chains on the extracted model", broken, chains))

	// command letters
	c.checkConversionLetters()
}

func (c *Ctx) checkConversionLetters() {
	// find the closure in cmd that maps a rune to op.KeyConversion
	var target *ssa.Function
	for _, m := range c.ssapkg("cmd").Members {
		fn, ok := m.(*ssa.Function)
		if !ok {
			continue
		}
		for _, f := range withClosures(fn) {
			sig := f.Signature
			if sig.Params().Len() == 1 && sig.Results().Len() == 1 && typeName(sig.Results().At(0).Type()) == "op.KeyConversion" {
				if b, ok := sig.Params().At(0).Type().Underlying().(*types.Basic); ok && b.Kind() == types.Int32 {
					target = f
				}
			}
		}
	}
	if target == nil {
		c.undec("cmd|conversionLetters", "", "", "no func(rune) op.KeyConversion found in cmd")
		return
	}
	kc := c.enumConsts("op", "KeyConversion")
	conv := c.fn("op", "KeyConversion.Converter")
	want := map[rune]string{'p': "Parallel", 'r': "Relative", 'd': "Dominant", 's': "SubDominant"}
	for _, r := range []rune{'p', 'r', 'd', 's'} {
		c.site(1)
		key := fmt.Sprintf("cmd|conversionLetter|%c", r)
		v, err := c.newFolder().foldCall(target, []fval{{k: constant.MakeInt64(int64(r)), t: types.Typ[types.Rune]}})
		if err != nil || v.k == nil {
			c.undec(key, c.pos(target.Pos()), fname(target), fmt.Sprintf("letter does not fold: %v", err))
			continue
		}
		n, _ := constant.Int64Val(v.k)
		cname := ""
		for k, x := range kc {
			if x == n {
				cname = k
			}
		}
		// Converter(const) -> bound method
		method := ""
		if conv != nil {
			r2, err := c.newFolder().foldCall(conv, []fval{{k: constant.MakeInt64(n), t: conv.Params[0].Type()}, top})
			if err == nil && r2.fn != nil {
				method = unbound(forwardedTarget(r2)).Name()
			}
		}
		c.check(method == want[r], key, c.pos(target.Pos()), fname(target), fmt.Sprintf("'%c' -> %s -> %s", r, cname, method), fmt.Sprintf("letter '%c' selects %s which runs CircleOfFifth.%s, want %s", r, cname, method, want[r]))
	}
	// unknown letters must not select a conversion silently
	v, err := c.newFolder().foldCall(target, []fval{{k: constant.MakeInt64(int64('x')), t: types.Typ[types.Rune]}})
	if err == nil && v.k != nil && conv != nil {
		n, _ := constant.Int64Val(v.k)
		fd2 := c.newFolder()
		r2, err := fd2.foldCall(conv, []fval{{k: constant.MakeInt64(n), t: conv.Params[0].Type()}, top})
		isErrClosure := err == nil && r2.fn != nil && strings.Contains(forwardedTarget(r2).Name(), "$")
		if err == nil && r2.fn != nil && !isErrClosure {
			// a named function: it fails for a key (folded on C major), whatever it is called
			names, accs := c.enumConsts("note", "Name"), c.enumConsts("op", "Accidental")
			keyC := fval{fields: map[string]fval{"Name": {k: constant.MakeInt64(names["C"])}, "Accidental": {k: constant.MakeInt64(accs["Natural"])}, "Minor": {k: constant.MakeBool(false)}}}
			if r3, err3 := fd2.callValue(r2, []fval{keyC}); err3 == nil && len(r3.tuple) == 2 && r3.tuple[1].nonNil {
				isErrClosure = true
			}
		}
		c.check(isErrClosure, "cmd|conversionLetter|other", c.pos(target.Pos()), fname(target), "any other letter selects the failing conversion", "an unknown letter selects a real conversion instead of failing")
	}
}

// ---------------------------------------------------------------------------
// TAB-CHORDS / TAB-ATTRS

type yChord struct {
	Name string `yaml:"name"`
	Meta struct {
		Display string `yaml:"display"`
	} `yaml:"meta"`
	Attributes []string `yaml:"attributes"`
	Extends    string   `yaml:"extends"`
}

type yAttr struct {
	Name   string `yaml:"name"`
	Degree string `yaml:"degree"`
}

// embedTarget finds the //go:embed file name of a package variable.
func (c *Ctx) embedTarget(pkgrel, varName string) (string, bool) {
	p := c.pkg(pkgrel)
	if p == nil {
		return "", false
	}
	for _, f := range p.Syntax {
		for _, d := range f.Decls {
			gd, ok := d.(*ast.GenDecl)
			if !ok || gd.Tok != token.VAR || gd.Doc == nil {
				continue
			}
			for _, s := range gd.Specs {
				vs := s.(*ast.ValueSpec)
				for _, n := range vs.Names {
					if n.Name != varName {
						continue
					}
					for _, cm := range gd.Doc.List {
						if strings.HasPrefix(cm.Text, "//go:embed ") {
							return strings.TrimSpace(strings.TrimPrefix(cm.Text, "//go:embed ")), true
						}
					}
				}
			}
		}
	}
	return "", false
}

func (c *Ctx) loadDictionaries() ([]yChord, []yAttr, bool) {
	cf, ok1 := c.embedTarget("chord", "basicChords")
	af, ok2 := c.embedTarget("chord", "basicAttributes")
	if !ok1 || !ok2 {
		c.missing("chord: //go:embed of basicChords / basicAttributes")
		return nil, nil, false
	}
	cb, err := c.ReadFile("chord/" + cf)
	if err != nil {
		c.bad("chord/"+cf, "", "", "embedded dictionary unreadable: "+err.Error())
		return nil, nil, false
	}
	ab, err := c.ReadFile("chord/" + af)
	if err != nil {
		c.bad("chord/"+af, "", "", "embedded dictionary unreadable: "+err.Error())
		return nil, nil, false
	}
	var chords []yChord
	var attrs []yAttr
	if err := yaml.Unmarshal(cb, &chords); err != nil {
		c.bad("chord/"+cf+"|parse", "chord/"+cf, "", "does not parse: "+err.Error()+" (BasicChords panics at run time)")
		return nil, nil, false
	}
	if err := yaml.Unmarshal(ab, &attrs); err != nil {
		c.bad("chord/"+af+"|parse", "chord/"+af, "", "does not parse: "+err.Error()+" (BasicAttributes panics at run time)")
		return nil, nil, false
	}
	return chords, attrs, true
}

// resolveChord: independent resolver, parent first.
func resolveChord(name string, byName map[string]*yChord, attrSize map[string]int, seen map[string]bool) ([]int, error) {
	ch, ok := byName[name]
	if !ok {
		return nil, fmt.Errorf("chord %q not defined", name)
	}
	if seen[name] {
		return nil, fmt.Errorf("extends cycle through %q", name)
	}
	seen[name] = true
	var out []int
	if ch.Extends != "" {
		p, err := resolveChord(ch.Extends, byName, attrSize, seen)
		if err != nil {
			return nil, err
		}
		out = append(out, p...)
	}
	for _, a := range ch.Attributes {
		s, ok := attrSize[a]
		if !ok {
			return nil, fmt.Errorf("attribute %q not defined or not a valid interval", a)
		}
		out = append(out, s)
	}
	return out, nil
}

func ruleTabChords(c *Ctx) {
	chords, attrs, ok := c.loadDictionaries()
	if !ok {
		return
	}
	attrSize := map[string]int{}
	for _, a := range attrs {
		if n, q, ok := specParseInterval(a.Degree); ok {
			if s, valid := specSize(n, q); valid {
				attrSize[a.Name] = s
			}
		}
	}
	byName := map[string]*yChord{}
	byDisplay := map[string]*yChord{}
	for i := range chords {
		ch := &chords[i]
		c.site(1)
		key := "chord.yml|" + ch.Name
		// the conditions Chord.validate states
		switch {
		case ch.Name == "":
			c.bad(fmt.Sprintf("chord.yml|entry%d|name", i), "chord/chord.yml", "", "entry without a name: ParseChords rejects the embedded file and BasicChords panics")
			continue
		case ch.Meta.Display == "" && ch.Name != "MajorTriad":
			c.bad(key+"|display", "chord/chord.yml", "", "no display symbol: ParseChords rejects the embedded file and BasicChords panics")
		case len(ch.Attributes) == 0 && ch.Extends == "":
			c.bad(key+"|empty", "chord/chord.yml", "", "neither attributes nor extends: ParseChords rejects the embedded file and BasicChords panics")
		}
		if prev, dup := byName[ch.Name]; dup {
			c.bad(key+"|dup", "chord/chord.yml", "", fmt.Sprintf("name %s defined twice (first display %q): the later silently replaces the former", ch.Name, prev.Meta.Display))
		}
		byName[ch.Name] = ch
		if prev, dup := byDisplay[ch.Meta.Display]; dup {
			c.bad(key+"|dupdisplay", "chord/chord.yml", "", fmt.Sprintf("display %q used by %s and %s: the later silently replaces the former", ch.Meta.Display, prev.Name, ch.Name))
		}
		byDisplay[ch.Meta.Display] = ch
	}
	for i := range chords {
		ch := &chords[i]
		if ch.Name == "" {
			continue
		}
		key := "chord.yml|" + ch.Name
		if other, clash := byDisplay[ch.Name]; clash && other != ch {
			c.bad(key+"|nameIsDisplay", "chord/chord.yml", "", fmt.Sprintf("name %s equals the display of %s: Builder.Build stores both under one key and one definition disappears", ch.Name, other.Name))
		}
		got, err := resolveChord(ch.Name, byName, attrSize, map[string]bool{})
		if err != nil {
			c.bad(key+"|resolve", "chord/chord.yml", "", fmt.Sprintf("%s (display %q) does not resolve: %v", ch.Name, ch.Meta.Display, err))
			continue
		}
		want, known := specChordFormulas()[ch.Meta.Display]
		if !known {
			// extra chords are allowed if they resolve
			c.ok(key, "chord/chord.yml", "", fmt.Sprintf("extra chord %q resolves to %v", ch.Meta.Display, got))
			continue
		}
		c.check(pcsetEqual(got, want), key, "chord/chord.yml", "",
			fmt.Sprintf("%q (%s) = %v", ch.Meta.Display, ch.Name, got),
			fmt.Sprintf("symbol %q (%s) resolves to semitones %v above the root, the conventional chord is %v", ch.Meta.Display, ch.Name, got, want))
	}
	for _, sym := range sortedKeys(specChordFormulas()) {
		if _, ok := byDisplay[sym]; !ok {
			c.bad(fmt.Sprintf("chord.yml|symbol|%q", sym), "chord/chord.yml", "", fmt.Sprintf("built-in symbol %q is not defined", sym))
		}
	}
}

func ruleTabAttrs(c *Ctx) {
	_, attrs, ok := c.loadDictionaries()
	if !ok {
		return
	}
	// -d from the go:generate directive
	maxD := int64(-1)
	if p := c.pkg("chord"); p != nil {
		re := regexp.MustCompile(`gen attr .*-d\s+(\d+)`)
		for _, f := range p.Syntax {
			for _, cg := range f.Comments {
				for _, cm := range cg.List {
					if strings.HasPrefix(cm.Text, "//go:generate") {
						if m := re.FindStringSubmatch(cm.Text); m != nil {
							fmt.Sscan(m[1], &maxD)
						}
					}
				}
			}
		}
	}
	if maxD < 0 {
		c.undec("chord|go:generate", "", "", "no `gen attr -d N` go:generate directive found")
		return
	}
	// what note.GenerateDegrees yields for that bound, in order: by folding the iterator with a stand-in for `yield`; when
	// it does not fold, the quality list and loop nesting are read off the source instead
	yielded, folded := c.generateDegreesByFolding(maxD)
	var order []string
	if folded {
		c.site(1)
		c.ok("note.GenerateDegrees|order", "", "note.GenerateDegrees", fmt.Sprintf("folded with a recording yield: %d intervals for numbers below %d", len(yielded), maxD))
	} else {
		order = c.generateDegreesOrder()
		if order == nil {
			return
		}
	}
	// what chord.GenerateAttributes itself returns for that bound, when it folds: each attribute carries one of the yielded
	// intervals (in that order, only whole qualities left out) under the name <Quality><number>
	prefix, ppos, how := map[string]string(nil), "", ""
	if gen, ok := c.generateAttributesByFolding(maxD); ok && folded {
		if gf := c.fn("chord", "GenerateAttributes"); gf != nil {
			ppos = c.pos(gf.Pos())
		}
		how = fmt.Sprintf("GenerateAttributes(%d) folded: %d attributes", maxD, len(gen))
		prefix = map[string]string{}
		problem := ""
		named := map[string]bool{}
		for _, g := range gen {
			named[g.quality] = true
		}
		i := 0
		for _, y := range yielded {
			if !named[y.name] {
				continue
			}
			if i >= len(gen) || gen[i].quality != y.name || gen[i].n != y.n {
				problem = fmt.Sprintf("the generated list does not follow note.GenerateDegrees: position %d should carry %s %d", i, y.name, y.n)
				break
			}
			num := fmt.Sprint(y.n)
			if !strings.HasSuffix(gen[i].name, num) {
				problem = fmt.Sprintf("the attribute for %s %d is named %q, which does not end in the number", y.name, y.n, gen[i].name)
				break
			}
			pf := strings.TrimSuffix(gen[i].name, num)
			if prev, seen := prefix[y.name]; seen && prev != pf {
				problem = fmt.Sprintf("attributes of quality %s are named with %q and with %q", y.name, prev, pf)
				break
			}
			prefix[y.name] = pf
			i++
		}
		if problem == "" && i != len(gen) {
			problem = fmt.Sprintf("%d attributes are generated for %d yielded intervals of the named qualities", len(gen), i)
		}
		c.site(1)
		c.check(problem == "", "chord.GenerateAttributes|folded", ppos, "chord.GenerateAttributes", how+": one per yielded interval of a named quality, in order, each carrying its interval", "chord.GenerateAttributes: "+problem)
		c.genAttrsFolded = problem == ""
	} else {
		// prefix per quality: whatever GenerateAttributes uses to name an attribute (a table or a function), folded on every quality
		prefix, ppos, how = c.attrNamePrefixes()
	}
	if prefix == nil {
		c.undec("chord.GenerateAttributes|prefix", ppos, "chord.GenerateAttributes", how)
		return
	}
	for _, k := range sortedKeys(prefix) {
		s := prefix[k]
		q, known := degreeNameQuality[k]
		c.check(known && qualityNames[q] == s, "chord.GenerateAttributes|prefix|"+k, ppos, "", k+" -> "+s+" ("+how+")", fmt.Sprintf("generated attribute names for %s start with %q, want %q", k, s, qualityNames[q]))
	}
	// independent generator
	type gen struct{ name, degree string }
	var want []gen
	for _, y := range yielded {
		q, known := degreeNameQuality[y.name]
		pf, ok := prefix[y.name]
		if !ok {
			// no attribute name for this quality: GenerateAttributes leaves such intervals out
			continue
		}
		if !known {
			c.bad("note.GenerateDegrees|yield|"+y.name, "", "note.GenerateDegrees", fmt.Sprintf("yields an interval of quality %s, which has no notation", y.name))
			continue
		}
		if _, valid := specSize(y.n, q); !valid {
			c.bad(fmt.Sprintf("note.GenerateDegrees|yield|%s%d", y.name, y.n), "", "note.GenerateDegrees", fmt.Sprintf("yields %s %d, which is not an interval", y.name, y.n))
			continue
		}
		want = append(want, gen{fmt.Sprintf("%s%d", pf, y.n), specNotation(y.n, q)})
	}
	for n := 0; n < int(maxD) && !folded; n++ {
		for _, dn := range order {
			q := degreeNameQuality[dn]
			if _, valid := specSize(n, q); !valid {
				continue
			}
			pf, ok := prefix[dn]
			if !ok {
				continue
			}
			want = append(want, gen{fmt.Sprintf("%s%d", pf, n), specNotation(n, q)})
		}
	}
	for i := 0; i < len(want) || i < len(attrs); i++ {
		c.site(1)
		switch {
		case i >= len(attrs):
			c.bad("attribute.yml|"+want[i].name, "chord/attribute.yml", "", fmt.Sprintf("entry %d (%s: %s) is generated by `gen attr -d %d` but missing from the embedded file", i, want[i].name, want[i].degree, maxD))
		case i >= len(want):
			c.bad("attribute.yml|"+attrs[i].Name, "chord/attribute.yml", "", fmt.Sprintf("entry %d (%s) is in the embedded file but not generated by `gen attr -d %d`", i, attrs[i].Name, maxD))
		default:
			a, w := attrs[i], want[i]
			good := a.Name == w.name && a.Degree == w.degree
			// English name vs interval
			n, q, pok := specParseInterval(a.Degree)
			nameOK := pok && a.Name == fmt.Sprintf("%s%d", qualityNames[q], n)
			c.check(good && nameOK, "attribute.yml|"+w.name, "chord/attribute.yml", "",
				fmt.Sprintf("%s: %s", a.Name, a.Degree),
				fmt.Sprintf("entry %d is {%s: %q}; the generator gives {%s: %q}; the notation %q denotes %s %d", i, a.Name, a.Degree, w.name, w.degree, a.Degree, qualityNames[q], n))
		}
	}
}

// generateDegreesOrder extracts the quality order and loop shape of note.GenerateDegrees.
func (c *Ctx) generateDegreesOrder() []string {
	fd, p := c.astFunc("note", "GenerateDegrees")
	if fd == nil {
		c.missing("note.GenerateDegrees")
		return nil
	}
	var order []string
	ast.Inspect(fd.Body, func(n ast.Node) bool {
		cl, ok := n.(*ast.CompositeLit)
		if !ok || order != nil {
			return true
		}
		if t := p.TypesInfo.TypeOf(cl); t == nil || short(t.String()) != "[]note.DegreeName" {
			return true
		}
		v, err := c.eval(p, cl)
		if err != nil {
			return true
		}
		for _, e := range v.(*ListV).Elems {
			order = append(order, e.vstr())
		}
		return false
	})
	if order == nil {
		c.undec("note.GenerateDegrees|order", c.pos(fd.Pos()), "note.GenerateDegrees", "quality list literal not found")
		return nil
	}
	// loop shape: `for value := range maxDegree` (0..max-1) outer, qualities inner
	shapeOK := false
	ast.Inspect(fd.Body, func(n ast.Node) bool {
		rs, ok := n.(*ast.RangeStmt)
		if !ok {
			return true
		}
		if id, ok := rs.X.(*ast.Ident); ok && id.Name == fd.Type.Params.List[0].Names[0].Name {
			// inner range over the list
			ast.Inspect(rs.Body, func(m ast.Node) bool {
				if in, ok := m.(*ast.RangeStmt); ok {
					if _, ok := in.X.(*ast.Ident); ok {
						shapeOK = true
					}
				}
				return true
			})
		}
		return true
	})
	if !shapeOK {
		c.undec("note.GenerateDegrees|loops", c.pos(fd.Pos()), "note.GenerateDegrees", "expected `for value := range maxDegree { for _, name := range names {...} }`")
		return nil
	}
	c.ok("note.GenerateDegrees|order", c.pos(fd.Pos()), "note.GenerateDegrees", "numbers outer (0..max-1), qualities inner in the order "+strings.Join(order, " "))
	return order
}

// ---------------------------------------------------------------------------
// TAB-DIATONIC

func (c *Ctx) diatonicTables(fnName string) (major, minor []string, pos token.Pos, err error) {
	// first at the level of what callers see: Triads() / Sevenths() folded for a major and a minor scale (the notes stay
	// unknown, the names are what is read); wherever the name tables live and however they are handed to generate
	if api := c.fn("op", map[string]string{"triadNames": "DiatonicChorderImpl.Triads", "seventhNames": "DiatonicChorderImpl.Sevenths"}[fnName]); api != nil {
		// ... built the way callers build it: NewDiatonicChorder(NewScale(key)) for C and for Am, all folded in one
		// memory; besides the names, chord i must stand on note i of the scale
		if mj, okMj := c.diatonicThroughConstructor(api, "C"); okMj != nil {
			if mn, okMn := c.diatonicThroughConstructor(api, "Am"); okMn != nil {
				if c.diatonicViaAPI == nil {
					c.diatonicViaAPI = map[string]bool{}
				}
				c.diatonicViaAPI[fnName] = true
				if c.diatonicPaired == nil {
					c.diatonicPaired = map[string]bool{}
				}
				c.diatonicPaired[fnName] = *okMj && *okMn
				// ... in every supported key (a respelling of roots touches only the keys that hold E#, B#, Cb or Fb)
				for _, ks := range requiredKeys() {
					namesK, okK := c.diatonicThroughConstructor(api, ks)
					if okK != nil && !*okK {
						c.diatonicPaired[fnName] = false
					}
					// ... and the same names in every key of the mode: the qualities follow the scale degree, not the tonic
					if okK != nil && namesK != nil {
						want := mj
						if strings.HasSuffix(ks, "m") {
							want = mn
						}
						if strings.Join(namesK, " ") != strings.Join(want, " ") {
							if c.diatonicKeyProblem == nil {
								c.diatonicKeyProblem = map[string]string{}
							}
							if c.diatonicKeyProblem[fnName] == "" {
								c.diatonicKeyProblem[fnName] = fmt.Sprintf("in %s the chords are named [%s], in %s [%s]: the qualities of the diatonic chords depend on the tonic", ks, strings.Join(namesK, " "), map[bool]string{false: "C", true: "Am"}[strings.HasSuffix(ks, "m")], strings.Join(want, " "))
							}
						}
					}
				}
				return mj, mn, api.Pos(), nil
			}
		}
		fold := func(minor bool) []string {
			scale := &StructV{Fields: map[string]Val{"Key": &StructV{Fields: map[string]Val{"Minor": &CVal{V: constant.MakeBool(minor), T: types.Typ[types.Bool]}}}}}
			recv := fval{fields: map[string]fval{"scale": {cvptr: scale}}}
			r, err := c.newFolder().foldMethod(api, recv, nil)
			if err != nil || r.fields == nil {
				return nil
			}
			var out []string
			for i := 0; i < 7; i++ {
				e, ok := r.fields[fmt.Sprintf("#%d", i)]
				if !ok || e.fields == nil || e.fields["Name"].k == nil || e.fields["Name"].k.Kind() != constant.String {
					return nil
				}
				out = append(out, constant.StringVal(e.fields["Name"].k))
			}
			return out
		}
		if mj, mn := fold(false), fold(true); mj != nil && mn != nil {
			if c.diatonicViaAPI == nil {
				c.diatonicViaAPI = map[string]bool{}
			}
			c.diatonicViaAPI[fnName] = true
			return mj, mn, api.Pos(), nil
		}
	}
	fd, p := c.astFunc("op", "DiatonicChorderImpl."+fnName)
	if fd == nil {
		return nil, nil, 0, fmt.Errorf("op.DiatonicChorderImpl.%s not found", fnName)
	}
	pos = fd.Pos()
	// by folding the method for a major and a minor scale (tables, or names derived from one another)
	if sfn := c.fn("op", "DiatonicChorderImpl."+fnName); sfn != nil {
		fold := func(minor bool) []string {
			boolT := types.Typ[types.Bool]
			scale := &StructV{Fields: map[string]Val{"Key": &StructV{Fields: map[string]Val{"Minor": &CVal{V: constant.MakeBool(minor), T: boolT}}}}}
			recv := fval{fields: map[string]fval{"scale": {cvptr: scale}}}
			r, err := c.newFolder().foldCall(sfn, []fval{recv})
			if err != nil || r.fields == nil {
				return nil
			}
			var out []string
			for i := 0; i < 7; i++ {
				e, ok := r.fields[fmt.Sprintf("#%d", i)]
				if !ok || e.k == nil || e.k.Kind() != constant.String {
					return nil
				}
				out = append(out, constant.StringVal(e.k))
			}
			return out
		}
		if mj, mn := fold(false), fold(true); mj != nil && mn != nil {
			return mj, mn, pos, nil
		}
	}
	lit := func(rs *ast.ReturnStmt) []string {
		if rs == nil || len(rs.Results) != 1 {
			return nil
		}
		v, e := c.eval(p, rs.Results[0])
		if e != nil {
			return nil
		}
		lv, ok := v.(*ListV)
		if !ok {
			return nil
		}
		var out []string
		for _, el := range lv.Elems {
			s, _ := asStr(el)
			out = append(out, s)
		}
		return out
	}
	isMinorCond := func(e ast.Expr) (bool, bool) { // (isMinorTest, negated)
		neg := false
		e = ast.Unparen(e)
		if u, ok := e.(*ast.UnaryExpr); ok && u.Op == token.NOT {
			neg = true
			e = ast.Unparen(u.X)
		}
		if sel, ok := e.(*ast.SelectorExpr); ok && sel.Sel.Name == "Minor" {
			return true, neg
		}
		return false, false
	}
	for _, st := range fd.Body.List {
		switch s := st.(type) {
		case *ast.IfStmt:
			isM, neg := isMinorCond(s.Cond)
			if !isM {
				return nil, nil, pos, fmt.Errorf("branch condition is not the key's Minor flag")
			}
			var thenRet *ast.ReturnStmt
			for _, b := range s.Body.List {
				if r, ok := b.(*ast.ReturnStmt); ok {
					thenRet = r
				}
			}
			t := lit(thenRet)
			if neg {
				major = t
			} else {
				minor = t
			}
			if s.Else != nil {
				if blk, ok := s.Else.(*ast.BlockStmt); ok {
					for _, b := range blk.List {
						if r, ok := b.(*ast.ReturnStmt); ok {
							if neg {
								minor = lit(r)
							} else {
								major = lit(r)
							}
						}
					}
				}
			}
		case *ast.ReturnStmt:
			t := lit(s)
			if major == nil && minor != nil {
				major = t
			} else if minor == nil && major != nil {
				minor = t
			}
		}
	}
	if len(major) != 7 || len(minor) != 7 {
		return nil, nil, pos, fmt.Errorf("could not extract two seven-name tables selected by the key's Minor flag (got %d/%d names)", len(major), len(minor))
	}
	return major, minor, pos, nil
}

func ruleTabDiatonic(c *Ctx) {
	chords, attrs, ok := c.loadDictionaries()
	if !ok {
		return
	}
	attrSize := map[string]int{}
	for _, a := range attrs {
		if n, q, ok := specParseInterval(a.Degree); ok {
			if s, valid := specSize(n, q); valid {
				attrSize[a.Name] = s
			}
		}
	}
	byName := map[string]*yChord{}
	byKey := map[string]*yChord{} // name or display, like Builder.Build
	for i := range chords {
		byName[chords[i].Name] = &chords[i]
	}
	for i := range chords {
		byKey[chords[i].Name] = &chords[i]
		byKey[chords[i].Meta.Display] = &chords[i]
	}
	for _, tbl := range []struct {
		fn      string
		seventh bool
	}{{"triadNames", false}, {"seventhNames", true}} {
		major, minor, pos, err := c.diatonicTables(tbl.fn)
		if err != nil {
			c.undec("op.DiatonicChorderImpl."+tbl.fn, c.pos(pos), "op.DiatonicChorderImpl."+tbl.fn, err.Error())
			continue
		}
		if c.diatonicViaAPI[tbl.fn] {
			c.site(1)
			c.check(c.diatonicKeyProblem[tbl.fn] == "", "op."+tbl.fn+"|every-key", c.pos(pos), "op.DiatonicChorderImpl."+tbl.fn, "the same chord qualities in every key of a mode (folded through the constructor in all 28 keys)", "op.DiatonicChorderImpl."+tbl.fn+": "+c.diatonicKeyProblem[tbl.fn])
		}
		for _, mode := range []struct {
			minor bool
			names []string
			label string
		}{{false, major, "major"}, {true, minor, "minor"}} {
			for i, nm := range mode.names {
				c.site(1)
				key := fmt.Sprintf("op.%s|%s|%d", tbl.fn, mode.label, i+1)
				sym := strings.TrimPrefix(nm, "_")
				ch, ok := byKey[sym]
				if !ok {
					c.bad(key, c.pos(pos), "op.DiatonicChorderImpl."+tbl.fn, fmt.Sprintf("degree %d of the %s key is named %q, which the chord dictionary does not define", i+1, mode.label, nm))
					continue
				}
				got, err := resolveChord(ch.Name, byName, attrSize, map[string]bool{})
				if err != nil {
					c.bad(key, c.pos(pos), "op.DiatonicChorderImpl."+tbl.fn, err.Error())
					continue
				}
				want := specDiatonic(mode.minor, i, tbl.seventh)
				c.check(pcsetEqual(got, want), key, c.pos(pos), "op.DiatonicChorderImpl."+tbl.fn,
					fmt.Sprintf("%s degree %d: %q = %v", mode.label, i+1, nm, got),
					fmt.Sprintf("%s key, degree %d: %q sounds %v above its root, stacking thirds on the scale gives %v (a note outside the key, or the wrong quality)", mode.label, i+1, nm, got, want))
			}
		}
	}
	// pairing: generate indexes notes, names and result with one index
	gen := c.fn("op", "DiatonicChorderImpl.generate")
	if gen == nil && c.diatonicPaired != nil && len(c.diatonicPaired) == 2 {
		// there is no such helper (any more), and none is needed: decided on what Triads() / Sevenths() return
		if api := c.fn("op", "DiatonicChorderImpl.Triads"); api != nil {
			c.site(1)
			both := c.diatonicPaired["triadNames"] && c.diatonicPaired["seventhNames"]
			c.check(both, "op.DiatonicChorderImpl.generate|pairing", c.pos(api.Pos()), fname(api), "chord i of Triads() / Sevenths() stands on note i of the scale (folded in all keys)", "the diatonic chords are not paired with the scale degrees by position: chord i of Triads() / Sevenths() does not stand on note i of the scale")
			c.check(both, "op.DiatonicChorderImpl.generate|notes", c.pos(api.Pos()), fname(api), "the roots are the scale's notes (folded in all keys)", "the roots of the diatonic chords are not the scale's notes")
			return
		}
	}
	if gen == nil {
		c.missing("op.DiatonicChorderImpl.generate")
		return
	}
	idx := map[ssa.Value]bool{}
	n := 0
	allInstrs(gen, func(in ssa.Instruction) {
		switch x := in.(type) {
		case *ssa.IndexAddr:
			idx[x.Index] = true
			n++
		case *ssa.Index:
			idx[x.Index] = true
			n++
		}
	})
	c.site(1)
	if paired, decided := c.diatonicPaired["triadNames"], c.diatonicPaired != nil; decided && len(c.diatonicPaired) == 2 {
		// decided on what Triads() / Sevenths() return for C and Am: chord i stands on note i of the scale
		both := paired && c.diatonicPaired["seventhNames"]
		c.check(both, "op.DiatonicChorderImpl.generate|pairing", c.pos(gen.Pos()), fname(gen), "chord i of Triads() / Sevenths() stands on note i of the scale (folded for C and Am)", "the diatonic chords are not paired with the scale degrees by position: chord i of Triads() / Sevenths() does not stand on note i of the scale")
		c.check(both, "op.DiatonicChorderImpl.generate|notes", c.pos(gen.Pos()), fname(gen), "the roots are the scale's notes (folded for C and Am)", "the roots of the diatonic chords are not the scale's notes")
		return
	}
	c.check(n >= 3 && len(idx) == 1, "op.DiatonicChorderImpl.generate|pairing", c.pos(gen.Pos()), fname(gen), "scale note i, name i and result i use one index", fmt.Sprintf("generate indexes its arrays with %d different index values over %d accesses: names are no longer paired with scale degrees by position", len(idx), n))
	// the names come from the parameter, the notes from dc.scale.Notes
	okNotes := false
	allInstrs(gen, func(in ssa.Instruction) {
		if fa, ok := in.(*ssa.FieldAddr); ok {
			if nm, _, _ := fieldName(fa); nm == "Notes" {
				okNotes = true
			}
		}
	})
	c.check(okNotes, "op.DiatonicChorderImpl.generate|notes", c.pos(gen.Pos()), fname(gen), "roots are the scale's Notes", "generate no longer takes the chord roots from the scale's Notes")
}

// ---------------------------------------------------------------------------
// TAB-LEXNAMES

type lexTables struct {
	runeToken  map[rune]string // single-rune cases of ScanFunc -> token constant name
	casePos    map[rune]token.Pos
	exclFolded bool   // the two exclusion sets were decided by folding the predicates over lexRuneDomain
	symbolExcl string // runes that end a symbol
	metaExcl   string
	pos        token.Pos
}

// lexerRuneTable decides, for every candidate rune, which token LexScanner.ScanFunc returns when that rune is the
// next one in plain mode (neither a symbol nor metadata is expected), by constant folding: the reader's Peek() is the
// rune until something is consumed with Next(); every other reader call is unknown. A rune gets an entry only when the
// function folds all the way to a constant token, so switch cases, a rune -> token table or an if-chain look alike.
func (c *Ctx) lexerRuneTable(fn *ssa.Function) (map[rune]string, error) {
	g, err := c.grammar()
	if err != nil {
		return nil, err
	}
	_, byVal := c.tokenConsts(g)
	probes := map[rune]bool{'♯': true, '♭': true}
	for r := rune(0x21); r < 0x7f; r++ {
		probes[r] = true
	}
	// every integer constant and every key of a rune-keyed table the function mentions
	for _, f := range withClosures(fn) {
		allInstrs(f, func(in ssa.Instruction) {
			for _, op := range in.Operands(nil) {
				if k, ok := constInt(*op); ok && k > 0x20 && k < 0x110000 {
					probes[rune(k)] = true
				}
				if g, ok := (*op).(*ssa.Global); ok {
					if mv, ok := c.globalTable(g).cv.(*MapV); ok {
						for _, e := range mv.Entries {
							if k, ok := asInt(e.K); ok && k > 0x20 && k < 0x110000 {
								probes[rune(k)] = true
							}
						}
					}
				}
			}
		})
	}
	boolT := types.Typ[types.Bool]
	plain := &StructV{Fields: map[string]Val{
		"expectSymbol":   &CVal{V: constant.MakeBool(false), T: boolT},
		"expectMetadata": &CVal{V: constant.MakeBool(false), T: boolT},
	}}
	out := map[rune]string{}
	for r := range probes {
		f := c.newFolder()
		consumed, peeked, run := false, false, false
		f.invoke = func(call *ssa.Call, args []fval) (fval, bool) {
			switch call.Call.Method.Name() {
			case "Peek":
				if !consumed {
					peeked = true
					return fval{k: constant.MakeInt64(int64(r)), t: types.Typ[types.Rune]}, true
				}
			case "Next":
				if consumed {
					run = true
				}
				consumed = true
			default:
				// DiscardWhile and friends after the rune has been looked at: a multi-rune token (number, symbol, ...)
				if peeked {
					run = true
				}
			}
			return top, false
		}
		res, err := f.foldCall(fn, []fval{{cvptr: plain}, top})
		if err != nil || res.k == nil || res.k.Kind() != constant.Int || run {
			continue
		}
		v, _ := constant.Int64Val(res.k)
		if name, ok := byVal[v]; ok {
			out[r] = name
		} else if v == -1 {
			out[r] = "EOF"
		} else {
			out[r] = fmt.Sprintf("<%d>", v)
		}
	}
	return out, nil
}

// lexerTables extracts the rune -> token table of LexScanner.ScanFunc (by folding, see lexerRuneTable; the switch on
// r.Peek() is read syntactically only when folding yields nothing) and the run terminators.
func (c *Ctx) lexerTables() (*lexTables, error) {
	if c.lexTabs != nil || c.lexTabsErr != nil {
		return c.lexTabs, c.lexTabsErr
	}
	lt, err := c.lexerTablesUncached()
	c.lexTabs, c.lexTabsErr = lt, err
	return lt, err
}

func (c *Ctx) lexerTablesUncached() (*lexTables, error) {
	fd, p := c.astFunc("input/ast", "LexScanner.ScanFunc")
	if fd == nil {
		return nil, fmt.Errorf("input/ast.LexScanner.ScanFunc not found")
	}
	lt := &lexTables{runeToken: map[rune]string{}, casePos: map[rune]token.Pos{}, pos: fd.Pos()}
	found := false
	if sfn := c.fn("input/ast", "LexScanner.ScanFunc"); sfn != nil {
		if tab, err := c.lexerRuneTable(sfn); err == nil && len(tab) > 0 {
			found = true
			for r, tok := range tab {
				if tok == "EOF" {
					continue
				}
				lt.runeToken[r] = tok
				lt.casePos[r] = fd.Pos()
			}
		}
	}
	if !found {
		c.lexTablesFromSwitch(fd, p, lt, &found)
	}
	return c.lexerExclusions(lt, found)
}

func (c *Ctx) lexTablesFromSwitch(fd *ast.FuncDecl, p *packages.Package, lt *lexTables, foundp *bool) {
	found := false
	defer func() { *foundp = found }()
	ast.Inspect(fd.Body, func(n ast.Node) bool {
		sw, ok := n.(*ast.SwitchStmt)
		if !ok || sw.Tag == nil {
			return true
		}
		call, ok := sw.Tag.(*ast.CallExpr)
		if !ok {
			return true
		}
		if sel, ok := call.Fun.(*ast.SelectorExpr); !ok || sel.Sel.Name != "Peek" {
			return true
		}
		found = true
		for _, s := range sw.Body.List {
			cc := s.(*ast.CaseClause)
			tok := ""
			for _, b := range cc.Body {
				if rs, ok := b.(*ast.ReturnStmt); ok && len(rs.Results) == 1 {
					// return nextRet(TOKEN) | return TOKEN | return lex.ScanFunc(r)
					e := rs.Results[0]
					if call, ok := e.(*ast.CallExpr); ok && len(call.Args) == 1 {
						if tv := p.TypesInfo.Types[call.Args[0]]; tv.Value != nil {
							if id, ok := call.Args[0].(*ast.Ident); ok {
								tok = id.Name
							}
						} else {
							tok = "<recurse>"
						}
					} else if id, ok := e.(*ast.Ident); ok {
						tok = id.Name
					}
				}
			}
			for _, e := range cc.List {
				tv := p.TypesInfo.Types[e]
				if tv.Value == nil {
					continue
				}
				r, _ := constant.Int64Val(tv.Value)
				lt.runeToken[rune(r)] = tok
				lt.casePos[rune(r)] = e.Pos()
			}
		}
		return false
	})
}

func (c *Ctx) lexerExclusions(lt *lexTables, found bool) (*lexTables, error) {
	if !found {
		return nil, fmt.Errorf("ScanFunc neither folds to single-rune tokens nor has a switch on r.Peek()")
	}
	// exclusion strings of the symbol / metadata predicates
	for _, spec := range []struct {
		fn  string
		dst *string
	}{{"LexScanner.isSymbolRune", &lt.symbolExcl}, {"LexScanner.isMetadataRune", &lt.metaExcl}} {
		fn := c.fn("input/ast", spec.fn)
		if fn == nil {
			return nil, fmt.Errorf("input/ast.%s not found", spec.fn)
		}
		// by folding the predicate on every rune of the domain: the runes (other than end of input and white space) it refuses
		if set, ok := c.refusedRunes(fn); ok {
			*spec.dst = set
			lt.exclFolded = true
			continue
		}
		s, ok := c.containsRuneSet(fn, 0)
		if !ok {
			return nil, fmt.Errorf("%s: no strings.ContainsRune(<const>, r) found", spec.fn)
		}
		*spec.dst = s
	}
	return lt, nil
}

// containsRuneSet finds the constant string argument of strings.ContainsRune in fn or its repo callees.
func (c *Ctx) containsRuneSet(fn *ssa.Function, depth int) (string, bool) {
	if depth > 3 {
		return "", false
	}
	for _, ci := range callsIn(fn) {
		callee := staticCallee(ci.Common())
		if callee == nil {
			continue
		}
		if fname(callee) == "strings.ContainsRune" {
			if s, ok := constString(ci.Common().Args[0]); ok {
				return s, true
			}
		}
		if c.isRepoFunc(callee) {
			if s, ok := c.containsRuneSet(callee, depth+1); ok {
				return s, true
			}
		}
	}
	return "", false
}

func ruleTabLexnames(c *Ctx) {
	lt, err := c.lexerTables()
	if err != nil {
		c.undec("input/ast.lexer|tables", "", "", err.Error())
		return
	}
	// letters the printer emits
	if m, vname, _ := c.printedTable("note", "map[note.Name]string", "nameStringMap", "Name.String", "Name", "UnknownName"); m != nil {
		v := vname
		for _, e := range m.Entries {
			s, _ := asStr(e.V)
			c.site(1)
			rs := []rune(s)
			good := len(rs) == 1 && lt.runeToken[rs[0]] == "SYLLABLE"
			c.check(good, "lexer|letter|"+s, c.pos(e.Pos), "", "letter "+s+" lexes as SYLLABLE", fmt.Sprintf("the printer writes %q for a scale note (note.%s) but the lexer does not read it as one SYLLABLE", s, v))
		}
	}
	if m, v, _ := c.printedTable("op", "map[op.Accidental]string", "accidentalStringMap", "Accidental.String", "Accidental", "UnknownAccidental"); m != nil {
		want := map[string]string{"Sharp": "SHARP", "Flat": "FLAT"}
		for _, e := range m.Entries {
			s, _ := asStr(e.V)
			if s == "" {
				continue
			}
			c.site(1)
			rs := []rune(s)
			good := len(rs) == 1 && lt.runeToken[rs[0]] == want[e.K.vstr()]
			c.check(good, "lexer|accidental|"+e.K.vstr(), c.pos(e.Pos), "", fmt.Sprintf("%q lexes as %s", s, want[e.K.vstr()]), fmt.Sprintf("the printer writes %q for %s (op.%s) but the lexer reads it as %q, want %s", s, e.K.vstr(), v, lt.runeToken[rs[0]], want[e.K.vstr()]))
		}
	}
	// diatonic names
	for _, fn := range []string{"triadNames", "seventhNames"} {
		major, minor, pos, err := c.diatonicTables(fn)
		if err != nil {
			c.undec("op.DiatonicChorderImpl."+fn, c.pos(pos), "", err.Error())
			continue
		}
		for mi, names := range [][]string{major, minor} {
			for i, nm := range names {
				c.site(1)
				key := fmt.Sprintf("lexer|name|%s|%d|%d", fn, mi, i+1)
				under := strings.HasPrefix(nm, "_")
				body := strings.TrimPrefix(nm, "_")
				if body == "" {
					c.check(!under, key, c.pos(pos), "", "empty symbol", "name is a lone underscore: the lexer then expects a symbol and fails")
					continue
				}
				problem := ""
				for _, r := range body {
					if strings.ContainsRune(lt.symbolExcl, r) || unicode.IsSpace(r) {
						problem = fmt.Sprintf("rune %q ends a symbol run", r)
					}
				}
				first := []rune(body)[0]
				digit := first >= '0' && first <= '9'
				if !under {
					if tok, isCase := lt.runeToken[first]; isCase {
						problem = fmt.Sprintf("first rune %q is the single-rune token %s, so the name is not read as one SYMBOL", first, tok)
					}
					if digit {
						problem = "starts with a digit without `_`: the lexer reads a NUMBER, not a SYMBOL"
					}
				} else if !digit {
					// allowed by the grammar, but the property says `_` exactly where needed
					if _, isCase := lt.runeToken[first]; !isCase {
						problem = "`_` written where no digit follows (spelling is not canonical)"
					}
				}
				c.check(problem == "", key, c.pos(pos), "op.DiatonicChorderImpl."+fn, fmt.Sprintf("%q lexes as one SYMBOL", nm), fmt.Sprintf("diatonic chord name %q cannot be fed back to `text conv`: %s", nm, problem))
			}
		}
	}
	// DiatonicChord.String = note + name
	if fn := c.fn("op", "DiatonicChord.String"); fn != nil {
		calls := callsIn(fn)
		hasNote := false
		for _, ci := range calls {
			if n := calleeName(ci.Common()); n == "op.ScaleNote.String" || n == "op.ScaleNote.String" {
				hasNote = true
			}
		}
		c.check(hasNote, "op.DiatonicChord.String", c.pos(fn.Pos()), fname(fn), "prints scale note then name", "DiatonicChord.String no longer starts with the scale note's own printer")
	} else {
		c.missing("op.DiatonicChord.String")
	}
}

// ---------------------------------------------------------------------------
// TAB-DYNAMICS

func ruleTabDynamics(c *Ctx) {
	signs := []struct{ s, name string }{{"pp", "Pianissimo"}, {"p", "Piano"}, {"mp", "MezzoPiano"}, {"mf", "MezzoForte"}, {"f", "Forte"}, {"ff", "Fortissimo"}}
	if m, v, pos := c.mapTable("op", "map[string]op.DynamicSign", "stringDynamicSignMap"); m != nil {
		got := map[string]string{}
		for _, e := range m.Entries {
			s, _ := asStr(e.K)
			got[s] = e.V.vstr()
			c.site(1)
		}
		for _, sg := range signs {
			c.check(got[sg.s] == sg.name, "op."+v.Name()+"|"+sg.s, c.pos(pos), "", sg.s+" -> "+sg.name, fmt.Sprintf("dynamic %q denotes %q, want %s", sg.s, got[sg.s], sg.name))
		}
		for _, k := range sortedKeys(got) {
			known := false
			for _, sg := range signs {
				known = known || sg.s == k
			}
			if !known {
				c.bad("op."+v.Name()+"|"+k, c.pos(pos), "", fmt.Sprintf("unexpected dynamic sign %q", k))
			}
		}
		c.checkInjective("op."+v.Name(), m, pos)
	}
	// velocities: what DynamicSign.Velocity yields for each sign, whether it reads a table or computes a closed form
	got, pos, how := c.velocityBySign()
	if got == nil {
		c.undec("op.DynamicSign.Velocity", pos, "", how)
		return
	}
	prev := int64(0)
	for _, sg := range signs {
		c.site(1)
		n, ok := got[sg.name]
		key := "op.DynamicSign.Velocity|" + sg.name
		switch {
		case !ok || n == 0:
			c.bad(key, pos, "", sg.name+" has no velocity: notes under this dynamic are silent (velocity 0)")
		case n < 1 || n > 127:
			c.bad(key, pos, "", fmt.Sprintf("%s has velocity %d, outside 1..127", sg.name, n))
		case n <= prev:
			c.bad(key, pos, "", fmt.Sprintf("%s has velocity %d, not louder than the softer sign before it (%d)", sg.name, n, prev))
		default:
			c.ok(key, pos, "", fmt.Sprintf("%s = %d (%s)", sg.name, n, how))
		}
		if ok {
			prev = n
		}
	}
}

// velocityBySign evaluates op.DynamicSign.Velocity on every declared sign by constant folding (a table lookup and a
// closed form are treated alike); it falls back to reading the velocity table literal when the method does not fold.
func (c *Ctx) velocityBySign() (map[string]int64, string, string) {
	fn := c.fn("op", "DynamicSign.Velocity")
	enum := c.enumConsts("op", "DynamicSign")
	if fn != nil && len(enum) > 0 {
		got := map[string]int64{}
		okAll := true
		for name, k := range enum {
			r, err := c.newFolder().foldCall(fn, []fval{{k: constant.MakeInt64(k), t: fn.Params[0].Type()}})
			if err != nil || r.k == nil || r.k.Kind() != constant.Int {
				okAll = false
				break
			}
			n, _ := constant.Int64Val(r.k)
			got[name] = n
		}
		if okAll {
			return got, c.pos(fn.Pos()), "folded from DynamicSign.Velocity"
		}
	}
	m, v, pos := c.mapTable("op", "map[op.DynamicSign]op.Velocity", "dynamicSignVelocityMap")
	if m == nil {
		return nil, "", "DynamicSign.Velocity does not fold to constants and no velocity table literal was found"
	}
	got := map[string]int64{}
	for _, e := range m.Entries {
		n, _ := asInt(e.V)
		got[e.K.vstr()] = n
	}
	return got, c.pos(pos), "table " + v.Name()
}

// ---------------------------------------------------------------------------
// TAB-DEFAULTS

// initCall finds the initialiser call of a package variable: callee name and constant args.
func (c *Ctx) initCall(pkgrel, name string) (string, []constant.Value, []string, token.Pos, bool) {
	v := c.pkgVar(pkgrel, name)
	if v == nil {
		return "", nil, nil, 0, false
	}
	init, p := c.varInit(v)
	call, ok := init.(*ast.CallExpr)
	if !ok {
		return "", nil, nil, v.Pos(), false
	}
	var fnName string
	switch f := call.Fun.(type) {
	case *ast.SelectorExpr:
		if o := p.TypesInfo.Uses[f.Sel]; o != nil && o.Pkg() != nil {
			fnName = short(o.Pkg().Path()) + "." + o.Name()
		}
	case *ast.Ident:
		if o := p.TypesInfo.Uses[f]; o != nil && o.Pkg() != nil {
			fnName = short(o.Pkg().Path()) + "." + o.Name()
		}
	}
	var args []constant.Value
	var names []string
	for _, a := range call.Args {
		tv := p.TypesInfo.Types[a]
		args = append(args, tv.Value)
		if tv.Value != nil {
			names = append(names, c.constName(tv.Type, tv.Value))
		} else {
			names = append(names, "")
		}
	}
	return fnName, args, names, call.Pos(), true
}

func ruleTabDefaults(c *Ctx) {
	ci := func(v constant.Value) int64 {
		if v == nil {
			return -1
		}
		n, _ := constant.Int64Val(constant.ToInt(v))
		return n
	}
	// bpm
	if fn, args, _, pos, ok := c.initCall("play", "defaultBPM"); ok {
		c.site(1)
		c.check(fn == "op.NewBPM" && len(args) == 1 && ci(args[0]) == 100, "play.defaultBPM", c.pos(pos), "", "default tempo 100", fmt.Sprintf("default tempo is %s(%v), want op.NewBPM(100)", fn, args))
	} else {
		c.undec("play.defaultBPM", "", "", "initialiser is not a constructor call")
	}
	if fn, args, _, pos, ok := c.initCall("play", "defaultMeter"); ok {
		c.site(1)
		c.check(strings.HasSuffix(fn, "NewMeter") && len(args) == 2 && ci(args[0]) == 4 && ci(args[1]) == 4, "play.defaultMeter", c.pos(pos), "", "default meter 4/4", fmt.Sprintf("default meter is %s(%v), want 4/4", fn, args))
	} else {
		c.undec("play.defaultMeter", "", "", "initialiser is not a constructor call")
	}
	if fn, args, _, pos, ok := c.initCall("play", "defaultKey"); ok {
		c.site(1)
		s := ""
		if len(args) == 1 && args[0] != nil && args[0].Kind() == constant.String {
			s = constant.StringVal(args[0])
		}
		c.check(strings.HasSuffix(fn, "ParseKey") && s == "C", "play.defaultKey", c.pos(pos), "", "default key C", fmt.Sprintf("default key is %s(%q), want C", fn, s))
	} else {
		c.undec("play.defaultKey", "", "", "initialiser is not a ParseKey call")
	}
	// velocity: a sign that has a velocity
	if v := c.pkgVar("play", "defaultVelocity"); v != nil {
		val, pos, err := c.evalVar(v)
		c.site(1)
		if err != nil {
			c.undec("play.defaultVelocity", c.pos(v.Pos()), "", err.Error())
		} else {
			name := val.vstr()
			vel, _, _ := c.velocityBySign()
			has := vel[name] > 0
			c.check(has && name != "UnknownDynamicSign", "play.defaultVelocity", c.pos(pos), "", "default dynamic "+name+" has a velocity", fmt.Sprintf("default dynamic %s has no velocity row: notes before the first `velocity` are silent", name))
		}
	} else {
		c.missing("play.defaultVelocity")
	}
	// MiddleC = C4 natural
	if v := c.pkgVar("play", "MiddleC"); v != nil {
		val, pos, err := c.evalVar(v)
		c.site(1)
		if sv, ok := val.(*StructV); err == nil && ok {
			oct, _ := asInt(sv.Fields["Octave"])
			nm, acc := "", ""
			if f := sv.Fields["Name"]; f != nil {
				nm = f.vstr()
			}
			if f := sv.Fields["Accidental"]; f != nil {
				acc = f.vstr()
			}
			c.check(nm == "C" && oct == 4 && acc == "Natural", "play.MiddleC", c.pos(pos), "", "MiddleC = C4 natural", fmt.Sprintf("MiddleC is {%s %d %s}, want C4 natural", nm, oct, acc))
		} else if gv, st := c.foldedGlobal("play", "MiddleC"); gv.fields != nil && st != nil {
			// built by a constructor: the folded value of the variable
			get := func(f string) (string, int64) {
				fv := gv.fields[f]
				if fv.k == nil || fv.k.Kind() != constant.Int {
					return "?", -1
				}
				n, _ := constant.Int64Val(fv.k)
				for i := 0; i < st.NumFields(); i++ {
					if st.Field(i).Name() == f {
						return c.constName(st.Field(i).Type(), fv.k), n
					}
				}
				return "?", n
			}
			nm, _ := get("Name")
			_, oct := get("Octave")
			acc, _ := get("Accidental")
			c.check(nm == "C" && oct == 4 && acc == "Natural", "play.MiddleC", c.pos(v.Pos()), "", "MiddleC = C4 natural (folded initialiser)", fmt.Sprintf("MiddleC is {%s %d %s}, want C4 natural", nm, oct, acc))
		} else {
			c.undec("play.MiddleC", c.pos(v.Pos()), "", "neither a struct literal nor an initialiser that folds")
		}
	} else {
		c.missing("play.MiddleC")
	}
	// SPN.MIDINoteNumber = (Octave+1)*12 + name + accidental
	if fn := c.fn("play", "SPN.MIDINoteNumber"); fn != nil {
		c.site(1)
		rets := returnsOf(fn)
		if len(rets) == 1 {
			af := c.affine(fn, rets[0].Results[0])
			want := map[string]int64{
				"note.Octave.Semitone(p0.Octave+1)":       1,
				"note.Name.Semitone(p0.Name)":             1,
				"note.Accidental.Semitone(p0.Accidental)": 1,
			}
			c.check(af.equal(want, 0), "play.SPN.MIDINoteNumber", c.pos(fn.Pos()), fname(fn), "MIDI number = (octave+1) octaves + letter + accidental", "MIDI number is computed as "+af.String()+", want Octave.Semitone(s.Octave+1) + Name.Semitone(s.Name) + Accidental.Semitone(s.Accidental) (C4 = 60)")
		} else {
			c.undec("play.SPN.MIDINoteNumber", c.pos(fn.Pos()), fname(fn), "more than one return")
		}
	} else {
		c.missing("play.SPN.MIDINoteNumber")
	}
	// Octave.Semitone = o * 12
	if fn := c.fn("note", "Octave.Semitone"); fn != nil {
		c.site(1)
		rets := returnsOf(fn)
		good := false
		if len(rets) == 1 {
			af := c.affine(fn, rets[0].Results[0])
			good = af.equal(map[string]int64{"p0": 12}, 0)
			c.check(good, "note.Octave.Semitone", c.pos(fn.Pos()), fname(fn), "octave n = 12n semitones", "Octave.Semitone computes "+af.String()+", want 12*o")
		}
	} else {
		c.missing("note.Octave.Semitone")
	}
	// default bass
	if fn, args, names, pos, ok := c.initCall("op", "defaultChordBase"); ok {
		c.site(1)
		c.check(strings.HasSuffix(fn, "NewDegree") && len(args) == 2 && ci(args[0]) == 1 && names[1] == "PerfectDegree", "op.defaultChordBase", c.pos(pos), "", "default bass = perfect unison", fmt.Sprintf("default bass is %s(%v %v), want NewDegree(1, PerfectDegree)", fn, args, names))
	} else {
		c.undec("op.defaultChordBase", "", "", "initialiser is not a NewDegree call")
	}
	// NewChord: nil base -> defaultChordBase, else *base
	if fn := c.fn("op", "NewChord"); fn != nil {
		c.site(1)
		usesDefault := false
		allInstrs(fn, func(in ssa.Instruction) {
			if u, ok := in.(*ssa.UnOp); ok && u.Op == token.MUL {
				if g, ok := u.X.(*ssa.Global); ok && g.Name() == "defaultChordBase" {
					usesDefault = true
				}
			}
		})
		c.check(usesDefault, "op.NewChord|defaultBase", c.pos(fn.Pos()), fname(fn), "absent bass -> default", "NewChord no longer falls back to defaultChordBase when base is nil")
	}
	// metadata keys
	for _, kv := range []struct{ name, want string }{{"MetaTextKey", "txt"}, {"MetaLyricKey", "lic"}, {"MetaMarkerKey", "mrk"}, {"MetaBPMKey", "bpm"}, {"MetaVelocityKey", "vel"}, {"MetaMeterKey", "mtr"}, {"MetaKeyKey", "key"}} {
		k, pos, ok := c.constOf("input", kv.name)
		c.site(1)
		if !ok {
			c.missing("input." + kv.name)
			continue
		}
		c.check(constant.StringVal(k) == kv.want, "input."+kv.name, c.pos(pos), "", kv.want, fmt.Sprintf("metadata key %s is %s, documented as %q", kv.name, k.ExactString(), kv.want))
	}
	if k, pos, ok := c.constOf("midix", "DefaultTicksPerQuoaterNote"); ok {
		n, _ := constant.Int64Val(k)
		c.check(n > 0 && n < 32768, "midix.DefaultTicksPerQuoaterNote", c.pos(pos), "", fmt.Sprintf("%d ticks per quarter", n), fmt.Sprintf("ticks per quarter %d is not a valid metrical division (1..32767)", n))
	}
}

// ---------------------------------------------------------------------------
// TAB-REGEX

func (c *Ctx) regexPattern(pkgrel, name string) (string, token.Pos, bool) {
	_, args, _, pos, ok := c.initCall(pkgrel, name)
	if !ok || len(args) != 1 || args[0] == nil || args[0].Kind() != constant.String {
		return "", pos, false
	}
	return constant.StringVal(args[0]), pos, true
}

// captureSets: for a regex of the shape (class)(class?)(lit?)..., return per capture the set of strings it can match ("" included when optional).
func captureSets(pattern string) ([][]string, error) {
	sets, _, err := captureSetsAnchored(pattern)
	return sets, err
}

// captureSetsAnchored also reports whether the pattern is anchored at both ends (^...$).
func captureSetsAnchored(pattern string) ([][]string, bool, error) {
	re, err := syntax.Parse(pattern, syntax.Perl)
	if err != nil {
		return nil, false, err
	}
	anchored := false
	if re.Op == syntax.OpConcat && len(re.Sub) >= 2 && re.Sub[0].Op == syntax.OpBeginText && re.Sub[len(re.Sub)-1].Op == syntax.OpEndText {
		anchored = true
		inner := *re
		inner.Sub = re.Sub[1 : len(re.Sub)-1]
		if len(inner.Sub) == 1 {
			re = inner.Sub[0]
		} else {
			re = &inner
		}
	}
	sets, err := captureSets1(re)
	return sets, anchored, err
}

func captureSets1(re *syntax.Regexp) ([][]string, error) {
	var caps []*syntax.Regexp
	if re.Op == syntax.OpCapture {
		caps = []*syntax.Regexp{re}
	} else if re.Op == syntax.OpConcat {
		for _, s := range re.Sub {
			if s.Op != syntax.OpCapture {
				return nil, fmt.Errorf("top level has a non-capture element %s", s)
			}
			caps = append(caps, s)
		}
	} else {
		return nil, fmt.Errorf("not a concatenation of captures")
	}
	var out [][]string
	var set func(r *syntax.Regexp) ([]string, error)
	set = func(r *syntax.Regexp) ([]string, error) {
		switch r.Op {
		case syntax.OpCapture:
			return set(r.Sub[0])
		case syntax.OpCharClass:
			var ss []string
			for i := 0; i+1 < len(r.Rune); i += 2 {
				if r.Rune[i+1]-r.Rune[i] > 64 {
					return nil, fmt.Errorf("class too wide")
				}
				for x := r.Rune[i]; x <= r.Rune[i+1]; x++ {
					ss = append(ss, string(x))
				}
			}
			return ss, nil
		case syntax.OpLiteral:
			return []string{string(r.Rune)}, nil
		case syntax.OpQuest:
			s, err := set(r.Sub[0])
			if err != nil {
				return nil, err
			}
			return append([]string{""}, s...), nil
		case syntax.OpEmptyMatch:
			return []string{""}, nil
		case syntax.OpAlternate:
			var ss []string
			for _, sub := range r.Sub {
				s, err := set(sub)
				if err != nil {
					return nil, err
				}
				ss = append(ss, s...)
			}
			return ss, nil
		}
		return nil, fmt.Errorf("unsupported regex element %s", r)
	}
	for _, cp := range caps {
		s, err := set(cp)
		if err != nil {
			return nil, err
		}
		sort.Strings(s)
		out = append(out, s)
	}
	return out, nil
}

func ruleTabRegex(c *Ctx) {
	var letters, accs []string
	if m, _, _ := c.printedTable("note", "map[note.Name]string", "nameStringMap", "Name.String", "Name", "UnknownName"); m != nil {
		for _, e := range m.Entries {
			s, _ := asStr(e.V)
			letters = append(letters, s)
		}
	}
	sort.Strings(letters)
	if m, _, _ := c.printedTable("op", "map[op.Accidental]string", "accidentalStringMap", "Accidental.String", "Accidental", "UnknownAccidental"); m != nil {
		for _, e := range m.Entries {
			s, _ := asStr(e.V)
			accs = append(accs, s)
		}
	}
	sort.Strings(accs)
	minorMark := ""
	if k, _, ok := c.constOf("op", "minorKeyMark"); ok {
		minorMark = constant.StringVal(k)
	}
	for _, rx := range []struct {
		pkg, name string
		want      [][]string
	}{
		{"op", "keyRegex", [][]string{letters, accs, {"", minorMark}}},
		{"note", "noteRegex", [][]string{letters, {"", "#", "b"}}},
	} {
		c.site(1)
		key := rx.pkg + "." + rx.name
		if rx.name == "keyRegex" {
			// what ParseKey accepts, decided by folding it: the pattern (if there still is one) is how, not what
			if problem, n, ok := c.parseKeyByFolding(); ok {
				pos := token.NoPos
				if fn := c.fn("op", "ParseKey"); fn != nil {
					pos = fn.Pos()
				}
				c.check(problem == "", key+"|anchored", c.pos(pos), "", fmt.Sprintf("decided by folding ParseKey on %d spellings: nothing is accepted around the spelling", n), "op.ParseKey: "+problem)
				c.site(1)
				c.check(problem == "", key, c.pos(pos), "", fmt.Sprintf("decided by folding ParseKey on %d spellings: exactly what the printers produce is read", n), "op.ParseKey: "+problem)
				continue
			}
		}
		if rx.name == "noteRegex" {
			if problem, n, ok := c.parseNoteByFolding(); ok {
				pos := token.NoPos
				if fn := c.fn("note", "ParseNote"); fn != nil {
					pos = fn.Pos()
				}
				c.check(problem == "", key+"|anchored", c.pos(pos), "", fmt.Sprintf("decided by folding ParseNote on %d spellings: nothing is accepted around the spelling", n), "note.ParseNote: "+problem)
				c.site(1)
				c.check(problem == "", key, c.pos(pos), "", fmt.Sprintf("decided by folding ParseNote on %d spellings: exactly what the printers produce is read", n), "note.ParseNote: "+problem)
				continue
			}
		}
		pat, pos, ok := c.regexPattern(rx.pkg, rx.name)
		if !ok {
			c.undec(key, c.pos(pos), "", "pattern is not a constant passed to regexp.MustCompile")
			continue
		}
		sets, anchored, err := captureSetsAnchored(pat)
		if err != nil {
			c.undec(key, c.pos(pos), "", fmt.Sprintf("pattern %q: %v", pat, err))
			continue
		}
		c.check(anchored, key+"|anchored", c.pos(pos), "", "pattern is anchored at both ends: nothing is accepted around the spelling", fmt.Sprintf("pattern %q is not anchored (^...$): the parser takes the first match anywhere in the text and ignores the rest, so `Cmaj` is read as the key C minor and `xCm` as Cm — nonsense is silently turned into a different key/note instead of being refused", pat))
		good := len(sets) == len(rx.want)
		for i := 0; good && i < len(sets); i++ {
			w := append([]string{}, rx.want[i]...)
			sort.Strings(w)
			good = strings.Join(sets[i], "|") == strings.Join(w, "|")
		}
		c.check(good, key, c.pos(pos), "", fmt.Sprintf("%q accepts %v", pat, sets), fmt.Sprintf("pattern %q accepts %v, the printers produce %v: a printed value would not read back (or a spelling nothing prints is accepted)", pat, sets, rx.want))
	}
}

// ---------------------------------------------------------------------------
// TAB-SEARCH

func ruleTabSearch(c *Ctx) {
	fn := c.fn("op", "ScaleNote.GetDegree")
	if fn == nil {
		c.missing("op.ScaleNote.GetDegree")
		return
	}
	cdn := c.enumConsts("note", "CoerceDegreeName")
	name := map[int64]string{}
	for k, v := range cdn {
		name[v] = k
	}
	need := []string{"MajorOrPerfectCoerceDegree", "MinorOrDiminishedCoerceDegree", "AugmentedCoerceDegree"}
	n := 0
	// decided on the whole domain by folding (21 x 21 spellings x both orders): which lists the search walks, and where
	// they are written down, no longer matters
	calls := callsIn(fn)
	if problem, cnt, ok := c.scaleDegreeByFolding(fn); ok && problem == "" {
		for i := 0; i < 2; i++ {
			c.site(1)
			c.ok(fmt.Sprintf("op.ScaleNote.GetDegree|search|%d", i), c.pos(fn.Pos()), fname(fn), fmt.Sprintf("decided by folding GetDegree on %d calls: every searched class is found", cnt))
		}
		calls = nil
	}
	for _, ci := range calls {
		// a call (of a local closure or of a helper) that is handed a list of notation classes to search
		args := ci.Common().Args
		if len(args) == 0 {
			continue
		}
		if st, ok := args[len(args)-1].Type().Underlying().(*types.Slice); !ok || typeName(st.Elem()) != "note.CoerceDegreeName" {
			continue
		}
		list, ok := variadicConsts(args[len(args)-1])
		if !ok {
			c.undec(fmt.Sprintf("op.ScaleNote.GetDegree|search|%d", n), c.pos(ci.Pos()), fname(fn), "quality list is not a literal of constants")
			n++
			continue
		}
		c.site(1)
		var names []string
		has := map[string]bool{}
		for _, v := range list {
			names = append(names, name[v])
			has[name[v]] = true
		}
		missing := []string{}
		for _, w := range need {
			if !has[w] {
				missing = append(missing, w)
			}
		}
		c.check(len(missing) == 0, fmt.Sprintf("op.ScaleNote.GetDegree|search|%d", n), c.pos(ci.Pos()), fname(fn), fmt.Sprintf("search list %v", names), fmt.Sprintf("quality search list %v lacks %v: diatonic notes of some keys (or tritone basses) become errors", names, missing))
		n++
	}
	// Tendency
	t := c.fn("op", "Accidental.Tendency")
	if t == nil {
		c.missing("op.Accidental.Tendency")
		return
	}
	acc := c.enumConsts("op", "Accidental")
	c.site(1)
	bad := []string{}
	wantT := func(a, x string) string {
		switch {
		case a == "UnknownAccidental" || x == "UnknownAccidental":
			return "UnknownAccidental"
		case a == x:
			return "Natural"
		case a == "Natural":
			return x
		default:
			return a
		}
	}
	accName := map[int64]string{}
	for k, v := range acc {
		accName[v] = k
	}
	for _, a := range sortedKeys(acc) {
		for _, x := range sortedKeys(acc) {
			r, err := c.newFolder().foldCall(t, []fval{{k: constant.MakeInt64(acc[a]), t: t.Params[0].Type()}, {k: constant.MakeInt64(acc[x]), t: t.Params[1].Type()}})
			if err != nil || r.k == nil {
				c.undec("op.Accidental.Tendency|"+a+"|"+x, c.pos(t.Pos()), fname(t), fmt.Sprintf("does not fold: %v", err))
				return
			}
			g, _ := constant.Int64Val(r.k)
			if accName[g] != wantT(a, x) {
				bad = append(bad, fmt.Sprintf("Tendency(%s,%s)=%s want %s", a, x, accName[g], wantT(a, x)))
			}
		}
	}
	c.check(len(bad) == 0, "op.Accidental.Tendency", c.pos(t.Pos()), fname(t), "16 (scale accidental, written accidental) pairs fold to the documented result; Unknown only for Unknown inputs", strings.Join(bad, "; "))
}

// variadicConsts: v is `slice t[:]` of a fresh array whose elements are stored constants.
func variadicConsts(v ssa.Value) ([]int64, bool) {
	sl, ok := v.(*ssa.Slice)
	if !ok {
		return nil, false
	}
	alloc, ok := sl.X.(*ssa.Alloc)
	if !ok {
		return nil, false
	}
	vals := map[int64]int64{}
	for _, r := range *alloc.Referrers() {
		ia, ok := r.(*ssa.IndexAddr)
		if !ok {
			continue
		}
		idx, ok := constInt(ia.Index)
		if !ok {
			return nil, false
		}
		for _, rr := range *ia.Referrers() {
			if st, ok := rr.(*ssa.Store); ok {
				k, ok := constInt(st.Val)
				if !ok {
					return nil, false
				}
				vals[idx] = k
			}
		}
	}
	out := make([]int64, len(vals))
	for i := range out {
		v, ok := vals[int64(i)]
		if !ok {
			return nil, false
		}
		out[i] = v
	}
	return out, true
}

var _ = packages.NeedName

// attrNamePrefixes evaluates, for every note.DegreeName constant, the name prefix chord.GenerateAttributes gives to
// attributes of that quality: the (prefix, ok) source feeding its Sprintf("%s%d", ...) is either a lookup in an immutable
// table or a call of a repo function of the quality; both are folded on each constant. Qualities without a prefix are absent.
func (c *Ctx) attrNamePrefixes() (map[string]string, string, string) {
	fn := c.fn("chord", "GenerateAttributes")
	if fn == nil {
		return nil, "", "chord.GenerateAttributes not found"
	}
	pos := c.pos(fn.Pos())
	var src ssa.Value
	for _, f := range withClosures(fn) {
		for _, ci := range callsTo(f, "fmt.Sprintf") {
			if s, ok := constString(ci.Common().Args[0]); ok && s == "%s%d" {
				vals := variadicValues(ci.Common().Args[1])
				if len(vals) == 2 {
					if ex, ok := stripConv(vals[0]).(*ssa.Extract); ok && ex.Index == 0 {
						src = ex.Tuple
					}
				}
			}
		}
		// or plain concatenation: prefix + <number as decimal text>
		allInstrs(f, func(in ssa.Instruction) {
			b, ok := in.(*ssa.BinOp)
			if !ok || b.Op != token.ADD || src != nil {
				return
			}
			if bt, ok := b.Type().Underlying().(*types.Basic); !ok || bt.Info()&types.IsString == 0 {
				return
			}
			ex, ok := b.X.(*ssa.Extract)
			if !ok || ex.Index != 0 {
				return
			}
			if call, ok := b.Y.(*ssa.Call); ok {
				switch calleeName(&call.Call) {
				case "strconv.FormatUint", "strconv.Itoa", "strconv.FormatInt":
					src = ex.Tuple
				}
			}
		})
	}
	if src == nil {
		return nil, pos, "the prefix of fmt.Sprintf(\"%s%d\", prefix, number) is not result #0 of a table lookup or of a function of the quality"
	}
	enum := c.enumConsts("note", "DegreeName")
	out := map[string]string{}
	how := ""
	for name, k := range enum {
		var r fval
		kv := fval{k: constant.MakeInt64(k)}
		switch x := src.(type) {
		case *ssa.Lookup:
			ld, ok := x.X.(*ssa.UnOp)
			if !ok {
				return nil, pos, "the prefix table is not a package-level variable"
			}
			g, ok := ld.X.(*ssa.Global)
			if !ok {
				return nil, pos, "the prefix table is not a package-level variable"
			}
			how = "table " + g.Name()
			r = foldLookup(x, c.globalTable(g), kv)
		case *ssa.Call:
			callee := staticCallee(&x.Call)
			if callee == nil || !c.isRepoFunc(callee) || len(callee.Params) != 1 {
				return nil, pos, "the prefix does not come from a repo function of the quality"
			}
			how = "function " + fname(callee)
			kv.t = callee.Params[0].Type()
			var err error
			r, err = c.newFolder().foldCall(callee, []fval{kv})
			if err != nil {
				return nil, pos, fmt.Sprintf("%s does not fold for %s: %v", fname(callee), name, err)
			}
		default:
			return nil, pos, "unrecognised source of the attribute name prefix"
		}
		if len(r.tuple) != 2 || r.tuple[1].k == nil || r.tuple[1].k.Kind() != constant.Bool {
			return nil, pos, "the prefix source does not fold to (string, bool) for " + name
		}
		if !constant.BoolVal(r.tuple[1].k) {
			continue
		}
		if r.tuple[0].k == nil || r.tuple[0].k.Kind() != constant.String {
			return nil, pos, "the prefix for " + name + " is not a constant string"
		}
		out[name] = constant.StringVal(r.tuple[0].k)
	}
	return out, pos, how
}

// foldedGlobal: the folded value of an immutable package-level variable and, when it is a struct, its struct type.
func (c *Ctx) foldedGlobal(pkgrel, name string) (fval, *types.Struct) {
	sp := c.ssapkg(pkgrel)
	if sp == nil {
		return top, nil
	}
	g := sp.Var(name)
	if g == nil {
		return top, nil
	}
	st, _ := g.Type().(*types.Pointer).Elem().Underlying().(*types.Struct)
	return c.globalTable(g), st
}

// forwardedTarget: the function a folded function value ends up running. A closure whose body only hands its arguments
// (and captured values) on to one captured function value - `func(k Key) (..) { return convert(c, k) }` - runs that
// function; anything else runs itself.
func forwardedTarget(v fval) *ssa.Function {
	fn := v.fn
	for depth := 0; fn != nil && depth < 4; depth++ {
		if len(fn.FreeVars) == 0 || len(v.bind) != len(fn.FreeVars) || len(fn.Blocks) != 1 {
			return fn
		}
		var calls []*ssa.Call
		for _, in := range fn.Blocks[0].Instrs {
			if call, ok := in.(*ssa.Call); ok {
				calls = append(calls, call)
			}
		}
		if len(calls) != 1 {
			return fn
		}
		// the callee: a captured variable (loaded from its cell)
		callee := calls[0].Call.Value
		if ld, ok := callee.(*ssa.UnOp); ok && ld.Op == token.MUL {
			callee = ld.X
		}
		fv, ok := callee.(*ssa.FreeVar)
		if !ok {
			return fn
		}
		var bound fval
		for i, x := range fn.FreeVars {
			if x == fv {
				bound = v.bind[i]
			}
		}
		// a captured variable is a cell in the memory of the frame that made the closure
		if bound.addr != nil && len(bound.addr.path) == 0 && v.heap != nil {
			bound = v.heap[bound.addr.base]
		}
		if bound.fn == nil {
			return fn
		}
		v, fn = bound, bound.fn
	}
	return fn
}

type yieldedDegree struct {
	name string
	n    int
}

// generateDegreesByFolding folds note.GenerateDegrees(maxD) and then the iterator it returns, standing in for `yield`
// with a function that records its argument and asks for more.
func (c *Ctx) generateDegreesByFolding(maxD int64) ([]yieldedDegree, bool) {
	fn := c.fn("note", "GenerateDegrees")
	if fn == nil || len(fn.Params) != 1 {
		return nil, false
	}
	dnames := c.enumConsts("note", "DegreeName")
	nameOf := map[int64]string{}
	for k, v := range dnames {
		nameOf[v] = k
	}
	fd := c.newFolder()
	fd.maxSteps = 200000
	it, err := fd.foldCall(fn, []fval{{k: constant.MakeInt64(maxD), t: fn.Params[0].Type()}})
	if err != nil || it.fn == nil || len(it.fn.Params) != 1 {
		return nil, false
	}
	var out []yieldedDegree
	okAll := true
	fd.dyn = func(call *ssa.Call, args []fval) (fval, bool) {
		if len(args) != 1 || args[0].fields == nil || args[0].fields["Name"].k == nil || args[0].fields["Value"].k == nil {
			okAll = false
			return top, false
		}
		q, _ := constant.Int64Val(args[0].fields["Name"].k)
		n, _ := constant.Int64Val(args[0].fields["Value"].k)
		out = append(out, yieldedDegree{nameOf[q], int(n)})
		return fval{k: constant.MakeBool(true), t: types.Typ[types.Bool]}, true
	}
	if _, err := fd.foldCallEnv(it.fn, []fval{top}, it.bind, it.heap); err != nil || !okAll {
		if os.Getenv("CRDCHECK_DEBUG") != "" {
			fmt.Fprintf(os.Stderr, "generateDegreesByFolding: %v (recorded %d)\n", err, len(out))
		}
		return nil, false
	}
	return out, true
}

// lexRuneDomain: the runes the lexer's predicates are folded on: end of input, everything below U+0300 and a sample of
// what lies beyond (Unicode spaces, the musical signs, a byte order mark, a fullwidth digit, an astral character).
func lexRuneDomain() []rune {
	out := []rune{-1}
	for r := rune(0); r < 0x300; r++ {
		out = append(out, r)
	}
	for r := rune(0x2000); r <= 0x200f; r++ {
		out = append(out, r)
	}
	return append(out, 0x2028, 0x2029, 0x202f, 0x205f, 0x3000, 0x266d, 0x266e, 0x266f, 0xfeff, 0xfffd, 0xff10, 0x1f3b5, 0x10ffff)
}

// refusedRunes folds a rune predicate of the lexer (is this rune part of a symbol / of a metadata text) on lexRuneDomain
// and returns the runes it refuses besides end of input and Unicode white space; ok=false when it does not fold, or
// when it accepts end of input (the loop that uses it would not end).
func (c *Ctx) refusedRunes(fn *ssa.Function) (string, bool) {
	if len(fn.Params) == 0 {
		return "", false
	}
	var refused []rune
	for _, r := range lexRuneDomain() {
		args := []fval{{k: constant.MakeInt64(int64(r)), t: types.Typ[types.Rune]}}
		if len(fn.Params) == 2 {
			args = append([]fval{top}, args...)
		}
		v, err := c.newFolder().foldCall(fn, args)
		if err != nil || v.k == nil || v.k.Kind() != constant.Bool {
			return "", false
		}
		if !constant.BoolVal(v.k) && r >= 0 && !unicode.IsSpace(r) {
			refused = append(refused, r)
		}
	}
	return string(refused), true
}

// diatonicThroughConstructor folds op.NewScale on the key, op.NewDiatonicChorder on that scale and the given method
// (Triads / Sevenths) on that chorder, all in one memory. It returns the seven names and whether chord i stands on
// note i of the scale; nil, nil when something does not fold.
func (c *Ctx) diatonicThroughConstructor(api *ssa.Function, key string) ([]string, *bool) {
	newScale, ctor := c.fn("op", "NewScale"), c.fn("op", "NewDiatonicChorder")
	if newScale == nil || ctor == nil || len(api.Params) != 1 {
		return nil, nil
	}
	names := c.enumConsts("note", "Name")
	accs := c.enumConsts("op", "Accidental")
	accName := "Natural"
	switch strings.TrimSuffix(key[1:], "m") {
	case "#":
		accName = "Sharp"
	case "b":
		accName = "Flat"
	}
	kv := fval{fields: map[string]fval{"Name": {k: constant.MakeInt64(names[key[:1]])}, "Accidental": {k: constant.MakeInt64(accs[accName])}, "Minor": {k: constant.MakeBool(strings.HasSuffix(key, "m"))}}}
	fd := c.newFolder()
	fd.maxSteps = 40000
	fd.maxDepth = 10
	sr, err := fd.foldCall(newScale, []fval{kv})
	if err != nil || len(sr.tuple) != 2 || !sr.tuple[1].isNil {
		return nil, nil
	}
	heap := fd.heap
	scaleBefore := fd.describeDeep(sr.tuple[0], 0)
	fd.steps = 0
	cr, err := fd.foldCallEnv(ctor, []fval{sr.tuple[0]}, nil, heap)
	if err != nil || !cr.known() {
		return nil, nil
	}
	recv := cr
	if _, isPtr := api.Params[0].Type().Underlying().(*types.Pointer); !isPtr {
		recv = fd.deref(cr)
		if !recv.known() {
			return nil, nil
		}
	}
	fd.steps = 0
	r, err := fd.foldCallEnv(api, []fval{recv}, nil, heap)
	if err != nil || r.fields == nil {
		if os.Getenv("CRDCHECK_DEBUG") != "" {
			fmt.Fprintf(os.Stderr, "diatonicThroughConstructor(%s, %s): does not fold: %v %s\n", fname(api), key, err, r.String())
		}
		return nil, nil
	}
	scale := fd.deref(sr.tuple[0])
	if scale.fields == nil || scale.fields["Notes"].fields == nil {
		return nil, nil
	}
	var out []string
	paired := true
	// ... of the scale as NewScale made it: building the chords does not rewrite the scale's notes
	if before := scaleBefore; before != fd.describeDeep(sr.tuple[0], 0) {
		paired = false
	}
	for i := 0; i < 7; i++ {
		e, ok := r.fields[fmt.Sprintf("#%d", i)]
		if !ok || e.fields == nil || e.fields["Name"].k == nil || e.fields["Name"].k.Kind() != constant.String {
			return nil, nil
		}
		out = append(out, constant.StringVal(e.fields["Name"].k))
		got, want := fd.deref(e.fields["Note"]), fd.deref(scale.fields["Notes"].fields[fmt.Sprintf("#%d", i)])
		if got.fields == nil || want.fields == nil || got.fields["Name"].k == nil || want.fields["Name"].k == nil || got.fields["Accidental"].k == nil || want.fields["Accidental"].k == nil {
			return nil, nil
		}
		if !constant.Compare(got.fields["Name"].k, token.EQL, want.fields["Name"].k) || !constant.Compare(got.fields["Accidental"].k, token.EQL, want.fields["Accidental"].k) {
			paired = false
		}
	}
	return out, &paired
}

type generatedAttr struct {
	name    string
	quality string
	n       int
}

// generateAttributesByFolding folds chord.GenerateAttributes on the bound of the go:generate directive and returns the
// attributes it gives (name, and the quality and number of the interval each carries).
// generateAttributesAtBounds: GenerateAttributes(0) and (1) - what `crd gen attr -d 0` and `-d 1` ask for - give an
// empty list and do not panic ("" when fine or when nothing can be said).
func (c *Ctx) generateAttributesAtBounds() string {
	fn := c.fn("chord", "GenerateAttributes")
	if fn == nil || len(fn.Params) != 1 {
		return ""
	}
	for _, d := range []int64{0, 1} {
		fd := c.newFolder()
		fd.maxSteps = 100000
		fd.maxDepth = 10
		r, err := fd.foldCall(fn, []fval{{k: constant.MakeInt64(d), t: fn.Params[0].Type()}})
		if err != nil && strings.Contains(err.Error(), "panics: ") {
			return fmt.Sprintf("GenerateAttributes(%d) %s: `crd gen attr -d %d` crashes instead of printing an empty list", d, err.Error()[strings.Index(err.Error(), "panics: "):], d)
		}
		if err == nil {
			if l, ok := r.cv.(*ListV); ok && len(l.Elems) != 0 && d == 0 {
				return fmt.Sprintf("GenerateAttributes(0) gives %d attributes", len(l.Elems))
			}
		}
	}
	return ""
}

func (c *Ctx) generateAttributesByFolding(maxD int64) ([]generatedAttr, bool) {
	fn := c.fn("chord", "GenerateAttributes")
	if fn == nil || len(fn.Params) != 1 {
		return nil, false
	}
	dnames := c.enumConsts("note", "DegreeName")
	nameOf := map[int64]string{}
	for k, v := range dnames {
		nameOf[v] = k
	}
	fd := c.newFolder()
	fd.maxSteps = 400000
	fd.maxDepth = 10
	r, err := fd.foldCall(fn, []fval{{k: constant.MakeInt64(maxD), t: fn.Params[0].Type()}})
	l, isList := r.cv.(*ListV)
	if err == nil && !isList && r.sl != nil {
		// a slice over the fold's memory (preallocated with make): read its elements
		if es, ok := fd.sliceElems(r, fd.heap); ok {
			l, isList = &ListV{}, true
			for _, e := range es {
				ev, ok := toVal(e, fn.Signature.Results().At(0).Type().Underlying().(*types.Slice).Elem(), c)
				if !ok {
					isList = false
					break
				}
				l.Elems = append(l.Elems, ev)
			}
		}
	}
	if err != nil || !isList {
		if os.Getenv("CRDCHECK_DEBUG") != "" {
			fmt.Fprintf(os.Stderr, "generateAttributesByFolding: %v %s\n", err, r.String())
		}
		return nil, false
	}
	var out []generatedAttr
	for _, e := range l.Elems {
		sv, ok := e.(*StructV)
		if !ok {
			return nil, false
		}
		nm, ok1 := asStr(sv.Fields["Name"])
		dv, ok2 := sv.Fields["Degree"].(*StructV)
		if !ok1 || !ok2 {
			return nil, false
		}
		qv, okq := dv.Fields["Name"].(*CVal)
		nv, okn := dv.Fields["Value"].(*CVal)
		if !okq || !okn {
			return nil, false
		}
		q, _ := constant.Int64Val(qv.V)
		n, _ := constant.Int64Val(nv.V)
		out = append(out, generatedAttr{nm, nameOf[q], int(n)})
	}
	return out, true
}

// generateAttributesDecided: chord.GenerateAttributes folds on the go:generate bound and gives one attribute per yielded
// interval of a named quality, in order, named <prefix><number> and carrying that interval (the check of TAB-ATTRS,
// recomputed when WIRE runs without it).
func (c *Ctx) generateAttributesDecided() bool {
	if c.genAttrsFolded {
		return true
	}
	gen, ok := c.generateAttributesByFolding(20)
	yielded, folded := c.generateDegreesByFolding(20)
	if !ok || !folded {
		return false
	}
	named := map[string]bool{}
	for _, g := range gen {
		named[g.quality] = true
	}
	i := 0
	for _, y := range yielded {
		if !named[y.name] {
			continue
		}
		if i >= len(gen) || gen[i].quality != y.name || gen[i].n != y.n || !strings.HasSuffix(gen[i].name, fmt.Sprint(y.n)) {
			return false
		}
		i++
	}
	c.genAttrsFolded = i == len(gen)
	return c.genAttrsFolded
}
