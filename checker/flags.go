package main

// FLAGS: every flag getter reads a flag that is visible on the command it runs for
// (defined on that command or as a persistent flag of an ancestor) with the same type.

import (
	"fmt"
	"go/token"
	"sort"
	"strings"

	"golang.org/x/tools/go/ssa"
)

type cobraModel struct {
	c       *Ctx
	fns     []*ssa.Function
	cmdOf   map[ssa.Value]string     // alloc of a cobra.Command literal -> global name
	handler map[*ssa.Function]string // RunE-like closure -> command global
	persist map[*ssa.Function]bool   // closure stored in a Persistent* hook
	parent  map[string]string        // child -> parent
	all     []string                 // all command globals
	callers map[*ssa.Function][]ssa.CallInstruction
	args    map[string]string // command global -> its positional-argument validator ("NoArgs", "MaximumNArgs(1)", ...)
}

func (c *Ctx) buildCobraModel() *cobraModel {
	m := &cobraModel{c: c, cmdOf: map[ssa.Value]string{}, handler: map[*ssa.Function]string{}, persist: map[*ssa.Function]bool{},
		parent: map[string]string{}, callers: map[*ssa.Function][]ssa.CallInstruction{}, args: map[string]string{}}
	pkg := c.ssapkg("cmd")
	if pkg == nil {
		return nil
	}
	for _, mem := range pkg.Members {
		if fn, ok := mem.(*ssa.Function); ok {
			m.fns = append(m.fns, withClosures(fn)...)
		}
	}
	sort.Slice(m.fns, func(i, j int) bool { return fname(m.fns[i]) < fname(m.fns[j]) })
	isCmdType := func(v ssa.Value) bool { return strings.HasSuffix(typeName(v.Type()), "cobra.Command") }
	for _, fn := range m.fns {
		allInstrs(fn, func(in ssa.Instruction) {
			if st, ok := in.(*ssa.Store); ok {
				if g, ok := st.Addr.(*ssa.Global); ok && isCmdType(st.Val) {
					m.cmdOf[st.Val] = g.Name()
					m.all = append(m.all, g.Name())
				}
			}
			if ci, ok := in.(ssa.CallInstruction); ok {
				if callee := staticCallee(ci.Common()); callee != nil {
					m.callers[callee] = append(m.callers[callee], ci)
				}
			}
		})
	}
	// a getter handed to a helper as a function value and called there: the helper's call of its parameter is a call of
	// the getter (instantiations of generic helpers are reached through their call sites)
	{
		seenFn := map[*ssa.Function]bool{}
		var helpers []*ssa.Function
		for callee := range m.callers {
			if !seenFn[callee] && len(callee.Blocks) > 0 && c.isRepoFunc(callee) {
				seenFn[callee] = true
				helpers = append(helpers, callee)
			}
		}
		sort.Slice(helpers, func(i, j int) bool { return fname(helpers[i]) < fname(helpers[j]) })
		for _, h := range helpers {
			allInstrs(h, func(in ssa.Instruction) {
				ci, ok := in.(ssa.CallInstruction)
				if !ok || ci.Common().IsInvoke() {
					return
				}
				p, ok := ci.Common().Value.(*ssa.Parameter)
				if !ok || p.Parent() != h {
					return
				}
				idx := -1
				for i, q := range h.Params {
					if q == p {
						idx = i
					}
				}
				for _, site := range m.callers[h] {
					args := site.Common().Args
					if idx < 0 || idx >= len(args) {
						continue
					}
					v := args[idx]
					for {
						if ct, ok := v.(*ssa.ChangeType); ok {
							v = ct.X
							continue
						}
						break
					}
					if f, ok := v.(*ssa.Function); ok {
						m.callers[f] = append(m.callers[f], ci)
					}
				}
			})
		}
	}
	sort.Strings(m.all)
	for _, fn := range m.fns {
		allInstrs(fn, func(in ssa.Instruction) {
			st, ok := in.(*ssa.Store)
			if !ok {
				return
			}
			name, base, ok := fieldName(st.Addr)
			if !ok {
				return
			}
			g, isCmd := m.cmdOf[base]
			if !isCmd {
				return
			}
			if name == "Args" {
				switch x := st.Val.(type) {
				case *ssa.Function:
					m.args[g] = x.Name()
				case *ssa.Call:
					d := x.Call.Value.Name()
					if callee := staticCallee(&x.Call); callee != nil {
						d = callee.Name()
					}
					for _, a := range x.Call.Args {
						if k, ok := constInt(a); ok {
							d += fmt.Sprintf("(%d)", k)
						}
					}
					m.args[g] = d
				default:
					m.args[g] = "?"
				}
			}
			if f := funcOfValue(st.Val); f != nil {
				if strings.Contains(f.Name(), "$") {
					funcAlias[f] = "cmd." + g + "." + name
				} else if _, has := funcAlias[f]; !has && f.Parent() == nil && f.Object() != nil && !f.Object().Exported() && f.Signature.Recv() == nil {
					// a named function installed as the hook is that hook, whatever it is called
					switch name {
					case "RunE", "Run", "PreRunE", "PreRun", "PostRunE", "PostRun", "PersistentPreRun", "PersistentPreRunE", "PersistentPostRun", "PersistentPostRunE":
						funcAlias[f] = "cmd." + g + "." + name
					}
				}
				switch name {
				case "RunE", "Run", "PreRunE", "PreRun", "PostRunE", "PostRun":
					m.handler[f] = g
				case "PersistentPreRun", "PersistentPreRunE", "PersistentPostRun", "PersistentPostRunE":
					m.handler[f] = g
					m.persist[f] = true
				}
			}
		})
		for _, ci := range callsIn(fn) {
			if !strings.HasSuffix(calleeName(ci.Common()), "cobra.Command.AddCommand") {
				continue
			}
			args := ci.Common().Args
			ps := m.resolve(fn, args[0], 0)
			if len(ps) != 1 {
				continue
			}
			for _, ch := range variadicValues(args[1]) {
				for _, cn := range m.resolve(fn, ch, 0) {
					m.parent[cn] = ps[0]
				}
			}
		}
	}
	return m
}

// variadicValues returns the values stored into a freshly allocated variadic array.
func variadicValues(v ssa.Value) []ssa.Value {
	sl, ok := v.(*ssa.Slice)
	if !ok {
		return nil
	}
	alloc, ok := sl.X.(*ssa.Alloc)
	if !ok {
		return nil
	}
	var out []ssa.Value
	for _, r := range *alloc.Referrers() {
		if ia, ok := r.(*ssa.IndexAddr); ok {
			for _, rr := range *ia.Referrers() {
				if st, ok := rr.(*ssa.Store); ok {
					out = append(out, st.Val)
				}
			}
		}
	}
	return out
}

// resolve: which command globals may the *cobra.Command value v denote inside fn?
func (m *cobraModel) resolve(fn *ssa.Function, v ssa.Value, depth int) []string {
	if depth > 6 {
		return nil
	}
	switch x := v.(type) {
	case *ssa.UnOp:
		if x.Op == token.MUL {
			if g, ok := x.X.(*ssa.Global); ok {
				return []string{g.Name()}
			}
		}
	case *ssa.Parameter:
		idx := -1
		for i, p := range fn.Params {
			if p == x {
				idx = i
			}
		}
		if g, ok := m.handler[fn]; ok && idx == 0 {
			if m.persist[fn] {
				// runs for the command itself and every descendant
				var out []string
				for _, cmd := range m.all {
					for a := cmd; a != ""; a = m.parent[a] {
						if a == g {
							out = append(out, cmd)
							break
						}
					}
				}
				return out
			}
			return []string{g}
		}
		set := map[string]bool{}
		for _, ci := range m.callers[fn] {
			args := ci.Common().Args
			if idx < len(args) {
				for _, g := range m.resolve(ci.Parent(), args[idx], depth+1) {
					set[g] = true
				}
			}
		}
		return sortedKeys(set)
	case *ssa.Alloc:
		if g, ok := m.cmdOf[x]; ok {
			return []string{g}
		}
	}
	return nil
}

type flagSite struct {
	fn         *ssa.Function
	name, typ  string
	cmds       []string
	persistent bool
	pos        token.Pos
}

func ruleFlags(c *Ctx) {
	m := c.buildCobraModel()
	if m == nil || len(m.all) == 0 {
		c.missing("cmd: cobra.Command globals")
		return
	}
	var defs, gets []flagSite
	const pfx = "github.com/spf13/pflag.FlagSet."
	for _, fn := range m.fns {
		for _, ci := range callsIn(fn) {
			n := calleeName(ci.Common())
			if !strings.HasPrefix(n, pfx) {
				continue
			}
			meth := strings.TrimPrefix(n, pfx)
			args := ci.Common().Args
			if len(args) < 2 {
				continue
			}
			name, ok := constString(args[1])
			if !ok {
				continue
			}
			// the flag set: cmd.Flags() / cmd.PersistentFlags()
			fsCall, ok := args[0].(*ssa.Call)
			if !ok {
				continue
			}
			fsName := calleeName(&fsCall.Call)
			if strings.HasPrefix(meth, "Get") && strings.Contains(fsName, "cobra.Command.") && strings.HasSuffix(fsName, "Flags") && !strings.HasSuffix(fsName, "cobra.Command.Flags") && !strings.HasSuffix(fsName, "cobra.Command.PersistentFlags") {
				// InheritedFlags / LocalFlags / LocalNonPersistentFlags see a part of the flags only: for the command that
				// defines a persistent flag it is not inherited, for its sub-commands it is not local
				c.site(1)
				c.bad(fmt.Sprintf("get|%s|%q|flagset", fname(fn), name), c.pos(ci.Pos()), fname(fn), fmt.Sprintf("--%s is read through %s, which does not see the flag on every command that defines or inherits it: there the flag is silently ignored", name, fsName[strings.LastIndex(fsName, ".")+1:]))
				continue
			}
			if !strings.HasSuffix(fsName, "cobra.Command.Flags") && !strings.HasSuffix(fsName, "cobra.Command.PersistentFlags") {
				continue
			}
			site := flagSite{fn: fn, name: name, pos: ci.Pos(), persistent: strings.HasSuffix(fsName, "PersistentFlags")}
			site.cmds = m.resolve(fn, fsCall.Call.Args[0], 0)
			switch {
			case strings.HasPrefix(meth, "Get"):
				site.typ = strings.TrimPrefix(meth, "Get")
				gets = append(gets, site)
			case strings.HasPrefix(meth, "Lookup"), strings.HasPrefix(meth, "Set"), strings.HasPrefix(meth, "Changed"), strings.HasPrefix(meth, "Mark"):
			default:
				site.typ = strings.TrimSuffix(strings.TrimSuffix(meth, "P"), "Var")
				defs = append(defs, site)
			}
		}
	}
	// visible[cmd][name] = type
	type def struct {
		typ        string
		persistent bool
	}
	own := map[string]map[string]def{}
	for _, d := range defs {
		if len(d.cmds) == 0 {
			c.undec(fmt.Sprintf("def|%s|%q", fname(d.fn), d.name), c.pos(d.pos), fname(d.fn), "cannot tell which command this flag is defined on")
			continue
		}
		for _, g := range d.cmds {
			if own[g] == nil {
				own[g] = map[string]def{}
			}
			own[g][d.name] = def{d.typ, d.persistent}
		}
	}
	lookup := func(cmd, name string) (string, bool) {
		for a, first := cmd, true; a != ""; a, first = m.parent[a], false {
			if d, ok := own[a][name]; ok && (first || d.persistent) {
				return d.typ, true
			}
		}
		return "", false
	}
	// a function that reads one flag and asks whether a flag `was given` asks about that same flag (a guard copied from
	// the neighbouring getter makes --meter depend on --bpm)
	{
		readIn := map[*ssa.Function]map[string]bool{}
		for _, g := range gets {
			if readIn[g.fn] == nil {
				readIn[g.fn] = map[string]bool{}
			}
			readIn[g.fn][g.name] = true
		}
		for _, fn := range m.fns {
			if len(readIn[fn]) != 1 {
				continue
			}
			own := sortedKeys(readIn[fn])[0]
			for _, ci := range callsIn(fn) {
				n := calleeName(ci.Common())
				if n != pfx+"Changed" && n != pfx+"Lookup" {
					continue
				}
				args := ci.Common().Args
				if len(args) < 2 {
					continue
				}
				asked, ok := constString(args[1])
				if !ok {
					continue
				}
				c.site(1)
				c.check(asked == own, fmt.Sprintf("changed|%s|%q", fname(fn), asked), c.pos(ci.Pos()), fname(fn), fmt.Sprintf("asks whether --%s was given, the flag it reads", own), fmt.Sprintf("%s reads --%s but asks whether --%s was given: the flag is ignored unless the other one is given too", fname(fn), own, asked))
			}
		}
	}
	for _, g := range gets {
		c.site(1)
		key := fmt.Sprintf("%s|Get%s(%q)", fname(g.fn), g.typ, g.name)
		if len(g.cmds) == 0 {
			c.undec(key, c.pos(g.pos), fname(g.fn), "cannot tell for which command this getter runs")
			continue
		}
		var problems []string
		for _, cmd := range g.cmds {
			t, ok := lookup(cmd, g.name)
			switch {
			case !ok:
				problems = append(problems, fmt.Sprintf("command %s has no flag %q (neither its own nor a persistent flag of an ancestor)", cmd, g.name))
			case t != g.typ:
				problems = append(problems, fmt.Sprintf("on %s flag %q is a %s but is read with Get%s", cmd, g.name, t, g.typ))
			}
		}
		if len(problems) > 0 {
			c.bad(key, c.pos(g.pos), fname(g.fn), strings.Join(problems, "; ")+": pflag returns the zero value and an error (which every getter here drops), so the flag silently means `no override`")
		} else {
			c.ok(key, c.pos(g.pos), fname(g.fn), fmt.Sprintf("flag %q visible as %s on %v", g.name, g.typ, g.cmds))
		}
	}
}
