package main

// SCHEMA, CODEC, BASE10 (C10) and the wiring rules SCALEWIRE (C13), CIRCLEWIRE (C14), ADDDEGREE (C15).

import (
	"fmt"
	"go/constant"
	"go/token"
	"go/types"
	"os"
	"reflect"
	"sort"
	"strings"

	"golang.org/x/tools/go/ssa"
)

func init() {
	register("SCHEMA", "what `text conv` and `write conv` hand to the YAML encoder has the same key tree and scalar types as what `write` decodes", 2, ruleSchema)
	register("CODEC", "every scalar of the instances format has both MarshalYAML and UnmarshalYAML, and both directions use the same table / separator", 10, ruleCodec)
	register("BASE10", "numerals of user text are parsed in base 10", 1, ruleBase10)
	register("SCALEWIRE", "NewScale: unknown keys are an error; a letter is sharp iff it is in the signature set of a sharp key, flat iff in the set of a flat key, else natural; the counts are the set size", 4, ruleScaleWire)
	register("CIRCLEWIRE", "find = index of the key in the ring of its own mode, then slot index+delta in the requested ring; Ring.At wraps both ways; Convert threads the member through the steps starting from the key's own scale", 5, ruleCircleWire)
	register("ADDDEGREE", "Note.AddDegree adds semitones, splits octave and pitch class with floor semantics on 12, and tries natural, then the preferred accidental, then the other", 4, ruleAddDegree)
}

// ---------------------------------------------------------------------------
// SCHEMA

// yamlSchema renders the YAML key tree of a Go type the way yaml.v3 sees it. dir = "enc" or "dec".
func (c *Ctx) yamlSchema(t types.Type, dir string, depth int) string {
	if depth > 8 {
		return "..."
	}
	if p, ok := t.(*types.Pointer); ok {
		return c.yamlSchema(p.Elem(), dir, depth)
	}
	if n, ok := t.(*types.Named); ok {
		has := func(name string) bool {
			for _, tt := range []types.Type{n, types.NewPointer(n)} {
				ms := c.Prog.MethodSets.MethodSet(tt)
				for i := 0; i < ms.Len(); i++ {
					if ms.At(i).Obj().Name() == name {
						return true
					}
				}
			}
			return false
		}
		if (dir == "enc" && has("MarshalYAML") && !c.shapePreservingMarshal(n)) || (dir == "dec" && has("UnmarshalYAML")) {
			return "scalar<" + typeName(n) + ">"
		}
	}
	switch u := t.Underlying().(type) {
	case *types.Struct:
		var fields []string
		for i := 0; i < u.NumFields(); i++ {
			f := u.Field(i)
			if !f.Exported() {
				continue
			}
			tag := reflect.StructTag(u.Tag(i)).Get("yaml")
			name := strings.Split(tag, ",")[0]
			if name == "-" {
				continue
			}
			if name == "" {
				name = strings.ToLower(f.Name())
			}
			if f.Embedded() && !strings.Contains(tag, ",inline") && tag == "" {
				// yaml.v3 does not inline embedded structs without the tag; keep the lower-cased name
			}
			fields = append(fields, name+":"+c.yamlSchema(f.Type(), dir, depth+1))
		}
		sort.Strings(fields)
		return "{" + strings.Join(fields, " ") + "}"
	case *types.Slice:
		return "[" + c.yamlSchema(u.Elem(), dir, depth+1) + "]"
	case *types.Array:
		return "[" + c.yamlSchema(u.Elem(), dir, depth+1) + "]"
	case *types.Map:
		return "map<" + c.yamlSchema(u.Key(), dir, depth+1) + "," + c.yamlSchema(u.Elem(), dir, depth+1) + ">"
	case *types.Basic:
		switch {
		case u.Info()&types.IsString != 0:
			return "string"
		case u.Info()&types.IsNumeric != 0:
			return "number"
		case u.Info()&types.IsBoolean != 0:
			return "bool"
		}
	case *types.Interface:
		return "any"
	}
	return short(t.String())
}

// marshalledType: the static type of the value handed to yaml.Marshal / writeYamlOutput in fn (through MakeInterface).
func (c *Ctx) marshalledTypes(fn *ssa.Function) []types.Type {
	var out []types.Type
	wrappers := c.marshalWrappers()
	for _, ci := range callsIn(fn) {
		n := calleeName(ci.Common())
		var arg ssa.Value
		switch n {
		case "gopkg.in/yaml.v3.Marshal":
			arg = ci.Common().Args[0]
		case "cmd.writeYamlOutput":
			arg = ci.Common().Args[1]
		default:
			if callee := staticCallee(ci.Common()); callee != nil {
				if i, ok := wrappers[callee]; ok && i < len(ci.Common().Args) {
					arg = ci.Common().Args[i]
				}
			}
			if arg == nil {
				continue
			}
		}
		if mi, ok := arg.(*ssa.MakeInterface); ok {
			out = append(out, mi.X.Type())
		}
	}
	return out
}

// marshalWrappers: the functions of the repo that hand one of their interface parameters, as it is, to yaml.Marshal
// (or to another such function), with the index of that parameter.
func (c *Ctx) marshalWrappers() map[*ssa.Function]int {
	if c.marshalWrap != nil {
		return c.marshalWrap
	}
	out := map[*ssa.Function]int{}
	for round := 0; round < 3; round++ {
		for _, fn := range c.srcFuncs() {
			if _, done := out[fn]; done || fn.Parent() != nil {
				continue
			}
			for _, ci := range callsIn(fn) {
				var arg ssa.Value
				if calleeName(ci.Common()) == "gopkg.in/yaml.v3.Marshal" {
					arg = ci.Common().Args[0]
				} else if callee := staticCallee(ci.Common()); callee != nil {
					if i, ok := out[callee]; ok && i < len(ci.Common().Args) {
						arg = ci.Common().Args[i]
					}
				}
				if arg == nil {
					continue
				}
				if i := paramIndexOf(fn, arg); i >= 0 {
					out[fn] = i
				}
			}
		}
	}
	c.marshalWrap = out
	return out
}

func ruleSchema(c *Ctx) {
	// consumer: what parseInstances decodes into
	pi := c.fn("cmd", "parseInstances")
	if pi == nil {
		c.missing("cmd.parseInstances")
		return
	}
	var consumer types.Type
	for _, ci := range callsTo(pi, "gopkg.in/yaml.v3.Unmarshal") {
		if mi, ok := ci.Common().Args[1].(*ssa.MakeInterface); ok {
			if p, ok := mi.X.Type().(*types.Pointer); ok {
				consumer = p.Elem()
			}
		}
	}
	if consumer == nil {
		c.undec("cmd.parseInstances|target", c.pos(pi.Pos()), fname(pi), "cannot find the type yaml.Unmarshal decodes into")
		return
	}
	want := c.yamlSchema(consumer, "dec", 0)
	producers := []struct{ label, pkg, fn string }{
		{"text conv", "cmd", "textCmdArgs.convert"},
		{"write conv", "cmd", ""},
	}
	for _, p := range producers {
		var fn *ssa.Function
		if p.fn != "" {
			fn = c.fn(p.pkg, p.fn)
		} else {
			for f, a := range funcAlias {
				if a == "cmd.writeCmdConv.RunE" {
					fn = f
				}
			}
		}
		c.site(1)
		key := "producer|" + p.label
		if fn == nil {
			c.bad(key, "", "", "producer of `"+p.label+"` not found")
			continue
		}
		ts := c.marshalledTypes(fn)
		if len(ts) != 1 {
			c.undec(key, c.pos(fn.Pos()), fname(fn), fmt.Sprintf("%d YAML outputs found, want 1", len(ts)))
			continue
		}
		got := c.yamlSchema(ts[0], "enc", 0)
		c.check(got == want, key, c.pos(fn.Pos()), fname(fn), "`"+p.label+"` prints "+short(ts[0].String())+": same key tree and scalars as `write` reads",
			fmt.Sprintf("`%s` prints %s with YAML shape %s, but `crd write` decodes %s with shape %s: yaml.v3 silently ignores unknown keys, so piping the output into `crd write` loses or changes data", p.label, short(ts[0].String()), got, short(consumer.String()), want))
	}
	// `gen attr` prints what --attr reads: the generated list goes through the YAML encoder (a notation such as `#4` is a
	// comment when it is printed bare)
	if ga := c.fn("chord", "GenerateAttributes"); ga != nil && ga.Signature.Results().Len() == 1 {
		var fn *ssa.Function
		for f, a := range funcAlias {
			if a == "cmd.genCmdAttr.RunE" {
				fn = f
			}
		}
		c.site(1)
		key := "producer|gen attr"
		if fn == nil {
			c.bad(key, "", "", "producer of `gen attr` not found")
		} else {
			listT := ga.Signature.Results().At(0).Type()
			ts := c.marshalledTypes(fn)
			if len(ts) != 1 {
				c.bad(key, c.pos(fn.Pos()), fname(fn), fmt.Sprintf("`gen attr` hands %d values to the YAML encoder, want the generated list: entries printed by hand are not quoted, and a notation that starts with # (every augmented interval) is read back as a comment", len(ts)))
			} else {
				got, want := c.yamlSchema(ts[0], "enc", 0), c.yamlSchema(listT, "dec", 0)
				c.check(got == want, key, c.pos(fn.Pos()), fname(fn), "`gen attr` prints "+short(ts[0].String())+" through the YAML encoder: the shape --attr reads", fmt.Sprintf("`gen attr` prints %s with YAML shape %s, --attr reads %s with shape %s", short(ts[0].String()), got, short(listT.String()), want))
			}
		}
	}
	// the `cmt` modifier of `write conv` adds a text and keeps everything else of the instance
	if mf := c.fn("input", "ChordMetaTextMotifier.Modify"); mf != nil {
		c.site(1)
		problem := ""
		nStores := 0
		// the stores and the Set may sit in a helper the instance is handed to (`v.setMeta(key, text)`): the whole region
		tr := c.plainTracer()
		chains := c.regionFuncChains(mf, nil)
		var rfns []*ssa.Function
		for f := range chains {
			rfns = append(rfns, f)
		}
		sort.Slice(rfns, func(i, j int) bool { return fname(rfns[i]) < fname(rfns[j]) })
		isInstance := func(l lval) bool {
			l = tr.trace(l)
			return len(l.chain) == 0 && l.v == ssa.Value(mf.Params[1])
		}
		var sets []lval // the key argument of every Meta.Set in the region
		for _, f := range rfns {
			chain := chains[f]
			allInstrs(f, func(in ssa.Instruction) {
				if ci, ok := in.(ssa.CallInstruction); ok && calleeName(ci.Common()) == "op.Meta.Set" && len(ci.Common().Args) >= 2 {
					sets = append(sets, lval{ci.Common().Args[1], f, chain})
				}
				st, ok := in.(*ssa.Store)
				if !ok {
					return
				}
				// a write through something reached from the instance (its chord, the chord's base ...) changes the
				// document that is printed, not only the label
				if fa, isFA := st.Addr.(*ssa.FieldAddr); isFA {
					l := lval{fa.X, f, chain}
					steps, hit := 0, false
					for depth := 0; depth < 10; depth++ {
						l = tr.trace(l)
						if len(l.chain) == 0 && l.v == ssa.Value(mf.Params[1]) {
							hit = true
							break
						}
						switch x := l.v.(type) {
						case *ssa.UnOp:
							if x.Op == token.MUL {
								l, steps = l.with(x.X), steps+1
								continue
							}
						case *ssa.FieldAddr:
							l, steps = l.with(x.X), steps+1
							continue
						case *ssa.IndexAddr:
							l, steps = l.with(x.X), steps+1
							continue
						}
						break
					}
					if hit && steps > 0 {
						fn2, _, _ := fieldName(fa)
						problem = "the modifier writes into the instance's own data (field " + fn2 + " of something reached from the instance): what `write conv` prints is no longer what it read"
					}
				}
				n, base, ok := fieldName(st.Addr)
				if !ok || !isInstance(lval{base, f, chain}) {
					return
				}
				nStores++
				if n != "Meta" {
					problem = "the modifier overwrites the instance's " + n
					return
				}
				guarded := false
				for _, pc := range pathConds(st.Block()) {
					if b, ok := pc.cond.(*ssa.BinOp); ok && ((b.Op == token.EQL && pc.side) || (b.Op == token.NEQ && !pc.side)) && isNilConst(b.Y) {
						if fn2, _, ok := loadedField(b.X); ok && fn2 == "Meta" {
							guarded = true
						}
					}
				}
				if !guarded {
					problem = "the modifier replaces the instance's meta map even when one exists: lyrics, markers and other metadata of the chord are lost when `write conv -c cmt` output is piped into `write`"
				}
			})
		}
		if problem == "" && len(sets) != 1 {
			problem = fmt.Sprintf("%d Meta.Set calls, want exactly one (the txt key)", len(sets))
		}
		if problem == "" {
			if k, ok := constString(tr.trace(sets[0]).v); !ok || k != "txt" {
				problem = "the modifier does not write the txt key"
			}
		}
		c.check(problem == "", fname(mf), c.pos(mf.Pos()), fname(mf), "creates a meta map only when there is none and sets txt only", fname(mf)+": "+problem)
	} else {
		c.missing("input.ChordMetaTextMotifier.Modify")
	}
	// `write parse` is a debugging view, not an interchange producer: recorded only
	c.ok("consumer|write", c.pos(pi.Pos()), fname(pi), "`write` decodes "+short(consumer.String())+": "+want)
}

// ---------------------------------------------------------------------------
// CODEC

func (c *Ctx) hasMethod(t types.Type, name string) bool {
	for _, tt := range []types.Type{t, types.NewPointer(t)} {
		ms := c.Prog.MethodSets.MethodSet(tt)
		for i := 0; i < ms.Len(); i++ {
			if ms.At(i).Obj().Name() == name {
				return true
			}
		}
	}
	return false
}

func ruleCodec(c *Ctx) {
	p := c.pkg("input")
	if p == nil {
		c.missing("input")
		return
	}
	inst, _ := p.Types.Scope().Lookup("Instance").(*types.TypeName)
	if inst == nil {
		c.missing("input.Instance")
		return
	}
	seen := map[types.Type]bool{}
	var scalars []*types.Named
	var walk func(t types.Type, d int)
	walk = func(t types.Type, d int) {
		if d > 8 || seen[t] {
			return
		}
		seen[t] = true
		if pt, ok := t.(*types.Pointer); ok {
			walk(pt.Elem(), d+1)
			return
		}
		if n, ok := t.(*types.Named); ok && (c.hasMethod(n, "MarshalYAML") || c.hasMethod(n, "UnmarshalYAML")) {
			scalars = append(scalars, n)
			return
		}
		switch u := t.Underlying().(type) {
		case *types.Struct:
			for i := 0; i < u.NumFields(); i++ {
				walk(u.Field(i).Type(), d+1)
			}
		case *types.Slice:
			walk(u.Elem(), d+1)
		case *types.Map:
			walk(u.Elem(), d+1)
		}
	}
	walk(inst.Type(), 0)
	for _, n := range scalars {
		c.site(1)
		m, u := c.hasMethod(n, "MarshalYAML"), c.hasMethod(n, "UnmarshalYAML")
		if m && !u && c.shapePreservingMarshal(n) {
			c.ok("scalar|"+typeName(n), c.pos(n.Obj().Pos()), "", typeName(n)+"'s MarshalYAML keeps the type's own YAML shape (the same map, or a mapping node): the default decoder reads it")
			continue
		}
		c.check(m && u, "scalar|"+typeName(n), c.pos(n.Obj().Pos()), "", typeName(n)+" has MarshalYAML and UnmarshalYAML", fmt.Sprintf("%s has MarshalYAML=%v UnmarshalYAML=%v: one direction falls back to yaml.v3's default struct/number encoding, so a printed value does not read back", typeName(n), m, u))
	}
	c.checkYamlNodesAreStrings()
	c.checkDecodersKeepWhatTheyRead()
	// printer / reader pairs: read(print(x)) == x for every constant of the enum, decided by folding both; when a pair
	// folds, how its tables are built and who looks them up no longer matters
	roundTrip := map[string]bool{} // "pkg.inverseTable" / "pkg.Fn|table" keys decided this way
	for _, pr := range []struct {
		pkg, enumType, printer, reader string
		skip                           []string
		keys                           []string
	}{
		{"note", "CoerceDegreeName", "CoerceDegreeName.String", "NewCoerceDegree", []string{"UnknownCoerceDegreeName"}, []string{"note.coerceDegreeNameStringMap", "note.CoerceDegreeName.String|table", "note.NewCoerceDegree|table"}},
		{"op", "DynamicSign", "DynamicSign.String", "NewDynamicSign", []string{"UnknownDynamicSign"}, []string{"op.dynamicSignStringMap", "op.DynamicSign.String|table", "op.NewDynamicSign|table"}},
		{"op", "Accidental", "Accidental.String", "NewAccidental", []string{"UnknownAccidental"}, []string{"op.stringAccidentalMap", "op.Accidental.String|table", "op.NewAccidental|table"}},
		{"note", "Name", "Name.String", "NewName", []string{"UnknownName"}, []string{"note.stringNameMap", "note.Name.String|table", "note.NewName|table"}},
	} {
		pf, rf := c.fn(pr.pkg, pr.printer), c.fn(pr.pkg, pr.reader)
		if pf == nil || rf == nil || len(pf.Params) != 1 || len(rf.Params) != 1 {
			continue
		}
		enum := c.enumConsts(pr.pkg, pr.enumType)
		problem := ""
		okAll := len(enum) > 0
		texts := map[string]string{}
		seenValue := map[int64]bool{}
		for _, name := range sortedKeys(enum) {
			skipped := false
			for _, sk := range pr.skip {
				skipped = skipped || sk == name
			}
			if skipped {
				continue
			}
			k := enum[name]
			if seenValue[k] {
				continue // a second name for the same value (an alias constant)
			}
			seenValue[k] = true
			pv, err := c.newFolder().foldCall(pf, []fval{{k: constant.MakeInt64(k), t: pf.Params[0].Type()}})
			if err != nil || pv.k == nil || pv.k.Kind() != constant.String {
				if os.Getenv("CRDCHECK_DEBUG") != "" {
					fmt.Fprintf(os.Stderr, "round trip %s: printer does not fold on %s: %v %s\n", pr.enumType, name, err, pv.String())
				}
				okAll = false
				break
			}
			text := constant.StringVal(pv.k)
			rv, err := c.newFolder().foldCall(rf, []fval{{k: pv.k, t: rf.Params[0].Type()}})
			if err != nil || rv.k == nil || rv.k.Kind() != constant.Int {
				if os.Getenv("CRDCHECK_DEBUG") != "" {
					fmt.Fprintf(os.Stderr, "round trip %s: reader does not fold on %q: %v %s\n", pr.enumType, text, err, rv.String())
				}
				okAll = false
				break
			}
			back, _ := constant.Int64Val(rv.k)
			if back != k {
				problem = fmt.Sprintf("%s prints as %q, which is read back as %s", name, text, c.constName(pf.Params[0].Type(), rv.k))
			}
			if prev, dup := texts[text]; dup {
				problem = fmt.Sprintf("%s and %s both print as %q", prev, name, text)
			}
			texts[text] = name
		}
		if !okAll {
			continue
		}
		c.site(1)
		c.check(problem == "", pr.pkg+"."+pr.enumType+"|round-trip", c.pos(pf.Pos()), fname(pf), fmt.Sprintf("read(print(x)) = x for all %d constants (folded)", len(texts)), pr.pkg+"."+pr.enumType+": "+problem+": a printed value does not read back")
		for _, k := range pr.keys {
			roundTrip[k] = true
		}
	}
	// inverse tables are built from their forward tables
	for _, inv := range []struct{ pkg, inverse, forward string }{
		{"note", "coerceDegreeNameStringMap", "stringCoerceDegreeNameMap"},
		{"op", "dynamicSignStringMap", "stringDynamicSignMap"},
		{"op", "stringAccidentalMap", "accidentalStringMap"},
		{"note", "stringNameMap", "nameStringMap"},
	} {
		c.site(1)
		key := inv.pkg + "." + inv.inverse
		g := c.ssapkg(inv.pkg).Var(inv.inverse)
		if roundTrip[key] && g == nil {
			c.ok(key, "", "", "decided by the round trip of the printer / reader pair")
			continue
		}
		if g == nil {
			c.missing(key)
			continue
		}
		good := false
		init := c.ssapkg(inv.pkg).Func("init")
		allInstrs(init, func(in ssa.Instruction) {
			st, ok := in.(*ssa.Store)
			if !ok || st.Addr != ssa.Value(g) {
				return
			}
			if call, ok := st.Val.(*ssa.Call); ok && calleeName(&call.Call) == "util.MustInverseMap" {
				if ld, ok := call.Call.Args[0].(*ssa.UnOp); ok {
					if src, ok := ld.X.(*ssa.Global); ok && src.Name() == inv.forward {
						good = true
					}
				}
			}
		})
		c.check(good, key, c.pos(g.Pos()), "", inv.inverse+" = inverse of "+inv.forward, fmt.Sprintf("%s is no longer built as the inverse of %s: printer and parser can disagree", inv.inverse, inv.forward))
	}
	// users of the tables
	uses := []struct{ pkg, fn, table, what string }{
		{"note", "CoerceDegreeName.String", "coerceDegreeNameStringMap", "interval printer"},
		{"note", "NewCoerceDegree", "stringCoerceDegreeNameMap", "interval mark reader"},
		{"op", "DynamicSign.String", "dynamicSignStringMap", "dynamic printer"},
		{"op", "NewDynamicSign", "stringDynamicSignMap", "dynamic reader"},
		{"op", "Accidental.String", "accidentalStringMap", "key accidental printer"},
		{"op", "NewAccidental", "stringAccidentalMap", "key accidental reader"},
		{"note", "Name.String", "nameStringMap", "letter printer"},
		{"note", "NewName", "stringNameMap", "letter reader"},
	}
	for _, u := range uses {
		fn := c.fn(u.pkg, u.fn)
		c.site(1)
		key := u.pkg + "." + u.fn + "|table"
		if fn == nil {
			c.missing(u.pkg + "." + u.fn)
			continue
		}
		usesTable := roundTrip[key]
		allInstrs(fn, func(in ssa.Instruction) {
			if lk, ok := in.(*ssa.Lookup); ok {
				if ld, ok := lk.X.(*ssa.UnOp); ok {
					if g, ok := ld.X.(*ssa.Global); ok && g.Name() == u.table {
						usesTable = true
					}
				}
			}
		})
		c.check(usesTable, key, c.pos(fn.Pos()), fname(fn), u.what+" looks up "+u.table, fmt.Sprintf("the %s (%s) no longer uses %s", u.what, fname(fn), u.table))
	}
	// decoders call the readers
	decs := []struct{ pkg, fn, callee string }{
		{"note", "Degree.UnmarshalYAML", "note.ParseDegree"},
		{"op", "Key.UnmarshalYAML", "op.ParseKey"},
		{"op", "DynamicSign.UnmarshalYAML", "op.NewDynamicSign"},
		{"util", "Rat.UnmarshalYAML", "util.ParseRat"},
		{"op", "BPM.UnmarshalYAML", "util.ParseUint"},
	}
	for _, d := range decs {
		fn := c.fn(d.pkg, d.fn)
		c.site(1)
		if fn == nil {
			c.missing(d.pkg + "." + d.fn)
			continue
		}
		calls := callsTo(fn, d.callee)
		good := len(calls) == 1
		if good {
			// argument: value.Value of the yaml node
			n, _, ok := loadedField(calls[0].Common().Args[0])
			good = ok && n == "Value"
		}
		// result stored into the receiver on success
		stored := false
		allInstrs(fn, func(in ssa.Instruction) {
			if st, ok := in.(*ssa.Store); ok && st.Addr == ssa.Value(fn.Params[0]) {
				stored = true
			}
		})
		c.check(good && stored, fname(fn), c.pos(fn.Pos()), fname(fn), "reads the scalar text with "+d.callee+" and stores the result", fname(fn)+" no longer decodes the YAML scalar with "+d.callee+" into the receiver")
	}
	encs := []struct{ pkg, fn, callee string }{
		{"note", "Degree.MarshalYAML", "note.Degree.String"},
		{"op", "Key.MarshalYAML", "op.Key.String"},
		{"op", "DynamicSign.MarshalYAML", "op.DynamicSign.String"},
		{"util", "Rat.MarshalYAML", "util.Rat.String"},
		{"note", "Value.MarshalYAML", "util.Rat.String"},
	}
	for _, e := range encs {
		fn := c.fn(e.pkg, e.fn)
		c.site(1)
		if fn == nil {
			c.missing(e.pkg + "." + e.fn)
			continue
		}
		c.check(len(callsTo(fn, e.callee)) == 1, fname(fn), c.pos(fn.Pos()), fname(fn), "prints with "+e.callee, fname(fn)+" no longer prints with "+e.callee)
	}
	// Degree.String = mark + number; ParseDegree strips the mark and parses the rest
	if fn := c.fn("note", "Degree.String"); fn != nil {
		c.site(1)
		good := false
		for _, ci := range callsTo(fn, "fmt.Sprintf") {
			if s, ok := constString(ci.Common().Args[0]); ok && s == "%s%d" {
				vals := variadicValues(ci.Common().Args[1])
				if len(vals) == 2 {
					ac := &affCtx{c: c, fn: fn, alias: map[ssa.Value]string{}}
					d0, d1 := ac.describe(vals[0]), ac.describe(vals[1])
					good = strings.Contains(d0, "Coerce") && strings.HasSuffix(d1, ".Value")
				}
			}
		}
		c.check(good, fname(fn), c.pos(fn.Pos()), fname(fn), "mark then number", "Degree.String is no longer `<mark><number>`")
	}
	// Rat: separator and the Denom == 1 convention; by folding on a grid of values when the printer folds
	ratFolded := false
	if fn := c.fn("util", "Rat.String"); fn != nil && len(fn.Params) == 1 {
		problem := ""
		n := 0
		ratFolded = true
		grid := []int64{0, 1, 2, 3, 4, 7, 8, 10, 12, 16, 100, 128, 255, 256, 65536, 4294967296}
		for _, num := range grid {
			for _, den := range grid {
				recv := structFval(map[string]fval{"Num": {k: constant.MakeInt64(num), t: types.Typ[types.Uint]}, "Denom": {k: constant.MakeInt64(den), t: types.Typ[types.Uint]}})
				r, err := c.newFolder().foldCall(fn, []fval{recv})
				if err != nil || r.k == nil || r.k.Kind() != constant.String {
					ratFolded = false
					break
				}
				n++
				want := fmt.Sprintf("%d/%d", num, den)
				if den == 1 {
					want = fmt.Sprint(num)
				}
				if got := constant.StringVal(r.k); got != want && problem == "" {
					problem = fmt.Sprintf("%d over %d prints as %q, want %q (numerator first, `/`, the bare number for a denominator of 1: that is what ParseRat reads)", num, den, got, want)
				}
			}
			if !ratFolded {
				break
			}
		}
		if ratFolded {
			c.site(1)
			c.check(problem == "", fname(fn), c.pos(fn.Pos()), fname(fn), fmt.Sprintf("Num/Denom, Denom 1 printed as Num (folded on %d values)", n), "Rat.String: "+problem)
		}
	}
	if fn := c.fn("util", "Rat.String"); fn != nil && !ratFolded {
		c.site(1)
		sep := false
		one := false
		allInstrs(fn, func(in ssa.Instruction) {
			if ci, ok := in.(ssa.CallInstruction); ok && calleeName(ci.Common()) == "fmt.Sprintf" {
				if s, ok := constString(ci.Common().Args[0]); ok && s == "%d/%d" {
					vals := variadicValues(ci.Common().Args[1])
					if len(vals) == 2 {
						n0, _, ok0 := loadedField(stripConv(vals[0]))
						n1, _, ok1 := loadedField(stripConv(vals[1]))
						sep = ok0 && ok1 && n0 == "Num" && n1 == "Denom"
					}
				}
			}
			if b, ok := in.(*ssa.BinOp); ok && b.Op == token.EQL {
				if n, _, ok := loadedField(b.X); ok && n == "Denom" {
					if k, ok := constInt(b.Y); ok && k == 1 {
						one = true
					}
				}
			}
		})
		c.check(sep && one, fname(fn), c.pos(fn.Pos()), fname(fn), "Num/Denom, Denom 1 printed as Num", "Rat.String no longer prints `Num/Denom` (numerator first) with the bare number for Denom 1")
	}
	if fn := c.fn("util", "ParseRat"); fn != nil {
		c.site(1)
		sep := false
		for _, ci := range callsIn(fn) {
			if n := calleeName(ci.Common()); n == "strings.SplitN" || n == "strings.Split" || n == "strings.Cut" {
				if s, ok := constString(ci.Common().Args[1]); ok && s == "/" {
					sep = true
				}
			}
		}
		// NewRat(num, denom) from parts [0] and [1]; single part -> denominator 1
		order, single := false, false
		for _, ci := range callsTo(fn, "util.NewRat") {
			a := ci.Common().Args
			if k, ok := constInt(a[1]); ok && k == 1 {
				single = true
				continue
			}
			i0, i1 := c.partIndex(a[0]), c.partIndex(a[1])
			if i0 == 0 && i1 == 1 {
				order = true
			}
		}
		c.check(sep && order && single, fname(fn), c.pos(fn.Pos()), fname(fn), "splits on `/`, numerator first; a bare number has denominator 1", fmt.Sprintf("ParseRat: separator=%v numerator-first=%v bare-number=%v — a printed fraction does not read back", sep, order, single))
	}
	// free-text map keys: yaml.v3 writes the key `<<` plain and reads it back as a merge key, so a map of metadata texts
	// needs an encoder of its own that quotes it (metadata keys are arbitrary text up to `{}=,` and white space)
	{
		c.site(1)
		good := false
		where := ""
		if m := c.fn("op", "Meta.MarshalYAML"); m != nil {
			where = c.pos(m.Pos())
			for _, f := range c.regionFuncChainsList(m) {
				allInstrs(f, func(in ssa.Instruction) {
					for _, op := range in.Operands(nil) {
						if s, ok := constString(*op); ok && s == "<<" {
							good = true
						}
					}
				})
			}
		}
		c.check(good, "op.Meta|merge-key", where, "op.Meta", "the metadata map has its own YAML encoder that treats the key `<<`", "op.Meta (free-text metadata keys and values) is handed to yaml.v3 as a plain map: the key `<<` is printed unquoted and `crd write` then refuses the document (`map merge requires map`): `printf 'C[1]{<<=x}' | crd text conv syllable | crd write` fails")
	}
	// Key.String: letter + accidental + minor mark
	if fn := c.fn("op", "Key.String"); fn != nil {
		c.site(1)
		a := len(callsTo(fn, "note.Name.String")) == 1 && len(callsTo(fn, "op.Accidental.String")) == 1
		mark := false
		allInstrs(fn, func(in ssa.Instruction) {
			if st, ok := in.(*ssa.Store); ok {
				if s, ok := constString(st.Val); ok && s == "m" {
					if side, ok2 := c.branchSide(st.Block(), func(v ssa.Value) bool { n, _, ok := loadedField(v); return ok && n == "Minor" }); ok2 && side {
						mark = true
					}
				}
			}
		})
		// the order of the three parts, decided by folding the printer on all 42 (letter, accidental, mode) combinations
		names, accs := c.enumConsts("note", "Name"), c.enumConsts("op", "Accidental")
		accText := map[string]string{"Natural": "", "Sharp": "#", "Flat": "b"}
		orderProblem, folded := "", 0
		for _, l := range specLetters {
			for an, at := range accText {
				for _, minor := range []bool{false, true} {
					recv := fval{fields: map[string]fval{
						"Name":       {k: constant.MakeInt64(names[l])},
						"Accidental": {k: constant.MakeInt64(accs[an])},
						"Minor":      {k: constant.MakeBool(minor)},
					}}
					r, err := c.newFolder().foldCall(fn, []fval{recv})
					if err != nil || r.k == nil || r.k.Kind() != constant.String {
						continue
					}
					folded++
					want := l + at
					if minor {
						want += "m"
					}
					if got := constant.StringVal(r.k); got != want {
						orderProblem = fmt.Sprintf("the key %s %s minor=%v prints as %q, want %q (ParseKey reads letter, accidental, minor mark in this order)", l, an, minor, got, want)
					}
				}
			}
		}
		if folded > 0 && folded < 42 {
			orderProblem = fmt.Sprintf("the printer folds for %d of 42 keys only", folded)
		}
		how := "letter, accidental, `m` when minor"
		if folded == 42 {
			how += " (printed text folded for all 42 keys)"
		}
		if folded == 42 {
			// decided on every key: the shape of the printer no longer matters
			a, mark = true, true
		}
		c.check(a && mark && orderProblem == "", fname(fn), c.pos(fn.Pos()), fname(fn), how, "Key.String no longer prints letter + accidental + `m` for minor keys: "+orderProblem)
	}
	if fn := c.fn("op", "ParseKey"); fn != nil {
		// decided on 756 spellings by folding when it folds; how the text is taken apart no longer matters then
		if problem, n, ok := c.parseKeyByFolding(); ok {
			c.site(1)
			c.check(problem == "", fname(fn), c.pos(fn.Pos()), fname(fn), fmt.Sprintf("%d spellings folded: exactly [A-G][#b]?m? is accepted and read as that letter, accidental and mode", n), fname(fn)+": "+problem)
			return
		}
		c.site(1)
		// fields come from captures 1, 2, 3 of the key regex in this order (the construction may sit in a helper)
		tr := c.plainTracer()
		region := c.regionCalls(fn, nil)
		capOf := func(rc rcall, v ssa.Value) int { return captureNumber(tr, lval{v, rc.fn, rc.chain}) }
		nameCap, accCap, minorCap := -1, -1, -1
		for _, rc := range region {
			switch calleeName(rc.call.Common()) {
			case "note.NewName":
				nameCap = capOf(rc, rc.call.Common().Args[0])
			case "op.NewAccidental":
				accCap = capOf(rc, rc.call.Common().Args[0])
			}
		}
		fns := map[*ssa.Function][]ssa.CallInstruction{fn: nil}
		for _, rc := range region {
			if _, ok := fns[rc.fn]; !ok {
				fns[rc.fn] = rc.chain
			}
		}
		for f, chain := range fns {
			allInstrs(f, func(in ssa.Instruction) {
				if b, ok := in.(*ssa.BinOp); ok && b.Op == token.EQL {
					for _, pair := range [][2]ssa.Value{{b.X, b.Y}, {b.Y, b.X}} {
						if s, ok := constString(tr.trace(lval{pair[1], f, chain}).v); ok && s == "m" {
							minorCap = captureNumber(tr, lval{pair[0], f, chain})
						}
					}
				}
			})
		}
		good := nameCap == 1 && accCap == 2 && minorCap == 3
		c.check(good, fname(fn), c.pos(fn.Pos()), fname(fn), "letter <- capture 1, accidental <- capture 2, minor <- capture 3", fmt.Sprintf("ParseKey takes letter from capture %d, accidental from capture %d, minor mark from capture %d (want 1, 2, 3)", nameCap, accCap, minorCap))
	}
}

// captureNumber: the located string is capture group k of a regexp match (FindStringSubmatch(s)[k], or
// FindAllStringSubmatch(s, -1)[0][k], possibly re-sliced first): returns k, or -1.
func captureNumber(tr *tracer, l lval) int {
	l = tr.trace(l)
	ia := indexOfLoad(l.v)
	if ia == nil {
		return -1
	}
	k, ok := constInt(ia.Index)
	if !ok {
		return -1
	}
	base := tr.trace(l.with(ia.X))
	for i := 0; i < 4; i++ {
		if sl, ok := base.v.(*ssa.Slice); ok {
			lo := int64(0)
			if sl.Low != nil {
				v, ok := constInt(sl.Low)
				if !ok {
					return -1
				}
				lo = v
			}
			k += lo
			base = tr.trace(base.with(sl.X))
			continue
		}
		break
	}
	// the match itself
	if call, ok := base.v.(*ssa.Call); ok && strings.HasSuffix(calleeName(&call.Call), "regexp.Regexp.FindStringSubmatch") {
		return int(k)
	}
	if ia0 := indexOfLoad(base.v); ia0 != nil {
		if z, ok := constInt(ia0.Index); ok && z == 0 {
			if call, ok := tr.trace(base.with(ia0.X)).v.(*ssa.Call); ok && strings.HasSuffix(calleeName(&call.Call), "regexp.Regexp.FindAllStringSubmatch") {
				return int(k)
			}
		}
	}
	return -1
}

// partIndex: v = ParseUint(parts[i])#0 -> i, else -1.
func (c *Ctx) partIndex(v ssa.Value) int {
	ex, ok := v.(*ssa.Extract)
	if !ok {
		return -1
	}
	call, ok := ex.Tuple.(*ssa.Call)
	if !ok || len(call.Call.Args) == 0 {
		return -1
	}
	if ia := indexOfLoad(call.Call.Args[0]); ia != nil {
		if k, ok := constInt(ia.Index); ok {
			return int(k)
		}
	}
	// strings.Cut(s, sep): result #0 is the text before the separator, #1 the text after it
	if px, ok := call.Call.Args[0].(*ssa.Extract); ok && px.Index <= 1 {
		if cut, ok := px.Tuple.(*ssa.Call); ok && calleeName(&cut.Call) == "strings.Cut" {
			return px.Index
		}
	}
	return -1
}

// ---------------------------------------------------------------------------
// BASE10

func ruleBase10(c *Ctx) {
	n := 0
	for _, fn := range c.srcFuncs() {
		for _, ci := range callsIn(fn) {
			name := calleeName(ci.Common())
			switch name {
			case "strconv.ParseUint", "strconv.ParseInt":
				n++
				c.site(1)
				base, ok := constInt(ci.Common().Args[1])
				c.check(ok && base == 10, fname(fn)+" -> "+name, c.pos(ci.Pos()), fname(fn), "base 10", fmt.Sprintf("numerals are parsed with base %d (constant=%v): with base 0 a leading zero means octal, so `010` beats becomes 8", base, ok))
			case "strconv.Atoi":
				n++
				c.site(1)
				c.ok(fname(fn)+" -> "+name, c.pos(ci.Pos()), fname(fn), "Atoi is base 10")
			case "fmt.Sscanf", "fmt.Sscan", "fmt.Sscanln":
				c.site(1)
				c.bad(fname(fn)+" -> "+name, c.pos(ci.Pos()), fname(fn), "numerals scanned with fmt.Sscan*: %v/%d accept 0x.. and 0-prefixed octal forms")
			}
		}
	}
	// every textual number of the notation goes through util.ParseUint
	pu := c.fn("util", "ParseUint")
	if pu == nil {
		c.missing("util.ParseUint")
		return
	}
	// ... which reads plain decimal: folded on probe spellings, the value is the decimal value (zero padding changes
	// nothing) and anything but a string of ASCII digits is an error
	probes := []string{"0", "1", "7", "9", "10", "12", "100", "120", "960", "010", "0100", "007", "00", "000", "0012300", "1000000", "4294967296", "000000000000000000004", "0000000000000000000000000120", "-120", "-0", "+120",
		"", " ", "x", "1x", "x1", "-1", "+1", " 1", "1 ", "0x10", "0b1", "0o7", "1_0", "1.0", "1e3", "1/2", "\u0663", "\uff11"}
	problem, folded := "", 0
	for _, sp := range probes {
		r, err := c.newFolder().foldCall(pu, []fval{{k: constant.MakeString(sp), t: types.Typ[types.String]}})
		if err == nil && len(r.tuple) == 2 && !r.tuple[1].isNil && (r.tuple[1].addr != nil || r.tuple[1].cvptr != nil) {
			r.tuple[1].nonNil = true // an error value built on the spot (&strconv.NumError{...})
		}
		if err != nil || len(r.tuple) != 2 || !(r.tuple[1].isNil || r.tuple[1].nonNil) {
			continue
		}
		folded++
		digits := sp != ""
		var want uint64
		for _, ch := range sp {
			if ch < '0' || ch > '9' {
				digits = false
				break
			}
			want = want*10 + uint64(ch-'0')
		}
		okGot := r.tuple[1].isNil
		switch {
		case okGot != digits && digits:
			problem = fmt.Sprintf("%q is refused, it is a decimal number", sp)
		case okGot != digits:
			problem = fmt.Sprintf("%q is accepted, it is not a string of decimal digits", sp)
		case digits:
			if r.tuple[0].k == nil || r.tuple[0].k.Kind() != constant.Int {
				continue
			}
			if got, _ := constant.Uint64Val(r.tuple[0].k); got != want {
				problem = fmt.Sprintf("%q is read as %d, it is %d", sp, got, want)
			}
		}
	}
	if folded >= len(probes)/2 {
		c.site(1)
		c.check(problem == "", "util.ParseUint|decimal", c.pos(pu.Pos()), fname(pu), fmt.Sprintf("%d probe spellings folded: decimal value, digits only", folded), "util.ParseUint: "+problem+": a duration, tempo or interval number written that way means something else than it says")
	}
}

// ---------------------------------------------------------------------------
// path conditions

type pathCond struct {
	cond ssa.Value
	side bool
}

// pathConds: branch conditions that hold on every path to b (from its dominator chain).
func pathConds(b *ssa.BasicBlock) []pathCond {
	var out []pathCond
	for p := b.Idom(); p != nil; p = p.Idom() {
		iff, ok := p.Instrs[len(p.Instrs)-1].(*ssa.If)
		if !ok || p.Succs[0] == p.Succs[1] {
			continue
		}
		// the outcome is known at b when b can only be reached from p (without passing p again) through one of the two edges
		viaT := reachesAvoiding(p.Succs[0], b, p)
		viaF := reachesAvoiding(p.Succs[1], b, p)
		if viaT && !viaF {
			out = append(out, pathCond{iff.Cond, true})
		} else if viaF && !viaT {
			out = append(out, pathCond{iff.Cond, false})
		}
	}
	return out
}

// reachesAvoiding: to is reachable from from without entering the block avoid.
func reachesAvoiding(from, to, avoid *ssa.BasicBlock) bool {
	seen := map[*ssa.BasicBlock]bool{avoid: true}
	var walk func(x *ssa.BasicBlock) bool
	walk = func(x *ssa.BasicBlock) bool {
		if x == to {
			return true
		}
		if seen[x] {
			return false
		}
		seen[x] = true
		for _, s := range x.Succs {
			if walk(s) {
				return true
			}
		}
		return false
	}
	if from == avoid {
		return false
	}
	return walk(from)
}

// ---------------------------------------------------------------------------
// SCALEWIRE

func ruleScaleWire(c *Ctx) {
	fn := c.fn("op", "NewScale")
	if fn == nil {
		c.missing("op.NewScale")
		return
	}
	name := fname(fn)
	// the whole constructor on every key spelling (7 letters x natural, sharp, flat x major, minor = 42), by folding: the 28
	// keys that have a conventional signature get the seven notes, accidentals and counts of the derived scale, the other
	// 14 are refused. When this folds, it stands for the shape obligations below that it subsumes.
	if problem, n, ok := c.scalesVerdict(); ok {
		c.site(1)
		c.check(problem == "", name+"|domain", c.pos(fn.Pos()), name, fmt.Sprintf("%d key spellings folded: notes, accidentals and signature counts of the derived scale for the 28 keys, an error for the rest", n), name+": "+problem)
		c.scalesFolded = true
		if problem == "" {
			c.site(n - 1) // every folded spelling is a site of this rule
			// how the constructor gets there (which table it looks in, how a note's accidental is chosen, where the counts
			// come from) is decided with it
			return
		}
	}
	// lookup miss -> error
	c.site(1)
	miss := false
	allInstrs(fn, func(in ssa.Instruction) {
		lk, ok := in.(*ssa.Lookup)
		if !ok || !lk.CommaOk {
			return
		}
		if ld, ok := lk.X.(*ssa.UnOp); ok {
			if g, ok := ld.X.(*ssa.Global); !ok || g.Name() != "keySignatures" {
				return
			}
		}
		if !c.derivesFromParam(lk.Index, fn.Params[0]) {
			return
		}
		for _, r := range *lk.Referrers() {
			if ex, ok := r.(*ssa.Extract); ok && ex.Index == 1 {
				for _, rr := range *ex.Referrers() {
					if iff, ok := rr.(*ssa.If); ok {
						if allPathsReturnError(iff.Block().Succs[1], iff.Block().Succs[0]) {
							miss = true
						}
					}
				}
			}
		}
	})
	c.check(miss, name+"|unknown-key", c.pos(fn.Pos()), name, "a key without a signature row is an error", "NewScale no longer returns an error for a key that has no row in the signature table (e.g. E#, Fb): a scale is made up for it")
	// accidental assignment
	tr := &tracer{c: c, stop: func(f *ssa.Function) bool { return isExportedFn(f) }}
	classifyG := func(gs []gcond) (in, sharp string) {
		in, sharp = "?", "?"
		for _, g := range gs {
			gl := tr.trace(g.cond)
			if call, ok := gl.v.(*ssa.Call); ok && calleeName(&call.Call) == "util.Set.In" {
				if n, _, ok := loadedField(tr.trace(gl.with(call.Call.Args[1])).v); ok && n == "Name" {
					in = fmt.Sprint(g.want)
				}
			}
			if n, _, ok := loadedField(gl.v); ok && n == "isSharp" {
				sharp = fmt.Sprint(g.want)
			}
		}
		return in, sharp
	}
	classify := func(b *ssa.BasicBlock) (in, sharp, known string) {
		in, sharp = classifyG(guardsOf(b, lval{nil, fn, nil}))
		return in, sharp, ""
	}
	acc := c.enumConsts("op", "Accidental")
	want := map[int64][2]string{acc["Sharp"]: {"true", "true"}, acc["Flat"]: {"true", "false"}, acc["Natural"]: {"false", "?"}}
	names := map[int64]string{acc["Sharp"]: "Sharp", acc["Flat"]: "Flat", acc["Natural"]: "Natural"}
	got := map[int64]bool{}
	allInstrs(fn, func(in ssa.Instruction) {
		st, ok := in.(*ssa.Store)
		if !ok {
			return
		}
		n, _, ok := fieldName(st.Addr)
		if !ok || n != "Accidental" {
			return
		}
		// the value may be chosen by an extracted helper with one return per case: expand it into guarded alternatives
		for _, a := range tr.alts(lval{st.Val, fn, nil}, 0) {
			k, ok := constInt(a.leaf.v)
			if !ok {
				c.undec(name+"|accidental", c.pos(st.Pos()), name, "a scale note's accidental is not a constant")
				return
			}
			c.site(1)
			// `x.Accidental = Natural` first and the altered value over it afterwards: the first holds where the second does not run
			later, simple := overwrittenUnless(st, lval{nil, fn, nil})
			if !simple {
				later = nil
			}
			inS, shS := classifyG(append(append(guardsOf(st.Block(), lval{nil, fn, nil}), a.conds...), later...))
			w, known := want[k]
			got[k] = true
			good := known && inS == w[0] && (w[1] == "?" || shS == w[1])
			c.check(good, name+"|accidental|"+names[k], c.pos(st.Pos()), name, fmt.Sprintf("%s when in-signature=%s sharp-key=%s", names[k], inS, shS), fmt.Sprintf("a scale note becomes %s when in-signature=%s sharp-key=%s; it must be Sharp iff the letter is in the signature of a sharp key, Flat iff in the signature of a flat key, Natural otherwise", names[k], inS, shS))
		}
	})
	for k, nm := range names {
		if !got[k] {
			c.bad(name+"|accidental|"+nm, c.pos(fn.Pos()), name, "no scale note is ever given the accidental "+nm)
		}
	}
	// counts
	for _, f := range []struct{ field, sharp string }{{"Sharp", "true"}, {"Flat", "false"}} {
		c.site(1)
		good := false
		allInstrs(fn, func(in ssa.Instruction) {
			st, ok := in.(*ssa.Store)
			if !ok {
				return
			}
			n, _, ok := fieldName(st.Addr)
			if !ok || n != f.field {
				return
			}
			call, ok := st.Val.(*ssa.Call)
			if !ok || calleeName(&call.Call) != "util.Set.Len" {
				return
			}
			_, shS, _ := classify(st.Block())
			good = shS == f.sharp
		})
		c.check(good, name+"|count|"+f.field, c.pos(fn.Pos()), name, f.field+" = size of the signature set for that kind of key", fmt.Sprintf("Scale.%s is not set to the signature set's size exactly for %s keys: the key-signature event and `info key` report the wrong number of accidentals", f.field, strings.ToLower(f.field)))
	}
	// notes: the seven letters from the tonic
	c.site(1)
	raw := firstCall(fn, staticOf("op.newRawScaleNotes"))
	good := false
	if raw != nil {
		n, _, ok := loadedField(raw.Common().Args[0])
		good = ok && n == "Name"
		if !good {
			ac := &affCtx{c: c, fn: fn, alias: map[ssa.Value]string{}}
			good = strings.HasSuffix(ac.describe(raw.Common().Args[0]), "p0.Name")
		}
	}
	c.check(good, name+"|letters", c.pos(fn.Pos()), name, "letters start at the key's own letter", "the scale's letters are not generated from the key's tonic letter")
	// the same loop covers all seven notes
	if raw != nil {
		var anyStore *ssa.Store
		allInstrs(fn, func(in ssa.Instruction) {
			if st, ok := in.(*ssa.Store); ok {
				if n, _, ok := fieldName(st.Addr); ok && n == "Accidental" {
					anyStore = st
				}
			}
		})
		if anyStore != nil {
			l := enclosingRangeLoop(anyStore.Block())
			k := int64(-1)
			if l != nil {
				k, _ = constInt(l.bound)
			}
			c.check(l != nil && k == 7, name+"|all-notes", c.pos(fn.Pos()), name, "all seven notes get their accidental", "the accidental loop does not cover the seven scale notes")
		}
	}
	// MustNewScale = NewScale + panic
	if m := c.fn("op", "MustNewScale"); m != nil {
		c.check(len(callsTo(m, "op.NewScale")) == 1, fname(m), c.pos(m.Pos()), fname(m), "wraps NewScale", "MustNewScale no longer wraps NewScale")
	}
}

// ---------------------------------------------------------------------------
// CIRCLEWIRE

func ruleCircleWire(c *Ctx) {
	circleDecided := false
	// the conversions themselves, decided on 28 keys x 40 chains by folding when it folds
	if fn := c.fn("op", "KeyConversionChain.Convert"); fn != nil {
		if problem, n, ok := c.circleVerdict(); ok {
			circleDecided = problem == ""
			c.site(1)
			c.check(problem == "", "op.KeyConversionChain.Convert|domain", c.pos(fn.Pos()), fname(fn), fmt.Sprintf("%d chains (28 keys x every chain of length 1 and 2, the chains x y x, twelve dominants, twelve subdominants, two long alternations) folded on NewCircleOfFifth(): each equals the composition of its steps and lists every supported spelling", n), fname(fn)+": "+problem)
		}
	}
	// find
	if fn := c.fn("op", "CircleOfFifth.find"); fn != nil {
		c.site(1)
		name := fname(fn)
		idxCall := firstCall(fn, staticOf("op.CircleOfFifth.index"))
		ats := callsTo(fn, "op.Circle.At")
		tr := c.plainTracer()
		problem := ""
		if idxCall == nil || idxCall.Common().Args[1] != ssa.Value(fn.Params[1]) {
			problem = "the index is not looked up for the given key"
		} else if len(ats) == 0 {
			problem = "no ring access"
		} else {
			var idx ssa.Value
			for _, r := range *idxCall.(*ssa.Call).Referrers() {
				if ex, ok := r.(*ssa.Extract); ok && ex.Index == 0 {
					idx = ex
				}
			}
			// which ring is read under which value of isMinor: the choice may be an if/else around two calls or a
			// helper that selects the ring (guarded alternatives of the receiver)
			pairs := map[string]bool{}
			for _, at := range ats {
				add, ok := at.Common().Args[1].(*ssa.BinOp)
				if !ok || add.Op != token.ADD || !((add.X == idx && add.Y == ssa.Value(fn.Params[3])) || (add.Y == idx && add.X == ssa.Value(fn.Params[3]))) {
					problem = "the slot is not index + delta"
				}
				site := guardsOf(at.Block(), lval{nil, fn, nil})
				for _, a := range tr.alts(lval{at.Common().Args[0], fn, nil}, 0) {
					ring, _, ok := loadedField(a.leaf.v)
					if !ok {
						problem = "the ring is not a field of the circle"
						continue
					}
					side, known := false, false
					for _, g := range append(append([]gcond{}, site...), a.conds...) {
						if gl := tr.trace(g.cond); len(gl.chain) == 0 && gl.v == ssa.Value(fn.Params[2]) {
							side, known = g.want, true
						}
					}
					if !known {
						problem = fmt.Sprintf("ring %s is used whatever isMinor is", ring)
						continue
					}
					pairs[fmt.Sprintf("%s/%v", ring, side)] = true
					if (ring == "Minors") != side {
						problem = fmt.Sprintf("ring %s is used when isMinor=%v", ring, side)
					}
				}
			}
			if problem == "" && !(pairs["Minors/true"] && pairs["Majors/false"] && len(pairs) == 2) {
				problem = fmt.Sprintf("ring selection is %v, want Minors when isMinor and Majors otherwise", sortedKeys(pairs))
			}
			if !c.errorReturned(idxCall.(*ssa.Call)) {
				problem = "a key that is in no slot is not an error"
			}
		}
		c.check(problem == "", name, c.pos(fn.Pos()), name, "ring(isMinor).At(index(key) + delta)", name+": "+problem)
	} else {
		c.missing("op.CircleOfFifth.find")
	}
	// index: own mode's ring
	if fn := c.fn("op", "CircleOfFifth.index"); fn != nil {
		c.site(1)
		name := fname(fn)
		problem := ""
		tr := c.plainTracer()
		calls := callsTo(fn, "op.Circle.Index")
		if len(calls) == 0 {
			problem = "no ring search"
		}
		pairs := map[string]bool{}
		for _, ci := range calls {
			site := guardsOf(ci.Block(), lval{nil, fn, nil})
			for _, a := range tr.alts(lval{ci.Common().Args[0], fn, nil}, 0) {
				ring, _, ok := loadedField(a.leaf.v)
				if !ok {
					problem = "ring is not a field"
					continue
				}
				side, found := false, false
				for _, g := range append(append([]gcond{}, site...), a.conds...) {
					if n, _, ok := loadedField(tr.trace(g.cond).v); ok && n == "Minor" {
						side, found = g.want, true
					}
				}
				pairs[fmt.Sprintf("%s/%v", ring, side)] = true
				if !found || (ring == "Minors") != side {
					problem = fmt.Sprintf("ring %s is searched when key.Minor=%v", ring, side)
				}
			}
			if ci.Common().Args[1] != ssa.Value(fn.Params[1]) {
				ac := &affCtx{c: c, fn: fn, alias: map[ssa.Value]string{}}
				if ac.describe(ci.Common().Args[1]) != "p1" {
					problem = "the ring is not searched for the given key"
				}
			}
		}
		if problem == "" && !(pairs["Minors/true"] && pairs["Majors/false"] && len(pairs) == 2) {
			problem = fmt.Sprintf("ring selection is %v, want Minors for minor keys and Majors otherwise", sortedKeys(pairs))
		}
		c.check(problem == "", name, c.pos(fn.Pos()), name, "searches the ring of the key's own mode", name+": "+problem)
	} else {
		c.missing("op.CircleOfFifth.index")
	}
	// Circle.Index: all slots, membership by Keys().In(key), returns the slot index
	if fn := c.fn("op", "Circle.Index"); fn != nil && circleDecided {
		c.site(1)
		c.ok(fname(fn), c.pos(fn.Pos()), fname(fn), "decided by op.KeyConversionChain.Convert|domain: every conversion step from every key was folded on the real circle, however a key's slot is found")
	} else if fn != nil {
		c.site(1)
		// the membership test: Keys().In(key), or the comma-ok of Get(key), of the member in slot i
		var in ssa.CallInstruction
		var member ssa.Value
		for _, ci := range callsIn(fn) {
			args := ci.Common().Args
			switch calleeName(ci.Common()) {
			case "util.Set.In":
				if kc, ok := args[0].(*ssa.Call); ok && calleeName(&kc.Call) == "op.CircleMember.Keys" && len(args) == 2 && args[1] == ssa.Value(fn.Params[1]) {
					in, member = ci, kc.Call.Args[0]
				}
			case "op.CircleMember.Get":
				if len(args) == 2 && args[1] == ssa.Value(fn.Params[1]) {
					in, member = ci, args[0]
				}
			}
		}
		good := in != nil && inLoop(in.Block())
		if good {
			l := enclosingRangeLoop(in.Block())
			good = l != nil
			if good {
				// ... of the member at the loop index
				at, isAt := member.(*ssa.Call)
				good = isAt && calleeName(&at.Call) == "util.Ring.At" && at.Call.Args[1] == l.index
			}
			if good {
				// ... and it decides the hit
				decides := false
				for _, r := range returnsOf(fn) {
					if b, ok := constBool(r.Results[1]); !ok || !b {
						continue
					}
					for _, g := range guardsOf(r.Block(), lval{nil, fn, nil}) {
						v := g.cond.v
						if ex, ok := v.(*ssa.Extract); ok && ex.Index == 1 {
							v = ex.Tuple
						}
						if v == in.Value() && g.want {
							decides = true
						}
					}
				}
				good = decides
			}
			if good {
				bc, ok := l.bound.(*ssa.Call)
				good = ok && calleeName(&bc.Call) == "util.Ring.Len"
				// returns the loop index on a hit
				hit := false
				for _, r := range returnsOf(fn) {
					if r.Results[0] == l.index {
						if b, ok := constBool(r.Results[1]); ok && b {
							hit = true
						}
					}
				}
				good = good && hit
			}
		}
		c.check(good, fname(fn), c.pos(fn.Pos()), fname(fn), "scans every slot, returns the index of the slot that contains the key", "Circle.Index no longer scans all slots and returns the matching slot's index")
	}
	// Ring.At: modulo len, negative wrapped
	if fn := c.fn("util", "Ring.At"); fn != nil {
		c.site(1)
		// decided by folding for the ring lengths crd uses (7 letters, 12 slots) and every index in -2n..3n
		if problem, ok := c.ringAtByFolding(fn); ok {
			c.check(problem == "", fname(fn), c.pos(fn.Pos()), fname(fn), "element ((i mod n) + n) mod n for n = 1, 7, 12 and i = -2n..3n (folded)", "Ring.At: "+problem+": subdominant / parallel conversions near slot 0 index out of range or land on the wrong slot")
		} else {
			var rem *ssa.BinOp
			wrap := false
			allInstrs(fn, func(in ssa.Instruction) {
				b, ok := in.(*ssa.BinOp)
				if !ok {
					return
				}
				if b.Op == token.REM && b.X == ssa.Value(fn.Params[1]) {
					if call, ok := b.Y.(*ssa.Call); ok && calleeName(&call.Call) == "builtin.len" {
						rem = b
					}
				}
			})
			if rem != nil {
				allInstrs(fn, func(in ssa.Instruction) {
					b, ok := in.(*ssa.BinOp)
					if !ok || b.Op != token.ADD || b.X != ssa.Value(rem) {
						return
					}
					if call, ok := b.Y.(*ssa.Call); ok && calleeName(&call.Call) == "builtin.len" {
						// guarded by rem < 0
						for _, pc := range pathConds(b.Block()) {
							if cmp, ok := pc.cond.(*ssa.BinOp); ok && cmp.Op == token.LSS && cmp.X == ssa.Value(rem) && pc.side {
								if z, ok := constInt(cmp.Y); ok && z == 0 {
									wrap = true
								}
							}
						}
					}
				})
			}
			c.check(rem != nil && wrap, fname(fn), c.pos(fn.Pos()), fname(fn), "i mod len, plus len when negative", "Ring.At no longer reduces the index modulo the ring length with negative indices wrapped: subdominant / parallel conversions near slot 0 index out of range or land on the wrong slot")
		}
	} else {
		c.missing("util.Ring.At")
	}
	// Convert
	if fn := c.fn("op", "KeyConversionChain.Convert"); fn != nil {
		c.site(1)
		name := fname(fn)
		ns := firstCall(fn, staticOf("op.NewScale"))
		nm := firstCall(fn, staticOf("op.NewCircleMember"))
		problem := ""
		switch {
		case ns == nil || ns.Common().Args[0] != ssa.Value(fn.Params[2]):
			problem = "the chain does not start from the scale of the given key"
		case !c.errorReturned(ns.(*ssa.Call)):
			problem = "an unsupported start key is not an error"
		case nm == nil:
			problem = "the start member is not built from that scale"
		}
		// the conversion of each step is applied to a key of the current member, in the order of the chain
		var conv ssa.CallInstruction
		for _, rc := range c.regionCalls(fn, nil) {
			if calleeName(rc.call.Common()) == "op.KeyConversion.Converter" {
				conv = rc.call
			}
		}
		if problem == "" && conv == nil {
			problem = "the steps' converters are never applied"
		}
		if problem == "" {
			outer := false
			var outerLoop map[*ssa.BasicBlock]bool
			for _, f := range withClosures(fn) {
				allInstrs(f, func(in ssa.Instruction) {
					if ia, ok := in.(*ssa.IndexAddr); ok && ia.X == ssa.Value(fn.Params[0]) {
						if l := enclosingRangeLoop(ia.Block()); l != nil && ia.Index == l.index {
							if bc, ok := l.bound.(*ssa.Call); ok && calleeName(&bc.Call) == "builtin.len" && bc.Call.Args[0] == ssa.Value(fn.Params[0]) {
								outer = true
								if f == fn {
									outerLoop = l.blocks
								}
							}
						}
					}
				})
			}
			if !outer {
				problem = "the steps are not applied in order over the whole chain"
			}
			// a step that fails ends the chain there and then: an error return inside the loop over the steps (a later
			// step that happens to succeed must not wipe the failure out)
			if problem == "" {
				inside := false
				for _, b := range fn.Blocks {
					r, isRet := b.Instrs[len(b.Instrs)-1].(*ssa.Return)
					if !isRet || len(r.Results) != 2 || isNilConst(r.Results[1]) {
						continue
					}
					// (a returning block is an exit of the loop: it hangs on a block of the loop)
					for _, p := range b.Preds {
						if outerLoop != nil && outerLoop[p] {
							inside = true
						}
					}
				}
				if !inside {
					problem = "the error of a failing step is not returned from inside the loop over the steps: a later step can reset it, so an unknown conversion letter in the middle of a chain is skipped silently"
				}
			}
		}
		c.check(problem == "", name, c.pos(fn.Pos()), name, "NewScale(key) -> member; every step in order on the current member", name+": "+problem)
		// every letter is a step: no round of the loop over the chain goes by without the step's converter being applied
		// (a shortcut that recognises `a step and its inverse` and skips the look-up is right for two letters and wrong
		// for three), and the key the converter is applied to is read from the current member
		if problem == "" && conv != nil {
			c.site(1)
			p2 := ""
			// the instruction of Convert itself that stands for the application (the converter may be applied inside the
			// body of a range-over-func loop, which is a closure)
			var at ssa.Instruction = conv
			for at.Parent() != fn && at.Parent() != nil && at.Parent().Parent() != nil {
				g := at.Parent()
				var use ssa.Instruction
				allInstrs(g.Parent(), func(in ssa.Instruction) {
					if mc, ok := in.(*ssa.MakeClosure); ok && mc.Fn == ssa.Value(g) {
						for _, r := range *mc.Referrers() {
							if _, isCall := r.(ssa.CallInstruction); isCall {
								use = r
							}
						}
					}
				})
				if use == nil {
					break
				}
				at = use
			}
			if at.Parent() == fn {
				if l := enclosingRangeLoop(at.Block()); l != nil {
					seen := map[*ssa.BasicBlock]bool{at.Block(): true}
					var walk func(b *ssa.BasicBlock) bool
					walk = func(b *ssa.BasicBlock) bool {
						if b == l.header {
							return true
						}
						if seen[b] || !l.blocks[b] {
							return false
						}
						seen[b] = true
						for _, s := range b.Succs {
							if walk(s) {
								return true
							}
						}
						return false
					}
					for _, s := range l.header.Succs {
						if l.blocks[s] && s != l.header && walk(s) {
							p2 = "a round of the loop over the chain can go by without the step's converter being applied: that letter is not a step of its own"
						}
					}
				} else {
					p2 = "the steps' converters are not applied inside the loop over the chain"
				}
			}
			// the member variable: what a successful return hands back
			memberVars := map[ssa.Value]bool{}
			for _, r := range returnsOf(fn) {
				if len(r.Results) == 2 && isNilConst(r.Results[1]) {
					v := r.Results[0]
					if u, ok := v.(*ssa.UnOp); ok && u.Op == token.MUL {
						v = u.X
					}
					memberVars[v] = true
				}
			}
			for _, g := range withClosures(fn) {
				if g == fn {
					continue
				}
				allInstrs(g.Parent(), func(in ssa.Instruction) {
					if mc, ok := in.(*ssa.MakeClosure); ok && mc.Fn == ssa.Value(g) {
						for i, b := range mc.Bindings {
							if memberVars[b] && i < len(g.FreeVars) {
								memberVars[g.FreeVars[i]] = true
							}
						}
					}
				})
			}
			var applied *ssa.Call
			if cv, ok := conv.(*ssa.Call); ok {
				for _, r := range *cv.Referrers() {
					if d, ok := r.(*ssa.Call); ok && d.Call.Value == ssa.Value(cv) && len(d.Call.Args) == 1 {
						applied = d
					}
				}
			}
			if p2 == "" && applied != nil {
				fromMember := dataDependsOn(applied.Call.Args[0], func(v ssa.Value) bool {
					call, ok := v.(*ssa.Call)
					if !ok || len(call.Call.Args) == 0 || !strings.HasPrefix(calleeName(&call.Call), "op.CircleMember.") {
						return false
					}
					r := call.Call.Args[0]
					if u, ok := r.(*ssa.UnOp); ok && u.Op == token.MUL {
						r = u.X
					}
					return memberVars[r]
				})
				if !fromMember {
					p2 = "the key a step is applied to is not read from the current member (the result of the step before): the steps work on a list of their own that can grow from round to round"
				}
			}
			c.check(p2 == "", name+"|every-step", c.pos(conv.Pos()), name, "every round applies the step's converter to a key of the current member", name+": "+p2)
		}
	} else {
		c.missing("op.KeyConversionChain.Convert")
	}
	// the CLI applies the letters of -c from left to right: conversions[i] = f(command[i])
	for f, a := range funcAlias {
		if a != "cmd.infoKeyCmdConv.RunE" {
			continue
		}
		c.site(1)
		good := false
		allInstrs(f, func(in ssa.Instruction) {
			st, ok := in.(*ssa.Store)
			if !ok {
				return
			}
			ia, ok := st.Addr.(*ssa.IndexAddr)
			if !ok || typeName(st.Val.Type()) != "op.KeyConversion" {
				return
			}
			call, ok := st.Val.(*ssa.Call)
			if !ok {
				return
			}
			// index and rune come from the same `range command` step
			idx, ok1 := ia.Index.(*ssa.Extract)
			var rn *ssa.Extract
			if len(call.Call.Args) == 1 {
				rn, _ = call.Call.Args[0].(*ssa.Extract)
			}
			if ok1 && rn != nil && idx.Tuple == rn.Tuple && idx.Index == 1 && rn.Index == 2 {
				if _, isNext := idx.Tuple.(*ssa.Next); isNext {
					good = true
				}
			}
		})
		c.check(good, "cmd.infoKeyCmdConv.RunE|chain-order", c.pos(f.Pos()), fname(f), "conversions[i] is the conversion of the i-th letter", "the letters of -c are not stored at their own positions (conversions[i] = f(command[i])): the chain is applied in another order, and p / r do not commute with each other")
	}
	// member(): every seed spelling becomes a scale of the member; Keys() lists them all
	if fn := c.fn("op", "circleMemberSeed.member"); fn != nil {
		c.site(1)
		ms := firstCall(fn, staticOf("op.MustNewScale"))
		good := ms != nil && inLoop(ms.Block()) && c.loopCoversSlice(ms.Block())
		c.check(good, fname(fn), c.pos(fn.Pos()), fname(fn), "one scale per seed spelling", "circleMemberSeed.member no longer builds one scale for every listed spelling: results do not list every supported spelling")
	}
	if fn := c.fn("op", "NewCircleMember"); fn != nil {
		c.site(1)
		good := false
		allInstrs(fn, func(in ssa.Instruction) {
			if mu, ok := in.(*ssa.MapUpdate); ok && inLoop(mu.Block()) {
				if n, _, ok := loadedField(mu.Key); ok && n == "Key" {
					good = true
				}
			}
		})
		c.check(good, fname(fn), c.pos(fn.Pos()), fname(fn), "member keyed by each scale's key", "NewCircleMember no longer stores every scale under its own key")
	}
}

// ---------------------------------------------------------------------------
// ADDDEGREE

func ruleAddDegree(c *Ctx) {
	fn := c.fn("note", "Note.AddDegree")
	if fn == nil {
		c.missing("note.Note.AddDegree")
		return
	}
	name := fname(fn)
	acc := c.enumConsts("note", "Accidental")
	accName := map[int64]string{}
	for k, v := range acc {
		accName[v] = k
	}
	// the whole function on its whole domain, by folding, when it folds: how the spellings are enumerated no longer matters
	addDegreeDecided := false
	if problem, calls, ok := c.addDegreeByFolding(fn); ok {
		addDegreeDecided = problem == ""
		c.site(1)
		c.check(problem == "", name+"|domain", c.pos(fn.Pos()), name, fmt.Sprintf("%d calls (21 spellings x every interval 0..16 of every quality x both preferences) folded: natural spelling when there is one, else the preferred accidental; octave = floor(sum / 12); invalid intervals refused", calls), name+": "+problem)
		c.addDegreeFolded = true
	}
	// preference lists: every constant list of accidentals built in AddDegree (or in a helper it calls), with the value of
	// precedeSharp under which it is built (a variadic call per branch, or a helper that returns the order)
	n := 0
	tr := c.plainTracer()
	accT := ""
	if p := c.pkg("note"); p != nil {
		accT = "note.Accidental"
	}
	lists := c.regionFuncChains(fn, nil)
	var lfns []*ssa.Function
	for f := range lists {
		lfns = append(lfns, f)
	}
	sort.Slice(lfns, func(i, j int) bool { return fname(lfns[i]) < fname(lfns[j]) })
	for _, f := range lfns {
		chain := lists[f]
		allInstrs(f, func(in ssa.Instruction) {
			sl, ok := in.(*ssa.Slice)
			if !ok {
				return
			}
			st, isSlice := sl.Type().Underlying().(*types.Slice)
			if !isSlice || typeName(st.Elem()) != accT {
				return
			}
			list, ok := variadicConsts(sl)
			if !ok || len(list) == 0 {
				return
			}
			n++
			c.site(1)
			var names []string
			for _, v := range list {
				names = append(names, accName[v])
			}
			side, found := false, false
			for _, g := range guardsAlong(linstr{sl, chain}, 0) {
				if gl := tr.trace(g.cond); len(gl.chain) == 0 && gl.v == ssa.Value(fn.Params[2]) {
					side, found = g.want, true
				}
			}
			want := "Natural,Flat,Sharp"
			if side {
				want = "Natural,Sharp,Flat"
			}
			c.check(found && strings.Join(names, ",") == want, fmt.Sprintf("%s|prefer|sharp=%v", name, side), c.pos(sl.Pos()), name, fmt.Sprintf("precedeSharp=%v tries %v", side, names), fmt.Sprintf("with precedeSharp=%v the spellings are tried in the order %v, want %s (natural when possible, otherwise the requested accidental)", side, names, want))
		})
	}
	if n != 2 && !c.addDegreeFolded {
		c.bad(name+"|prefer", c.pos(fn.Pos()), name, fmt.Sprintf("%d preference lists found, want one per value of precedeSharp", n))
	}
	// pitch = n.Semitone() + d.Semitone(), split by WithoutOctave / Octave
	c.site(1)
	wo := firstCall(fn, staticOf("note.Semitone.WithoutOctave"))
	oc := firstCall(fn, staticOf("note.Semitone.Octave"))
	good := wo != nil && oc != nil && wo.Common().Args[0] == oc.Common().Args[0]
	if good {
		af := c.affine(fn, wo.Common().Args[0])
		good = af.bad == "" && af.k == 0 && len(af.nonzero()) == 2
		for _, t := range af.nonzero() {
			if !(strings.HasPrefix(t, "note.Note.Semitone(") || strings.HasPrefix(t, "note.Degree.Semitone(")) || af.terms[t] != 1 {
				good = false
			}
		}
	}
	if !good && c.addDegreeFolded {
		c.ok(name+"|sum", c.pos(fn.Pos()), name, "decided by "+name+"|domain")
	} else {
		c.check(good, name+"|sum", c.pos(fn.Pos()), name, "pitch = root + interval, split into pitch class and octave", "AddDegree no longer computes root semitone + interval semitone and splits that one sum into pitch class and octave")
	}
	// the ok of d.Semitone guards
	for _, ci := range callsTo(fn, "note.Degree.Semitone") {
		c.check(c.missReturnsError(ci.(*ssa.Call), 1, nil), name+"|invalid-interval", c.pos(ci.Pos()), name, "an invalid interval is an error", "an invalid interval is no longer an error in AddDegree")
	}
	// Octave / WithoutOctave use the octave constant with floor semantics
	for _, m := range []struct {
		fn string
		op token.Token
	}{{"Semitone.Octave", token.QUO}, {"Semitone.WithoutOctave", token.REM}} {
		f := c.fn("note", m.fn)
		if f == nil {
			c.missing("note." + m.fn)
			continue
		}
		c.site(1)
		// decided by folding on every reachable pitch (-24..200): floor division by 12 (for negative multiples of 12, which
		// AddDegree never produces, the historical answer "one octave lower, remainder 12" is accepted too)
		if problem, ok := c.octaveSplitByFolding(f, m.op == token.QUO); ok {
			c.check(problem == "", fname(f), c.pos(f.Pos()), fname(f), "floor division by 12 on -24..200 (folded)", fname(f)+": "+problem)
			continue
		}
		okConst := true
		cnt := 0
		negAdj := false
		allInstrs(f, func(in ssa.Instruction) {
			b, ok := in.(*ssa.BinOp)
			if !ok {
				return
			}
			if b.Op == m.op {
				cnt++
				if k, ok := constInt(b.Y); !ok || k != 12 {
					okConst = false
				}
			}
			// negative branch adjusts: -1 for Octave, +12 for WithoutOctave
			if (m.op == token.QUO && b.Op == token.SUB) || (m.op == token.REM && b.Op == token.ADD) {
				if k, ok := constInt(b.Y); ok && ((m.op == token.QUO && k == 1) || (m.op == token.REM && k == 12)) {
					negAdj = true
				}
			}
		})
		c.check(okConst && cnt >= 1 && negAdj, fname(f), c.pos(f.Pos()), fname(f), "divides by 12 with floor semantics for negative values", fmt.Sprintf("%s: uses-12=%v divisions=%d negative-adjustment=%v", fname(f), okConst, cnt, negAdj))
	}
	// findNameBySemitone: letter + accidental == wanted (a shape; decided with AddDegree when that folds on its domain)
	if f := c.fn("note", "Note.findNameBySemitone"); f != nil && addDegreeDecided {
		c.site(1)
		c.ok(fname(f), c.pos(f.Pos()), fname(f), "decided by note.Note.AddDegree|domain: every spelling x interval x preference folded, however the letter is found")
	} else if f != nil {
		c.site(1)
		good := false
		allInstrs(f, func(in ssa.Instruction) {
			b, ok := in.(*ssa.BinOp)
			if !ok || b.Op != token.EQL {
				return
			}
			if b.Y != ssa.Value(f.Params[1]) && b.X != ssa.Value(f.Params[1]) {
				return
			}
			other := b.X
			if other == ssa.Value(f.Params[1]) {
				other = b.Y
			}
			af := c.affine(f, other)
			if af.bad == "" && af.k == 0 && len(af.nonzero()) == 2 {
				good = true
				for _, t := range af.nonzero() {
					if !(strings.HasPrefix(t, "note.Name.Semitone(") || strings.HasPrefix(t, "note.Accidental.Semitone(")) || af.terms[t] != 1 {
						good = false
					}
				}
			}
		})
		if !good && c.addDegreeFolded {
			c.ok(fname(f), c.pos(f.Pos()), fname(f), "decided by "+name+"|domain")
		} else {
			c.check(good, fname(f), c.pos(f.Pos()), fname(f), "letter + accidental == wanted pitch class", "findNameBySemitone no longer compares letter pitch + accidental with the wanted pitch class")
		}
	}
}

// ringAtByFolding folds Ring.At on rings of n distinct constants; ok=false when it does not fold.
func (c *Ctx) ringAtByFolding(fn *ssa.Function) (string, bool) {
	for _, n := range []int{1, 7, 12} {
		ring := &ListV{}
		for k := 0; k < n; k++ {
			ring.Elems = append(ring.Elems, &CVal{V: constant.MakeInt64(int64(100 + k)), T: types.Typ[types.Int]})
		}
		for i := -2 * n; i <= 3*n; i++ {
			r, err := c.newFolder().foldCall(fn, []fval{{cv: ring}, {k: constant.MakeInt64(int64(i)), t: types.Typ[types.Int]}})
			if err != nil || r.k == nil || r.k.Kind() != constant.Int {
				return "", false
			}
			got, _ := constant.Int64Val(r.k)
			want := int64(100 + ((i%n)+n)%n)
			if got != want {
				return fmt.Sprintf("on a ring of %d, index %d yields element %d, want element %d", n, i, got-100, want-100), true
			}
		}
	}
	return "", true
}

// octaveSplitByFolding folds Semitone.Octave (quo=true) or Semitone.WithoutOctave on -24..200.
func (c *Ctx) octaveSplitByFolding(f *ssa.Function, quo bool) (string, bool) {
	for sv := int64(-24); sv <= 200; sv++ {
		r, err := c.newFolder().foldCall(f, []fval{{k: constant.MakeInt64(sv), t: f.Params[0].Type()}})
		if err != nil || r.k == nil || r.k.Kind() != constant.Int {
			return "", false
		}
		got, _ := constant.Int64Val(r.k)
		fl := sv / 12
		if sv < 0 && sv%12 != 0 {
			fl--
		}
		rem := sv - 12*fl
		want, alt := fl, fl
		if !quo {
			want, alt = rem, rem
		}
		if sv < 0 && sv%12 == 0 {
			if quo {
				alt = fl - 1
			} else {
				alt = 12
			}
		}
		if got != want && got != alt {
			return fmt.Sprintf("for %d semitones the result is %d, want %d", sv, got, want), true
		}
	}
	return "", true
}

// shapePreservingMarshal: every return of T.MarshalYAML yields T's own underlying map type or a *yaml.Node (built as a
// mapping when T is a map): what is printed has the shape the default decoder of T expects, no UnmarshalYAML is needed.
func (c *Ctx) shapePreservingMarshal(n *types.Named) bool {
	if _, isMap := n.Underlying().(*types.Map); !isMap {
		return false
	}
	var fn *ssa.Function
	for _, tt := range []types.Type{n, types.NewPointer(n)} {
		ms := c.Prog.MethodSets.MethodSet(tt)
		for i := 0; i < ms.Len(); i++ {
			if ms.At(i).Obj().Name() == "MarshalYAML" {
				if f := c.Prog.MethodValue(ms.At(i)); f != nil && f.Synthetic == "" {
					fn = f
				}
			}
		}
	}
	if fn == nil || len(fn.Blocks) == 0 {
		return false
	}
	rets := returnsOf(fn)
	if len(rets) == 0 {
		return false
	}
	for _, r := range rets {
		v := retVal(r, 0)
		mi, ok := v.(*ssa.MakeInterface)
		if !ok {
			return false
		}
		t := mi.X.Type()
		if types.Identical(t.Underlying(), n.Underlying()) {
			continue
		}
		if p, ok := t.(*types.Pointer); ok && typeName(p.Elem()) == "gopkg.in/yaml.v3.Node" {
			// a mapping node
			isMapping := false
			if al, ok := mi.X.(*ssa.Alloc); ok {
				for _, ref := range *al.Referrers() {
					if fa, ok := ref.(*ssa.FieldAddr); ok {
						if fnm, _, _ := fieldName(fa); fnm == "Kind" {
							for _, rr := range *fa.Referrers() {
								if st, ok := rr.(*ssa.Store); ok {
									if k, ok := constInt(st.Val); ok && k == 4 { // yaml.MappingNode
										isMapping = true
									}
								}
							}
						}
					}
				}
			}
			if isMapping {
				continue
			}
		}
		return false
	}
	return true
}

// addDegreeByFolding decides note.Note.AddDegree on 21 spellings x (every quality and the unknown one) x numbers 0..16 x
// both preferences by folding: the sum of root and interval is spelled with a natural when its pitch class has one,
// otherwise with a sharp on the letter below (precedeSharp) or a flat on the letter above; the octave is floor(sum/12);
// an invalid interval is refused. ok=false when the function does not fold.
func (c *Ctx) addDegreeByFolding(fn *ssa.Function) (string, int, bool) {
	if len(fn.Params) != 3 {
		return "", 0, false
	}
	names := c.enumConsts("note", "Name")
	accs := c.enumConsts("note", "Accidental")
	dnames := c.enumConsts("note", "DegreeName")
	nameOf, accOf := map[int64]string{}, map[int64]string{}
	for k, v := range names {
		nameOf[v] = k
	}
	for k, v := range accs {
		accOf[v] = k
	}
	accSemi := map[string]int{"Natural": 0, "Sharp": 1, "Flat": -1}
	white := map[int]string{}
	for _, l := range specLetters {
		white[specNatural(l)] = l
	}
	n := 0
	for _, l := range specLetters {
		for _, a := range []string{"Natural", "Sharp", "Flat"} {
			for _, dn := range sortedKeys(dnames) {
				q, known := degreeNameQuality[dn]
				for num := 0; num <= 16; num++ {
					size, valid := 0, false
					if known {
						size, valid = specSize(num, q)
					}
					for _, sharp := range []bool{false, true} {
						recv := fval{fields: map[string]fval{"Name": {k: constant.MakeInt64(names[l])}, "Accidental": {k: constant.MakeInt64(accs[a])}}}
						d := fval{fields: map[string]fval{"Name": {k: constant.MakeInt64(dnames[dn])}, "Value": {k: constant.MakeInt64(int64(num))}}}
						r, err := c.newFolder().foldCall(fn, []fval{recv, d, {k: constant.MakeBool(sharp)}})
						if err != nil || len(r.tuple) != 3 || !(r.tuple[2].isNil || r.tuple[2].nonNil) {
							if os.Getenv("CRDCHECK_DEBUG") != "" {
								fmt.Fprintf(os.Stderr, "addDegreeByFolding: %s %s + %s %d does not fold: %v %v\n", l, a, dn, num, err, r)
							}
							return "", 0, false
						}
						n++
						what := fmt.Sprintf("%s%s + %s %d (sharp preferred=%v)", l, accSemi2(a), strings.TrimSuffix(dn, "Degree"), num, sharp)
						succeeded := r.tuple[2].isNil
						if succeeded != valid {
							if valid {
								return what + ": refused, although the interval is valid", n, true
							}
							return what + ": accepted, although there is no such interval", n, true
						}
						if !valid {
							continue
						}
						sum := specNatural(l) + accSemi[a] + size
						pc := ((sum % 12) + 12) % 12
						oct := (sum - pc) / 12
						wl, wa := "", "Natural"
						if w, isWhite := white[pc]; isWhite {
							wl = w
						} else if sharp {
							wl, wa = white[pc-1], "Sharp"
						} else {
							wl, wa = white[pc+1], "Flat"
						}
						nt := r.tuple[0]
						if nt.fields == nil || nt.fields["Name"].k == nil || nt.fields["Accidental"].k == nil || r.tuple[1].k == nil {
							return "", 0, false
						}
						gn, _ := constant.Int64Val(nt.fields["Name"].k)
						ga, _ := constant.Int64Val(nt.fields["Accidental"].k)
						goct, _ := constant.Int64Val(r.tuple[1].k)
						if nameOf[gn] != wl || accOf[ga] != wa || goct != int64(oct) {
							return fmt.Sprintf("%s yields %s %s in octave %d, want %s %s in octave %d (pitch %d)", what, nameOf[gn], accOf[ga], goct, wl, wa, oct, sum), n, true
						}
					}
				}
			}
		}
	}
	return "", n, true
}

// checkYamlNodesAreStrings: a yaml.Node built by hand is either a container (Kind set to a mapping / sequence / document
// constant) or a string scalar made with SetString (which tags it !!str). A bare scalar node is written plain whenever its
// text can be, also when the plain text reads back as null, a number or a boolean.
func (c *Ctx) checkYamlNodesAreStrings() {
	for _, fn := range c.srcFuncs() {
		allInstrs(fn, func(in ssa.Instruction) {
			al, ok := in.(*ssa.Alloc)
			if !ok || typeName(al.Type()) != "gopkg.in/yaml.v3.Node" {
				return
			}
			if _, isPtrToNode := al.Type().Underlying().(*types.Pointer).Elem().(*types.Named); !isPtrToNode {
				return
			}
			c.site(1)
			container, str := false, false
			for _, ref := range *al.Referrers() {
				switch x := ref.(type) {
				case *ssa.FieldAddr:
					fnm, _, _ := fieldName(x)
					for _, rr := range *x.Referrers() {
						st, ok := rr.(*ssa.Store)
						if !ok {
							continue
						}
						if k, ok := constInt(st.Val); ok && fnm == "Kind" && k != 8 { // anything but yaml.ScalarNode
							container = true
						}
						if k, ok := st.Val.(*ssa.Const); ok && fnm == "Tag" && k.Value != nil && k.Value.ExactString() == `"!!str"` {
							str = true
						}
					}
				case *ssa.Call:
					if calleeName(&x.Call) == "gopkg.in/yaml.v3.Node.SetString" && len(x.Call.Args) > 0 && x.Call.Args[0] == ssa.Value(al) {
						str = true
					}
				}
			}
			c.check(container || str, "yaml-node|"+c.ownerName(fn), c.pos(al.Pos()), fname(fn), "a hand-built node is a container or a !!str scalar", fname(fn)+": a yaml.Node is built as a bare scalar (no SetString, no !!str tag): a text such as `null`, `~`, `12` or `true` is printed plain and read back as something else (an empty text, say)")
		})
	}
}

// checkDecodersKeepWhatTheyRead: every UnmarshalYAML of the repository reads its node once - one parse of value.Value or
// one value.Decode into a local - and keeps exactly what that gave (through conversions and wrapping only): nothing else
// looks at the node's text and nothing writes to the decoded local.
func (c *Ctx) checkDecodersKeepWhatTheyRead() {
	// the reader of instances hands on what the document says: between decoding and returning nothing is applied to the
	// decoded instances (settings re-derived from the metadata would overwrite the typed fields the document carries)
	if pi := c.fn("cmd", "parseInstances"); pi != nil {
		c.site(1)
		var others []string
		for _, f := range c.regionFuncChainsList(pi) {
			for _, ci := range callsIn(f) {
				n := calleeName(ci.Common())
				switch {
				case strings.HasPrefix(n, "gopkg.in/yaml.v3."), strings.HasPrefix(n, "errorx."), strings.HasPrefix(n, "builtin."), strings.HasPrefix(n, "log/slog."), strings.HasPrefix(n, "logx."),
					strings.HasPrefix(n, "fmt."), strings.HasPrefix(n, "slices.Index"), strings.HasPrefix(n, "slices.Contains"), strings.HasPrefix(n, "bytes."), strings.HasPrefix(n, "io."), strings.HasPrefix(n, "errors."):
				default:
					if callee := staticCallee(ci.Common()); callee != nil && c.isRepoFunc(callee) && pkgOfFunc(callee) == pkgOfFunc(pi) {
						continue // a helper of the command package: looked into as part of the region
					}
					others = append(others, n+" ("+c.pos(ci.Pos())+")")
				}
			}
		}
		// ... and what is decoded is the document as it was read: the bytes handed to the YAML decoder are the function's
		// own parameter, not a trimmed or rewritten copy (line breaks at the end of the last block scalar are text)
		if len(pi.Params) == 1 {
			for _, f := range c.regionFuncChainsList(pi) {
				for _, ci := range callsIn(f) {
					if n := calleeName(ci.Common()); n == "gopkg.in/yaml.v3.Unmarshal" && f == pi {
						c.site(1)
						c.check(stripConv(ci.Common().Args[0]) == ssa.Value(pi.Params[0]), "decode|cmd.parseInstances|bytes-as-given", c.pos(ci.Pos()), fname(pi), "the YAML decoder is handed the bytes that were read", fname(pi)+": the bytes handed to the YAML decoder are not the bytes that were read (trimmed, re-cased or rewritten first): white space at the end of the document belongs to its last text - a txt / lic / mrk that ends in a line break loses it")
					}
				}
			}
		}
		sort.Strings(others)
		c.check(len(others) == 0, "decode|cmd.parseInstances|as-read", c.pos(pi.Pos()), fname(pi), "the decoded instances are handed on as the document says", fmt.Sprintf("%s applies %s to the decoded instances: what `write` plays is no longer what the document's fields say (e.g. settings re-derived from the metadata overwrite bpm / key / meter / velocity printed by `write conv`)", fname(pi), strings.Join(uniq(others), ", ")))
	}
	for _, fn := range c.srcFuncs() {
		if fn.Name() != "UnmarshalYAML" || fn.Signature.Recv() == nil || len(fn.Params) != 2 || typeName(fn.Params[1].Type()) != "gopkg.in/yaml.v3.Node" {
			continue
		}
		c.site(1)
		key := "decode|" + typeName(fn.Signature.Recv().Type())
		node := fn.Params[1]
		reads := 0
		problem := ""
		var decoded *ssa.Alloc
		for _, ref := range *node.Referrers() {
			switch x := ref.(type) {
			case *ssa.FieldAddr:
				fnm, _, _ := fieldName(x)
				if fnm != "Value" {
					continue // position, tag, ...: not the text
				}
				for _, rr := range *x.Referrers() {
					if ld, ok := rr.(*ssa.UnOp); ok && ld.Op == token.MUL {
						for _, use := range *ld.Referrers() {
							if _, isDbg := use.(*ssa.DebugRef); isDbg {
								continue
							}
							// handing the text to a logger or into an error message is not reading it
							if !dataReaches(ld, func(r ssa.Instruction) bool {
								ci, ok := r.(ssa.CallInstruction)
								return ok && r == use && !diagnosticCallee(calleeName(ci.Common())) && calleeName(ci.Common()) != "fmt.Errorf"
							}) {
								if _, isCall := use.(ssa.CallInstruction); isCall {
									continue
								}
								if _, isBox := use.(*ssa.MakeInterface); isBox {
									continue
								}
							}
							reads++
						}
					}
				}
			case *ssa.Call:
				if calleeName(&x.Call) == "gopkg.in/yaml.v3.Node.Decode" {
					reads++
					if mi, ok := x.Call.Args[1].(*ssa.MakeInterface); ok {
						decoded, _ = mi.X.(*ssa.Alloc)
					}
				}
			}
		}
		if reads != 1 {
			problem = fmt.Sprintf("the node's text is looked at %d times (one parse or one Decode is what the printers answer to)", reads)
		}
		if decoded != nil {
			for _, ref := range *decoded.Referrers() {
				switch x := ref.(type) {
				case *ssa.Store:
					if x.Addr == ssa.Value(decoded) {
						problem = "the decoded value is overwritten before it is kept"
					}
				case *ssa.FieldAddr:
					if !readOnlyAddr(x, 0) {
						problem = "a field of the decoded value is rewritten before it is kept (a printed 2/1, which prints as `2`, would read back as something else)"
					}
				}
			}
		}
		c.check(problem == "", key, c.pos(fn.Pos()), fname(fn), "reads the node once and keeps what that gave", fname(fn)+": "+problem)
		// ... and it does not succeed without keeping something: every return of a nil error comes after a store through
		// the receiver (a decoder that answers nil early leaves the zero value - an unknown sign, a tempo of 0 - in place)
		c.site(1)
		recv := fn.Params[0]
		var stores []ssa.Instruction
		allInstrs(fn, func(in ssa.Instruction) {
			if st, ok := in.(*ssa.Store); ok {
				a := st.Addr
				for i := 0; i < 4; i++ {
					if fa, ok := a.(*ssa.FieldAddr); ok {
						a = fa.X
						continue
					}
					break
				}
				if a == ssa.Value(recv) {
					stores = append(stores, st)
				}
			}
		})
		early := ""
		for _, r := range returnsOf(fn) {
			if len(r.Results) != 1 || !isNilConst(r.Results[0]) {
				continue
			}
			kept := false
			for _, st := range stores {
				if dominatesInstr(st, r) {
					kept = true
				}
			}
			if !kept {
				early = c.pos(r.Pos())
				if early == "" {
					early = "a return of nil"
				}
			}
		}
		c.check(early == "", key+"|keeps", c.pos(fn.Pos()), fname(fn), "every successful return comes after a store through the receiver", fmt.Sprintf("%s: succeeds (%s) without storing anything through the receiver: the value stays what it was - the zero value, which no constructor would hand out - and the text in the document is accepted unread", fname(fn), early))
	}
}

// scalesVerdict: scalesByFolding, once per run.
func (c *Ctx) scalesVerdict() (string, int, bool) {
	if c.scalesFold == nil {
		fn := c.fn("op", "NewScale")
		if fn == nil {
			c.scalesFold = &foldVerdict{}
		} else {
			p, n, ok := c.scalesByFolding(fn)
			c.scalesFold = &foldVerdict{p, n, ok}
		}
	}
	return c.scalesFold.problem, c.scalesFold.n, c.scalesFold.ok
}

// scalesByFolding folds op.NewScale on all 42 key spellings and compares with the independently derived scale.
// ok=false when the constructor (or the signature table behind it) does not fold.
func (c *Ctx) scalesByFolding(fn *ssa.Function) (string, int, bool) {
	names := c.enumConsts("note", "Name")
	accs := c.enumConsts("op", "Accidental")
	nameOf, accOf := map[int64]string{}, map[int64]int{}
	for k, v := range names {
		nameOf[v] = k
	}
	for k, v := range accs {
		switch k {
		case "Natural":
			accOf[v] = 0
		case "Sharp":
			accOf[v] = 1
		case "Flat":
			accOf[v] = -1
		}
	}
	accConst := map[int]string{0: "Natural", 1: "Sharp", -1: "Flat"}
	n := 0
	problem := ""
	for _, letter := range specLetters {
		for _, acc := range []int{0, 1, -1} {
			for _, minor := range []bool{false, true} {
				k := SpecKey{Letter: letter, Acc: acc, Minor: minor}
				key := fval{fields: map[string]fval{"Name": {k: constant.MakeInt64(names[letter])}, "Accidental": {k: constant.MakeInt64(accs[accConst[acc]])}, "Minor": {k: constant.MakeBool(minor)}}}
				fd := c.newFolder()
				fd.maxSteps = 20000
				r, err := fd.foldCall(fn, []fval{key})
				if err != nil || len(r.tuple) != 2 || !(r.tuple[1].isNil || r.tuple[1].nonNil) {
					if os.Getenv("CRDCHECK_DEBUG") != "" {
						fmt.Fprintf(os.Stderr, "scalesByFolding: %s does not fold: %v %s\n", k, err, r.String())
					}
					return "", 0, false
				}
				n++
				want, werr := specScale(k)
				if r.tuple[1].nonNil {
					// the two minor keys with seven accidentals (A#m, Abm) are outside the 28 keys crd supports: refusing
					// them is fine, accepting them is fine too as long as the scale is right
					required := false
					for _, rk := range requiredKeys() {
						required = required || rk == k.String()
					}
					if werr == nil && required && problem == "" {
						problem = fmt.Sprintf("the key %s is refused, it has the signature %+d", k, want.Sig)
					}
					continue
				}
				if werr != nil {
					if problem == "" {
						problem = fmt.Sprintf("the key %s is accepted, it has no conventional scale (%v)", k, werr)
					}
					continue
				}
				sc := fd.deref(r.tuple[0])
				if sc.fields == nil || sc.fields["Notes"].fields == nil {
					return "", 0, false
				}
				intOf := func(v fval) (int64, bool) {
					if v.k == nil || v.k.Kind() != constant.Int {
						return 0, false
					}
					return constant.Int64Val(v.k)
				}
				sharp, ok1 := intOf(sc.fields["Sharp"])
				flat, ok2 := intOf(sc.fields["Flat"])
				if !ok1 || !ok2 {
					return "", 0, false
				}
				if int(sharp)-int(flat) != want.Sig || (sharp != 0 && flat != 0) {
					if problem == "" {
						problem = fmt.Sprintf("the key %s gets %d sharps and %d flats, its signature is %+d", k, sharp, flat, want.Sig)
					}
				}
				for i := 0; i < 7; i++ {
					nt := fd.deref(sc.fields["Notes"].fields[fmt.Sprintf("#%d", i)])
					nm, ok1 := intOf(nt.fields["Name"])
					ac, ok2 := intOf(nt.fields["Accidental"])
					if nt.fields == nil || !ok1 || !ok2 {
						return "", 0, false
					}
					gotAcc, known := accOf[ac]
					if nameOf[nm] != want.Notes[i] || !known || gotAcc != want.Accs[i] {
						if problem == "" {
							problem = fmt.Sprintf("degree %d of %s is %s%+d, the derived scale has %s%+d there", i+1, k, nameOf[nm], gotAcc, want.Notes[i], want.Accs[i])
						}
					}
				}
			}
		}
	}
	return problem, n, true
}
