package main

// Lexer / grammar / converter rules: GEN-YACC, TOKENS, LEXMODE, PARSEERR, SPELL, UNDERSCORE, CONVORDER, CLASSIFY.

import (
	"bytes"
	"fmt"
	"go/ast"
	"go/constant"
	"go/parser"
	"go/token"
	"go/types"
	"os"
	"os/exec"
	"path/filepath"
	"reflect"
	"regexp"
	"sort"
	"strings"
	"unicode"

	"golang.org/x/tools/go/ssa"
)

func init() {
	register("GEN-YACC", "the committed parser is what goyacc generates from chords.y (AST-equal, comments and positions ignored) and the grammar has 0 shift/reduce and 0 reduce/reduce conflicts", 2, ruleGenYacc)
	register("TOKENS", "terminals used by the grammar's rules are all produced by the lexer, and the lexer produces only declared tokens", 15, ruleTokens)
	register("LEXMODE", "leading white space is discarded before every token; `;` skips to end of line and re-scans; `{`/`}` switch metadata mode on/off; `_` switches symbol mode on and the symbol switches it off; a missing symbol after `_` is an error", 8, ruleLexMode)
	register("PARSEERR", "parseText returns the lexer's error; its callers test the error before they touch the tree; only the generated parser stores the result", 4, ruleParseErr)
	register("SPELL", "every consumer of an accidental token goes through the type-dispatching canonicaliser, whose outputs are spellings every consumer table understands", 3, ruleSpell)
	register("UNDERSCORE", "`symbol: simple_symbol` and `symbol: UNDERSCORE simple_symbol` yield the same node", 1, ruleUnderscore)
	register("CONVORDER", "ASTConverter.Convert applies metadata (incl. a key change) and switches the scale before it converts the chord, for chords and for rests, and returns every error", 3, ruleConvOrder)
	register("CLASSIFY", "text conv classifies the tree (letters vs numbers, mixed is an error) before converting anything", 2, ruleClassify)
}

// ---------------------------------------------------------------------------
// grammar file

type yaccRule struct {
	lhs  string
	alts [][]string // symbols per alternative
	acts []string   // action text per alternative
}

type yaccGrammar struct {
	tokens []string
	rules  map[string]*yaccRule
	order  []string
}

// parseYacc reads the parts of a yacc file this checker needs: %token names and the rules with their actions.
func parseYacc(src string) (*yaccGrammar, error) {
	g := &yaccGrammar{rules: map[string]*yaccRule{}}
	parts := strings.SplitN(src, "\n%%", 3)
	if len(parts) < 2 {
		return nil, fmt.Errorf("no %%%% separator")
	}
	tokRe := regexp.MustCompile(`(?m)^%token\s*(?:<[^>]*>)?\s*(.+)$`)
	for _, m := range tokRe.FindAllStringSubmatch(parts[0], -1) {
		g.tokens = append(g.tokens, strings.Fields(m[1])...)
	}
	body := parts[1]
	// tokenise: identifiers, ':', '|', ';', action blocks
	i := 0
	var cur *yaccRule
	var alt []string
	act := ""
	flush := func() {
		if cur != nil {
			cur.alts = append(cur.alts, alt)
			cur.acts = append(cur.acts, act)
		}
		alt, act = nil, ""
	}
	for i < len(body) {
		ch := body[i]
		switch {
		case ch == ' ' || ch == '\t' || ch == '\n' || ch == '\r':
			i++
		case ch == '/' && i+1 < len(body) && body[i+1] == '/':
			for i < len(body) && body[i] != '\n' {
				i++
			}
		case ch == '/' && i+1 < len(body) && body[i+1] == '*':
			j := strings.Index(body[i+2:], "*/")
			if j < 0 {
				return nil, fmt.Errorf("unterminated comment")
			}
			i += j + 4
		case ch == '{':
			depth, j := 0, i
			for j < len(body) {
				if body[j] == '{' {
					depth++
				} else if body[j] == '}' {
					depth--
					if depth == 0 {
						break
					}
				} else if body[j] == '"' || body[j] == '`' || body[j] == '\'' {
					q := body[j]
					j++
					for j < len(body) && body[j] != q {
						if body[j] == '\\' {
							j++
						}
						j++
					}
				}
				j++
			}
			act = strings.Join(strings.Fields(body[i+1:j]), " ")
			i = j + 1
		case ch == '|':
			flush()
			i++
		case ch == ';':
			flush()
			cur = nil
			i++
		case ch == '\'':
			j := i + 1
			for j < len(body) && body[j] != '\'' {
				j++
			}
			alt = append(alt, body[i:j+1])
			i = j + 1
		case ch == '_' || (ch >= 'a' && ch <= 'z') || (ch >= 'A' && ch <= 'Z'):
			j := i
			for j < len(body) && (body[j] == '_' || (body[j] >= 'a' && body[j] <= 'z') || (body[j] >= 'A' && body[j] <= 'Z') || (body[j] >= '0' && body[j] <= '9')) {
				j++
			}
			id := body[i:j]
			k := j
			for k < len(body) && (body[k] == ' ' || body[k] == '\t' || body[k] == '\n') {
				k++
			}
			if k < len(body) && body[k] == ':' {
				// new rule
				if cur != nil {
					flush()
				}
				cur = g.rules[id]
				if cur == nil {
					cur = &yaccRule{lhs: id}
					g.rules[id] = cur
					g.order = append(g.order, id)
				}
				i = k + 1
			} else {
				alt = append(alt, id)
				i = j
			}
		case ch == '%':
			// %prec etc.
			j := i
			for j < len(body) && body[j] != ' ' && body[j] != '\n' {
				j++
			}
			i = j
		default:
			return nil, fmt.Errorf("unexpected %q in the rules section", ch)
		}
	}
	if cur != nil {
		flush()
	}
	return g, nil
}

func (c *Ctx) grammar() (*yaccGrammar, error) {
	b, err := c.ReadFile("input/ast/chords.y")
	if err != nil {
		return nil, err
	}
	return parseYacc(string(b))
}

// followSets computes FIRST/FOLLOW for the grammar (terminals = symbols that are not rule names).
func (g *yaccGrammar) followSets() map[string]map[string]bool {
	isNT := func(s string) bool { _, ok := g.rules[s]; return ok }
	nullable := map[string]bool{}
	first := map[string]map[string]bool{}
	follow := map[string]map[string]bool{}
	for n := range g.rules {
		first[n] = map[string]bool{}
		follow[n] = map[string]bool{}
	}
	add := func(dst map[string]bool, src map[string]bool) bool {
		ch := false
		for k := range src {
			if !dst[k] {
				dst[k] = true
				ch = true
			}
		}
		return ch
	}
	firstOf := func(sym string) map[string]bool {
		if isNT(sym) {
			return first[sym]
		}
		return map[string]bool{sym: true}
	}
	for changed := true; changed; {
		changed = false
		for n, r := range g.rules {
			for _, alt := range r.alts {
				allNull := true
				for _, sym := range alt {
					if add(first[n], firstOf(sym)) {
						changed = true
					}
					if !(isNT(sym) && nullable[sym]) {
						allNull = false
						break
					}
				}
				if allNull && !nullable[n] {
					nullable[n] = true
					changed = true
				}
			}
		}
	}
	// FOLLOW for every symbol (terminals too: what may come after a token)
	for _, r := range g.rules {
		for _, alt := range r.alts {
			for _, sym := range alt {
				if follow[sym] == nil {
					follow[sym] = map[string]bool{}
				}
			}
		}
	}
	for changed := true; changed; {
		changed = false
		for n, r := range g.rules {
			for _, alt := range r.alts {
				for i, sym := range alt {
					rest := alt[i+1:]
					allNull := true
					for _, nx := range rest {
						if add(follow[sym], firstOf(nx)) {
							changed = true
						}
						if !(isNT(nx) && nullable[nx]) {
							allNull = false
							break
						}
					}
					if allNull {
						if add(follow[sym], follow[n]) {
							changed = true
						}
					}
				}
			}
		}
	}
	return follow
}

// ---------------------------------------------------------------------------
// GEN-YACC

func ruleGenYacc(c *Ctx) {
	c.site(2)
	yb, err := c.ReadFile("input/ast/chords.y")
	if err != nil {
		c.bad("input/ast/chords.y", "", "", "grammar file missing: "+err.Error())
		return
	}
	committed, err := c.ReadFile("input/ast/chords_goyacc_generated.go")
	if err != nil {
		c.bad("input/ast/chords_goyacc_generated.go", "", "", "generated parser missing: "+err.Error())
		return
	}
	tmp, err := os.MkdirTemp("", "crdcheck-yacc-")
	if err != nil {
		c.undec("goyacc|tmp", "", "", err.Error())
		return
	}
	defer os.RemoveAll(tmp)
	if err := os.WriteFile(filepath.Join(tmp, "chords.y"), yb, 0o644); err != nil {
		c.undec("goyacc|tmp", "", "", err.Error())
		return
	}
	cmd := exec.Command("go", "tool", "goyacc", "-o", filepath.Join(tmp, "out.go"), "-v", filepath.Join(tmp, "out.output"), filepath.Join(tmp, "chords.y"))
	cmd.Dir = c.RepoDir
	env := []string{}
	for _, e := range os.Environ() {
		if strings.HasPrefix(e, "GOFLAGS=") || strings.HasPrefix(e, "GOWORK=") || strings.HasPrefix(e, "GOPROXY=") || strings.HasPrefix(e, "GOSUMDB=") || strings.HasPrefix(e, "GOTOOLCHAIN=") {
			continue
		}
		env = append(env, e)
	}
	cmd.Env = append(env, "GOFLAGS=-mod=mod", "GOPROXY=off", "GOWORK=off", "GOTOOLCHAIN=auto")
	out, err := cmd.CombinedOutput()
	if err != nil {
		// a grammar goyacc rejects is a violation; a missing tool is an analysis failure
		if bytes.Contains(out, []byte("chords.y")) {
			c.bad("input/ast/chords.y|goyacc", "input/ast/chords.y", "", "goyacc rejects the grammar: "+lastLine(string(out)))
		} else {
			c.undec("goyacc|run", "", "", fmt.Sprintf("cannot run `go tool goyacc`: %v: %s", err, lastLine(string(out))))
		}
		return
	}
	// conflicts
	rep, _ := os.ReadFile(filepath.Join(tmp, "out.output"))
	conf := regexp.MustCompile(`(\d+) shift/reduce, (\d+) reduce/reduce`).FindStringSubmatch(string(rep))
	sr, rr := "0", "0"
	if conf != nil {
		sr, rr = conf[1], conf[2]
	} else if m := regexp.MustCompile(`conflicts: (.*)`).FindStringSubmatch(string(out)); m != nil {
		sr = m[1]
	}
	c.check(sr == "0" && rr == "0", "input/ast/chords.y|conflicts", "input/ast/chords.y", "", "0 shift/reduce, 0 reduce/reduce conflicts", fmt.Sprintf("the grammar has %s shift/reduce and %s reduce/reduce conflicts: the accepted language is no longer the one the rules describe", sr, rr))
	gen, err := os.ReadFile(filepath.Join(tmp, "out.go"))
	if err != nil {
		c.undec("goyacc|out", "", "", err.Error())
		return
	}
	fset := token.NewFileSet()
	fa, err1 := parser.ParseFile(fset, "committed.go", committed, 0)
	fb, err2 := parser.ParseFile(fset, "generated.go", gen, 0)
	if err1 != nil || err2 != nil {
		c.bad("input/ast/chords_goyacc_generated.go|parse", "input/ast/chords_goyacc_generated.go", "", fmt.Sprintf("cannot parse: %v %v", err1, err2))
		return
	}
	diff := ""
	if len(fa.Decls) != len(fb.Decls) {
		diff = fmt.Sprintf("%d top-level declarations in the committed parser, %d in goyacc's output", len(fa.Decls), len(fb.Decls))
	} else {
		for i := range fa.Decls {
			if ok, where := astEqual(reflect.ValueOf(fa.Decls[i]), reflect.ValueOf(fb.Decls[i]), ""); !ok {
				diff = fmt.Sprintf("declaration %d (%s) differs at %s (committed line %d)", i, declName(fa.Decls[i]), where, fset.Position(fa.Decls[i].Pos()).Line)
				break
			}
		}
	}
	c.check(diff == "", "input/ast/chords_goyacc_generated.go|regenerated", "input/ast/chords_goyacc_generated.go", "", fmt.Sprintf("%d declarations AST-equal to goyacc's output for chords.y", len(fa.Decls)), "the committed parser is not what goyacc generates from chords.y: "+diff+" — the shipped tables or actions were edited without the grammar (or the grammar without regenerating)")
}

func declName(d ast.Decl) string {
	switch x := d.(type) {
	case *ast.FuncDecl:
		return "func " + x.Name.Name
	case *ast.GenDecl:
		for _, s := range x.Specs {
			switch y := s.(type) {
			case *ast.ValueSpec:
				if len(y.Names) > 0 {
					return x.Tok.String() + " " + y.Names[0].Name
				}
			case *ast.TypeSpec:
				return "type " + y.Name.Name
			}
		}
		return x.Tok.String()
	}
	return "?"
}

var posType = reflect.TypeOf(token.NoPos)

// astEqual compares two AST values structurally, ignoring positions, comments, objects and scopes.
func astEqual(a, b reflect.Value, path string) (bool, string) {
	if a.IsValid() != b.IsValid() {
		return false, path
	}
	if !a.IsValid() {
		return true, ""
	}
	if a.Type() != b.Type() {
		return false, path + " (node kinds differ)"
	}
	switch a.Kind() {
	case reflect.Interface, reflect.Ptr:
		if a.IsNil() || b.IsNil() {
			if a.IsNil() != b.IsNil() {
				return false, path
			}
			return true, ""
		}
		return astEqual(a.Elem(), b.Elem(), path)
	case reflect.Struct:
		t := a.Type()
		for i := 0; i < t.NumField(); i++ {
			f := t.Field(i)
			if f.Type == posType || f.Name == "Doc" || f.Name == "Comment" || f.Name == "Comments" || f.Name == "Obj" || f.Name == "Scope" || f.Name == "Unresolved" {
				continue
			}
			if ok, w := astEqual(a.Field(i), b.Field(i), path+"."+f.Name); !ok {
				return false, w
			}
		}
		return true, ""
	case reflect.Slice:
		if a.Len() != b.Len() {
			return false, fmt.Sprintf("%s (lengths %d vs %d)", path, a.Len(), b.Len())
		}
		for i := 0; i < a.Len(); i++ {
			if ok, w := astEqual(a.Index(i), b.Index(i), fmt.Sprintf("%s[%d]", path, i)); !ok {
				return false, w
			}
		}
		return true, ""
	case reflect.String:
		if a.String() != b.String() {
			return false, fmt.Sprintf("%s (%q vs %q)", path, a.String(), b.String())
		}
		return true, ""
	case reflect.Int, reflect.Int64, reflect.Int32:
		if a.Int() != b.Int() {
			return false, path
		}
		return true, ""
	case reflect.Bool:
		return a.Bool() == b.Bool(), path
	}
	return true, ""
}

// ---------------------------------------------------------------------------
// TOKENS

// tokenConsts: token constant name <-> value in package input/ast.
func (c *Ctx) tokenConsts(g *yaccGrammar) (map[string]int64, map[int64]string) {
	byName, byVal := map[string]int64{}, map[int64]string{}
	p := c.pkg("input/ast")
	if p == nil {
		return byName, byVal
	}
	for _, t := range g.tokens {
		if k, ok := p.Types.Scope().Lookup(t).(*types.Const); ok {
			if v, ok := constant.Int64Val(k.Val()); ok {
				byName[t] = v
				byVal[v] = t
			}
		}
	}
	return byName, byVal
}

type tokenEmit struct {
	tok   string
	val   int64
	instr ssa.Instruction // the Return or the closure call
}

// tokenEmissions: every place where ScanFunc decides on a token.
func (c *Ctx) tokenEmissions(fn *ssa.Function, byVal map[int64]string) []tokenEmit {
	var out []tokenEmit
	allInstrs(fn, func(in ssa.Instruction) {
		switch x := in.(type) {
		case *ssa.Return:
			if k, ok := constInt(x.Results[0]); ok {
				name := byVal[k]
				if k == -1 {
					name = "EOF"
				}
				out = append(out, tokenEmit{name, k, x})
			}
		case *ssa.Call:
			if mc, ok := x.Call.Value.(*ssa.MakeClosure); ok && len(x.Call.Args) == 1 {
				if k, ok := constInt(x.Call.Args[0]); ok {
					_ = mc
					out = append(out, tokenEmit{byVal[k], k, x})
				}
			}
		}
	})
	return out
}

func ruleTokens(c *Ctx) {
	g, err := c.grammar()
	if err != nil {
		c.undec("input/ast/chords.y|parse", "input/ast/chords.y", "", err.Error())
		return
	}
	byName, byVal := c.tokenConsts(g)
	declared := map[string]bool{}
	for _, t := range g.tokens {
		declared[t] = true
	}
	used := map[string]bool{}
	for _, rn := range g.order {
		for _, alt := range g.rules[rn].alts {
			for _, s := range alt {
				if _, isRule := g.rules[s]; !isRule {
					used[s] = true
				}
			}
		}
	}
	fn := c.fn("input/ast", "LexScanner.ScanFunc")
	if fn == nil {
		c.missing("input/ast.LexScanner.ScanFunc")
		return
	}
	produced := map[string]bool{}
	for _, e := range c.tokenEmissions(fn, byVal) {
		if e.tok == "" {
			c.bad(fmt.Sprintf("lexer|undeclared|%d", e.val), c.pos(e.instr.Pos()), fname(fn), fmt.Sprintf("the lexer returns %d, which is no declared token", e.val))
			continue
		}
		produced[e.tok] = true
	}
	// tokens the scanner was seen to answer when it was folded over the corpus of texts (whichever helper returns them)
	if _, _, ok := c.lexVerdict(); ok {
		for tok := range c.lexProduced {
			produced[tok] = true
		}
	}
	// tokens that come out of a rune -> token table instead of a return statement (decided by folding ScanFunc)
	if lt, err := c.lexerTables(); err == nil {
		for _, tok := range lt.runeToken {
			if !strings.HasPrefix(tok, "<") {
				produced[tok] = true
			}
		}
	}
	for _, t := range sortedKeys(used) {
		c.site(1)
		switch {
		case !declared[t]:
			c.bad("grammar|undeclared|"+t, "input/ast/chords.y", "", "terminal "+t+" is used in a rule but not declared with %token")
		case !produced[t]:
			c.bad("grammar|unproduced|"+t, c.pos(fn.Pos()), fname(fn), fmt.Sprintf("the grammar uses terminal %s (value %d) but the lexer never returns it: every sentence that needs it is rejected", t, byName[t]))
		default:
			c.ok("grammar|terminal|"+t, c.pos(fn.Pos()), fname(fn), t+" is declared, used and produced")
		}
	}
	for _, t := range sortedKeys(produced) {
		if t != "EOF" && !used[t] {
			c.bad("lexer|unused|"+t, c.pos(fn.Pos()), fname(fn), "the lexer returns "+t+" but no grammar rule uses it: every text containing it is rejected")
		}
	}
}

// ---------------------------------------------------------------------------
// LEXMODE

func ruleLexMode(c *Ctx) {
	g, err := c.grammar()
	if err != nil {
		c.undec("input/ast/chords.y|parse", "input/ast/chords.y", "", err.Error())
		return
	}
	_, byVal := c.tokenConsts(g)
	fn := c.fn("input/ast", "LexScanner.ScanFunc")
	if fn == nil {
		c.missing("input/ast.LexScanner.ScanFunc")
		return
	}
	name := fname(fn)
	// the scanner driven over a corpus of texts by folding, the token sequences compared with the notation: when that
	// decides, how ScanFunc is laid out (one function, stages, which helper answers which token) is decided with it
	if problem, n, ok := c.lexVerdict(); ok {
		c.site(1)
		c.check(problem == "", name+"|corpus", c.pos(fn.Pos()), name, fmt.Sprintf("%d texts tokenised by folding ScanFunc over a modelled reader: every token, both modes, comments in every position, white space of every kind - each text gives the token sequence the notation says", n), name+": "+problem)
		if problem == "" {
			c.site(n - 1)
			c.lexModeRest(fn, g, name, true)
			return
		}
	}
	emits := c.tokenEmissions(fn, byVal)
	// 1. white space discarded before every token
	c.site(1)
	var ws ssa.CallInstruction
	for _, ci := range callsIn(fn) {
		cc := ci.Common()
		if cc.IsInvoke() && cc.Method.Name() == "DiscardWhile" {
			if f := funcOfValue(cc.Args[0]); f != nil && fname(f) == "unicode.IsSpace" {
				ws = ci
			}
		}
	}
	good := ws != nil
	if good {
		for _, e := range emits {
			if !dominatesInstr(ws, e.instr) {
				good = false
			}
		}
	}
	c.check(good, name+"|whitespace", c.pos(fn.Pos()), name, "DiscardWhile(unicode.IsSpace) precedes every token decision", "leading white space is no longer discarded before every token: spaces, tabs and newlines between tokens change the result")
	// mode setters before their tokens
	setterBefore := func(e tokenEmit, setter string, val bool) bool {
		for _, ci := range callsTo(fn, "input/ast.LexScanner."+setter) {
			if b, ok := constBool(ci.Common().Args[1]); ok && b == val && ci.Block() == e.instr.Block() && dominatesInstr(ci, e.instr) {
				return true
			}
		}
		return false
	}
	scannedBy := func(e tokenEmit, scanner string) bool {
		for _, ci := range callsTo(fn, "input/ast.LexScanner."+scanner) {
			call := ci.(*ssa.Call)
			for _, ref := range *call.Referrers() {
				if iff, ok := ref.(*ssa.If); ok {
					t := iff.Block().Succs[0]
					if t == e.instr.Block() || t.Dominates(e.instr.Block()) {
						return true
					}
				}
			}
		}
		return false
	}
	seen := map[string]int{}
	for _, e := range emits {
		seen[e.tok]++
		switch e.tok {
		case "LCBRA":
			c.site(1)
			c.check(setterBefore(e, "SetExpectMetadata", true), name+"|LCBRA", c.pos(e.instr.Pos()), name, "`{` switches metadata mode on", "`{` no longer switches the lexer to metadata mode: keys and values are lexed as chord tokens")
		case "RCBRA":
			c.site(1)
			c.check(setterBefore(e, "SetExpectMetadata", false), name+"|RCBRA", c.pos(e.instr.Pos()), name, "`}` switches metadata mode off", "`}` no longer switches metadata mode off: the chords after a metadata block are lexed as metadata")
		case "UNDERSCORE":
			c.site(1)
			c.check(setterBefore(e, "SetExpectSymbol", true), name+"|UNDERSCORE", c.pos(e.instr.Pos()), name, "`_` switches symbol mode on", "`_` no longer makes the lexer expect a symbol: `C_7` lexes 7 as a NUMBER")
		case "SYMBOL":
			c.site(1)
			okScan := scannedBy(e, "scanSymbol") && !scannedBy(e, "scanDigits") && !scannedBy(e, "scanMetadata")
			// the emission under expectSymbol must clear the mode
			underExpect := false
			if side, ok := c.branchSide(e.instr.Block(), func(v ssa.Value) bool { n, _, ok := loadedField(v); return ok && n == "expectSymbol" }); ok && side {
				underExpect = true
			} else if p := e.instr.Block().Idom(); p != nil {
				if side, ok := c.branchSide(p, func(v ssa.Value) bool { n, _, ok := loadedField(v); return ok && n == "expectSymbol" }); ok && side {
					underExpect = true
				}
			}
			cleared := !underExpect || setterBefore(e, "SetExpectSymbol", false)
			c.check(okScan && cleared, fmt.Sprintf("%s|SYMBOL|%d", name, seen[e.tok]), c.pos(e.instr.Pos()), name, "SYMBOL comes from scanSymbol alone; symbol mode is cleared", fmt.Sprintf("SYMBOL emission: scannedBySymbolScannerAlone=%v modeCleared=%v — after `_sym` the lexer stays in symbol mode, or symbols are (also) scanned by another routine, which cuts them where that routine stops (`_7sus4` after its digits)", okScan, cleared))
		case "METADATA":
			c.site(1)
			c.check(scannedBy(e, "scanMetadata"), name+"|METADATA", c.pos(e.instr.Pos()), name, "METADATA comes from scanMetadata under metadata mode", "METADATA is not produced by scanMetadata")
		case "NUMBER":
			c.site(1)
			c.check(scannedBy(e, "scanDigits"), name+"|NUMBER", c.pos(e.instr.Pos()), name, "NUMBER comes from scanDigits", "NUMBER is not produced by scanDigits")
		}
	}
	for _, t := range []string{"LCBRA", "RCBRA", "UNDERSCORE", "SYMBOL", "METADATA", "NUMBER"} {
		if seen[t] == 0 {
			c.bad(name+"|"+t+"|missing", c.pos(fn.Pos()), name, "the lexer never produces "+t)
		}
	}
	if seen["SYMBOL"] < 2 {
		c.bad(name+"|SYMBOL|both", c.pos(fn.Pos()), name, "SYMBOL must be produced both after `_` and for a bare non-numeric symbol")
	}
	// expectSymbol failure publishes an error
	c.site(1)
	pub := false
	for _, ci := range callsIn(fn) {
		if n, _, ok := loadedField(ci.Common().Value); ok && n == "publishError" {
			// followed by return EOF in the same block
			for _, in := range ci.Block().Instrs {
				if r, ok := in.(*ssa.Return); ok {
					if k, ok := constInt(r.Results[0]); ok && k == -1 {
						pub = true
					}
				}
			}
		}
	}
	c.check(pub, name+"|expect-symbol-failure", c.pos(fn.Pos()), name, "`_` without a symbol publishes an error and stops", "a `_` that is not followed by a symbol no longer produces an error")
	// comment case
	c.site(1)
	comment := false
	for _, ci := range callsIn(fn) {
		cc := ci.Common()
		if !(cc.IsInvoke() && cc.Method.Name() == "DiscardWhile") {
			continue
		}
		pf := funcOfValue(cc.Args[0])
		if pf == nil || !c.isRepoFunc(pf) {
			continue
		}
		// guarded by Peek() == ';'
		neq := false
		side, ok := c.branchSide(ci.Block(), func(v ssa.Value) bool {
			b, ok := v.(*ssa.BinOp)
			if !ok || (b.Op != token.EQL && b.Op != token.NEQ) {
				return false
			}
			k, ok := constInt(b.Y)
			if ok && k == ';' {
				neq = b.Op == token.NEQ
			}
			return ok && k == ';'
		})
		if !ok || side == neq {
			continue
		}
		// predicate: false at newline, true for an ordinary rune
		rn, e1 := c.newFolder().foldCall(pf, []fval{{k: constant.MakeInt64('\n'), t: types.Typ[types.Rune]}})
		rx, e2 := c.newFolder().foldCall(pf, []fval{{k: constant.MakeInt64('x'), t: types.Typ[types.Rune]}})
		rs, e3 := c.newFolder().foldCall(pf, []fval{{k: constant.MakeInt64(';'), t: types.Typ[types.Rune]}})
		if e1 != nil || e2 != nil || e3 != nil || rn.k == nil || rx.k == nil || rs.k == nil {
			continue
		}
		stopsAtNL := !constant.BoolVal(rn.k) && constant.BoolVal(rx.k) && constant.BoolVal(rs.k)
		// then re-scan: recursive call whose result is returned
		rec := false
		for _, ci2 := range callsIn(fn) {
			if staticCallee(ci2.Common()) == fn && dominatesInstr(ci, ci2) {
				rec = true
			}
		}
		// ... or the next round of a loop that starts the scan over: from the comment, control only goes back to the loop's head
		b := ci.Block()
		for i := 0; i < 3 && !rec && len(b.Succs) == 1; i++ {
			if l := naturalLoop(b.Succs[0]); l != nil && l[ci.Block()] {
				rec = true
			}
			b = b.Succs[0]
		}
		comment = stopsAtNL && rec
	}
	c.check(comment, name+"|comment", c.pos(fn.Pos()), name, "`;` discards up to the newline and scans the next token", "the `;` comment case is missing or no longer skips exactly to the end of the line before scanning the next token")
	c.lexModeRest(fn, g, name, false)
}

// lexModeRest: the parts of LEXMODE that are decided on the rune domain (run terminators, exact run classes, no silent
// end of input, the digit class, where runs start) and the mode setters.
func (c *Ctx) lexModeRest(fn *ssa.Function, g *yaccGrammar, name string, corpusDecided bool) {
	// run terminators: a SYMBOL / METADATA run must stop at every rune that starts a token which may follow it
	// (FOLLOW sets of the grammar) and at the comment introducer; white space is handled by the predicate itself
	if lt, err := c.lexerTables(); err == nil {
		follow := g.followSets()
		tokenRunes := map[string][]rune{}
		for r, tok := range lt.runeToken {
			tokenRunes[tok] = append(tokenRunes[tok], r)
		}
		for _, run := range []struct {
			tok, excl, label string
			comment          bool
		}{{"SYMBOL", lt.symbolExcl, "symbol", true}, {"METADATA", lt.metaExcl, "metadata", false}} {
			c.site(1)
			var missing []string
			for ft := range follow[run.tok] {
				for _, r := range tokenRunes[ft] {
					if ft == "SYLLABLE" || ft == "REST" {
						continue // letters are legitimate symbol characters; a following chord needs white space
					}
					if !strings.ContainsRune(run.excl, r) {
						missing = append(missing, fmt.Sprintf("%q (%s)", r, ft))
					}
				}
			}
			if run.comment && !strings.ContainsRune(run.excl, ';') {
				missing = append(missing, "';' (comment)")
			}
			sort.Strings(missing)
			c.check(len(missing) == 0, name+"|"+run.label+"-terminators", c.pos(fn.Pos()), name, fmt.Sprintf("a %s run stops at %q, which covers every token that may follow it", run.label, run.excl), fmt.Sprintf("a %s run (terminators %q) does not stop at %v: the following token or comment is swallowed into the %s text", run.label, run.excl, missing, run.label))
		}
	}
	// ... and at nothing else: the two run predicates refuse exactly the documented terminators (decided by folding them
	// on every rune below U+0300 and a sample beyond); white space ends a symbol and is part of a metadata text
	if lt, err := c.lexerTables(); err != nil || !lt.exclFolded {
		why := "the run predicates do not fold on the rune domain"
		if err != nil {
			why = err.Error()
		}
		for _, label := range []string{"symbol", "metadata"} {
			c.site(1)
			c.undec(name+"|"+label+"-exact", c.pos(fn.Pos()), name, "where a "+label+" run stops cannot be decided: "+why)
		}
	} else {
		sortRunes := func(s string) string {
			rs := []rune(s)
			sort.Slice(rs, func(i, j int) bool { return rs[i] < rs[j] })
			return string(rs)
		}
		for _, run := range []struct{ label, got, want, pred string }{
			{"symbol", lt.symbolExcl, "/[_;=", "LexScanner.isSymbolRune"},
			{"metadata", lt.metaExcl, "{}=,", "LexScanner.isMetadataRune"},
		} {
			c.site(1)
			problem := ""
			if sortRunes(run.got) != sortRunes(run.want) {
				problem = fmt.Sprintf("a %s run stops at %q, the tokenisation says %q: a text that is a sentence is cut at the extra rune (or a token is swallowed at the missing one)", run.label, sortRunes(run.got), sortRunes(run.want))
			}
			if pf := c.fn("input/ast", run.pred); pf != nil && problem == "" {
				for _, r := range lexRuneDomain() {
					if r < 0 || !unicode.IsSpace(r) {
						continue
					}
					args := []fval{{k: constant.MakeInt64(int64(r)), t: types.Typ[types.Rune]}}
					if len(pf.Params) == 2 {
						args = append([]fval{top}, args...)
					}
					v, err := c.newFolder().foldCall(pf, args)
					if err != nil || v.k == nil {
						continue
					}
					if in := constant.BoolVal(v.k); in != (run.label == "metadata") {
						problem = fmt.Sprintf("the white space character %q is part=%v of a %s run (a symbol ends at white space; a metadata text may contain any of it, line breaks included)", r, in, run.label)
					}
				}
			}
			c.check(problem == "", name+"|"+run.label+"-exact", c.pos(fn.Pos()), name, fmt.Sprintf("a %s run stops exactly at %q", run.label, run.want), name+": "+problem)
		}
	}
	// no silent end of input: in plain mode a rune is a one-rune token, starts a number, a comment or a symbol; the runes
	// that cannot start a symbol (the ones that end a symbol run) must therefore all be tokens or the comment introducer,
	// or the scanner reports EOF in the middle of the text and the rest is dropped without an error
	if lt, err := c.lexerTables(); err == nil {
		c.site(1)
		var silent []string
		for _, r := range lt.symbolExcl {
			if _, isTok := lt.runeToken[r]; !isTok && r != ';' {
				silent = append(silent, fmt.Sprintf("%q", r))
			}
		}
		c.check(len(silent) == 0, name+"|no-silent-eof", c.pos(fn.Pos()), name, fmt.Sprintf("every rune that ends a symbol run (%q) is a token or the comment introducer in plain mode", lt.symbolExcl), fmt.Sprintf("in plain mode the rune(s) %v can neither start a symbol nor are they a token: the scanner returns EOF there, the parser accepts what it has seen so far and the rest of the text is dropped without an error", silent))
	}
	// the digit class: a NUMBER starts and continues with ASCII 0-9 only (Unicode digits are symbol characters)
	c.checkDigitClass()
	c.checkRunStarts()
	// setters store their argument
	for _, s := range []struct{ fn, field string }{{"LexScanner.SetExpectSymbol", "expectSymbol"}, {"LexScanner.SetExpectMetadata", "expectMetadata"}} {
		sf := c.fn("input/ast", s.fn)
		if sf == nil {
			c.missing("input/ast." + s.fn)
			continue
		}
		if corpusDecided {
			// both modes are switched on and off by the texts of the corpus: how the scanner keeps them is decided with it
			c.ok(fname(sf), c.pos(sf.Pos()), fname(sf), "decided by ScanFunc|corpus: metadata and symbol mode are entered and left by the folded texts")
			continue
		}
		okSet := false
		allInstrs(sf, func(in ssa.Instruction) {
			if st, ok := in.(*ssa.Store); ok {
				if n, _, ok := fieldName(st.Addr); ok && n == s.field && st.Val == ssa.Value(sf.Params[1]) {
					okSet = true
				}
			}
		})
		c.check(okSet, fname(sf), c.pos(sf.Pos()), fname(sf), "stores its argument", fname(sf)+" no longer stores its argument in "+s.field)
	}
}

// ---------------------------------------------------------------------------
// PARSEERR

func ruleParseErr(c *Ctx) {
	pt := c.fn("cmd", "parseText")
	if pt == nil {
		c.missing("cmd.parseText")
		return
	}
	c.site(1)
	name := fname(pt)
	// returns (lex.Result, lex.Err()) of the lexer handed to ast.Parse
	var lex ssa.Value
	for _, ci := range callsTo(pt, "input/ast.Parse") {
		lex = ci.Common().Args[0]
	}
	good := lex != nil
	why := "ast.Parse is not called"
	if good {
		why = "parseText does not return the lexer's Err() on every path: a syntax error is swallowed and a partial tree is used (the parser's default reductions store a result before the offending token is diagnosed)"
		rets := returnsOf(pt)
		good = len(rets) > 0
		for _, r := range rets {
			for _, leaf := range phiLeaves(r.Results[1]) {
				isErr := false
				if call, ok := leaf.(*ssa.Call); ok {
					cc := call.Common()
					if (cc.IsInvoke() && cc.Method.Name() == "Err") || strings.HasSuffix(calleeName(cc), ".Err") {
						isErr = true
					}
				}
				if !isErr {
					good = false
				}
			}
		}
	}
	c.check(good, name, c.pos(pt.Pos()), name, "returns lex.Result, lex.Err()", name+": "+why)
	// callers of parseText and of ast.Parse test the error before using the tree
	for _, fn := range c.srcFuncs() {
		for _, ci := range callsTo(fn, "cmd.parseText") {
			c.site(1)
			call := ci.(*ssa.Call)
			okErr := c.errorReturned(call)
			// every use of the tree is dominated by the nil branch
			okUse := true
			for _, ref := range *call.Referrers() {
				ex, ok := ref.(*ssa.Extract)
				if !ok || ex.Index != 0 {
					continue
				}
				for _, use := range *ex.Referrers() {
					if !c.onNilErrorPath(call, use) {
						// handing the tree out through a variable is not a use, provided the same function returns
						// parseText's error as it is on every path (the caller then decides before looking at the tree)
						if st, isStore := use.(*ssa.Store); isStore && st.Val == ssa.Value(ex) && returnsErrorOf(call) {
							continue
						}
						// handing tree and error on together (`return parseText(r)`) is not a use either: whoever receives
						// the pair decides
						if r, isRet := use.(*ssa.Return); isRet && len(r.Results) == 2 && r.Results[0] == ssa.Value(ex) {
							if e1, ok := r.Results[1].(*ssa.Extract); ok && e1.Tuple == ssa.Value(call) && e1.Index == 1 {
								okErr = true
								continue
							}
						}
						okUse = false
					}
				}
			}
			c.check(okErr && okUse, fname(fn)+" -> cmd.parseText", c.pos(ci.Pos()), fname(fn), "error tested before the tree is used", fname(fn)+" uses the parse tree without first testing parseText's error: the generated parser may already have stored a result for a text it then rejects (default reductions), so a rejected text could produce output")
		}
	}
	// the only store to Lexer.Result is in generated code
	c.site(1)
	var offenders []string
	n := 0
	for _, fn := range c.repoFuncs() {
		allInstrs(fn, func(in ssa.Instruction) {
			st, ok := in.(*ssa.Store)
			if !ok {
				return
			}
			fa, ok := st.Addr.(*ssa.FieldAddr)
			if !ok {
				return
			}
			if nme, _, _ := fieldName(fa); nme != "Result" || typeName(fa.X.Type()) != "input/ast.Lexer" {
				return
			}
			n++
			file := c.Fset.PositionFor(st.Pos(), false).Filename
			if !strings.HasSuffix(file, "_goyacc_generated.go") {
				offenders = append(offenders, fname(fn))
			}
		})
	}
	c.check(n >= 1 && len(offenders) == 0, "input/ast.Lexer.Result|single-writer", "", "", "Result is stored only by the start rule's action in the generated parser", fmt.Sprintf("Lexer.Result is written %d times; outside the generated parser in %v", n, offenders))
}

// onNilErrorPath: use is only reachable when the error result of call was nil.
func (c *Ctx) onNilErrorPath(call *ssa.Call, use ssa.Instruction) bool {
	for _, ref := range *call.Referrers() {
		ex, ok := ref.(*ssa.Extract)
		if !ok || !isErrorType(ex.Type()) {
			continue
		}
		for _, r2 := range *ex.Referrers() {
			b, ok := r2.(*ssa.BinOp)
			if !ok || b.Op != token.NEQ {
				continue
			}
			for _, r3 := range *b.Referrers() {
				if iff, ok := r3.(*ssa.If); ok {
					nilSucc := iff.Block().Succs[1]
					if nilSucc == use.Block() || nilSucc.Dominates(use.Block()) {
						return true
					}
				}
			}
		}
	}
	return false
}

// ---------------------------------------------------------------------------
// SPELL

func ruleSpell(c *Ctx) {
	lt, err := c.lexerTables()
	if err != nil {
		c.undec("lexer|tables", "", "", err.Error())
		return
	}
	// tokens with more than one spelling (besides the seven letters)
	multi := map[string][]rune{}
	for r, tok := range lt.runeToken {
		if tok == "SYLLABLE" || tok == "" || tok == "<recurse>" {
			continue
		}
		multi[tok] = append(multi[tok], r)
	}
	var alt []string
	for tok, rs := range multi {
		if len(rs) > 1 {
			alt = append(alt, tok)
		}
	}
	sort.Strings(alt)
	// the spellings themselves: a sharp is written # or U+266F, a flat b or U+266D; any other rune lexed as one of them is
	// read as a note it does not denote (the natural sign as a flat, say), and a sign that is missing is no longer an accidental
	for _, tok := range []struct {
		name string
		want []rune
	}{{"SHARP", []rune{'#', 0x266f}}, {"FLAT", []rune{'b', 0x266d}}} {
		c.site(1)
		got := append([]rune{}, multi[tok.name]...)
		sort.Slice(got, func(i, j int) bool { return got[i] < got[j] })
		c.check(string(got) == string(tok.want), "lexer|spellings|"+tok.name, c.pos(lt.pos), "", fmt.Sprintf("%s is written %q", tok.name, string(tok.want)), fmt.Sprintf("the lexer reads %q as %s, the notation has %q: a sign is lexed as an accidental it is not, or a sign of the notation is no longer one", string(got), tok.name, string(tok.want)))
	}
	// consumers: any invoke of Value() on a token loaded from ChordDegree.Accidental, wherever it is (an accessor next to
	// the AST included), except in generated code and in the canonicaliser itself
	n := 0
	for _, fn := range c.srcFuncs() {
		if fn.Pkg == nil || strings.HasSuffix(c.Fset.PositionFor(fn.Pos(), false).Filename, "_generated.go") || fname(fn) == "input/ast.AccidentalValue" {
			continue
		}
		for _, ci := range callsIn(fn) {
			cc := ci.Common()
			isValue := cc.IsInvoke() && cc.Method.Name() == "Value"
			isCanon := calleeName(cc) == "input/ast.AccidentalValue"
			if !isValue && !isCanon {
				continue
			}
			var tokv ssa.Value
			if isValue {
				tokv = cc.Value
			} else {
				tokv = cc.Args[0]
			}
			if nme, _, ok := loadedField(tokv); !ok || nme != "Accidental" {
				// may be a local copy: describe it
				ac := &affCtx{c: c, fn: fn, alias: map[ssa.Value]string{}}
				if !strings.HasSuffix(ac.describe(tokv), ".Accidental") {
					continue
				}
			}
			n++
			c.site(1)
			key := fname(fn)
			if isValue && len(alt) > 0 {
				c.bad(key, c.pos(ci.Pos()), fname(fn), fmt.Sprintf("the raw text of the accidental token is used, but the lexer accepts several spellings for %v (%s): a Unicode sharp/flat is accepted and then ignored or refused by this consumer", alt, spellings(multi, alt)))
			} else {
				c.ok(key, c.pos(ci.Pos()), fname(fn), "accidental read through the type-dispatching canonicaliser")
			}
		}
	}
	if n < 3 {
		c.bad("consumers", "", "", fmt.Sprintf("only %d consumers of ChordDegree.Accidental found (3 confirmed by reading)", n))
	}
	// the canonicaliser: for each multi-spelling token a case on Type() returning a spelling every consumer understands
	can := c.fn("input/ast", "AccidentalValue")
	if can == nil {
		if len(alt) > 0 {
			c.bad("input/ast.AccidentalValue", "", "", "no canonicaliser for accidental tokens although the lexer accepts alternative spellings")
		}
		return
	}
	g, _ := c.grammar()
	byName, _ := c.tokenConsts(g)
	got := map[string]string{}
	allInstrs(can, func(in ssa.Instruction) {
		b, ok := in.(*ssa.BinOp)
		if !ok || b.Op != token.EQL {
			return
		}
		k, ok := constInt(b.Y)
		if !ok {
			return
		}
		if call, ok := b.X.(*ssa.Call); !ok || !call.Call.IsInvoke() || call.Call.Method.Name() != "Type" {
			return
		}
		for _, ref := range *b.Referrers() {
			if iff, ok := ref.(*ssa.If); ok {
				for _, in2 := range iff.Block().Succs[0].Instrs {
					if r, ok := in2.(*ssa.Return); ok {
						if s, ok := constString(r.Results[0]); ok {
							for tn, tv := range byName {
								if tv == k {
									got[tn] = s
								}
							}
						}
					}
				}
			}
		}
	})
	// decided by folding the canonicaliser with the token's Type() and Value() bound (switch, map or if-chain alike)
	for tn, tv := range byName {
		if tn != "SHARP" && tn != "FLAT" {
			continue
		}
		for _, text := range []string{"♯", "♭", "#", "b", "x"} {
			f := c.newFolder()
			f.invoke = func(call *ssa.Call, args []fval) (fval, bool) {
				switch call.Call.Method.Name() {
				case "Type":
					return fval{k: constant.MakeInt64(tv), t: types.Typ[types.Int]}, true
				case "Value":
					return fval{k: constant.MakeString(text), t: types.Typ[types.String]}, true
				}
				return top, false
			}
			r, err := f.foldCall(can, []fval{top})
			if err != nil || r.k == nil || r.k.Kind() != constant.String {
				delete(got, tn+"|folded")
				break
			}
			res := constant.StringVal(r.k)
			if prev, seen := got[tn+"|folded"]; seen && prev != res {
				got[tn+"|folded"] = prev + "|" + res // depends on the text: not canonical
			} else if !seen {
				got[tn+"|folded"] = res
			}
		}
		if v, ok := got[tn+"|folded"]; ok {
			got[tn] = v
		}
	}
	// consumer tables
	understood := map[string]bool{}
	if m, _, _ := c.printedTable("op", "map[op.Accidental]string", "accidentalStringMap", "Accidental.String", "Accidental", "UnknownAccidental"); m != nil {
		for _, e := range m.Entries {
			s, _ := asStr(e.V)
			understood[s] = true
		}
	}
	want := map[string]string{"SHARP": "#", "FLAT": "b"}
	for _, tok := range []string{"SHARP", "FLAT"} {
		c.site(1)
		s, ok := got[tok]
		c.check(ok && s == want[tok] && understood[s], "input/ast.AccidentalValue|"+tok, c.pos(can.Pos()), fname(can), fmt.Sprintf("%s (%s) -> %q", tok, spellings(multi, []string{tok}), s), fmt.Sprintf("token %s is canonicalised to %q (found=%v); the consumers (op accidental table, ParseDegree marks, note regex) understand %q", tok, s, ok, want[tok]))
	}
	for _, tok := range alt {
		if _, ok := want[tok]; !ok {
			c.bad("lexer|alternatives|"+tok, c.pos(lt.pos), "", fmt.Sprintf("token %s has several spellings (%s) but no canonicalisation rule is known for it", tok, spellings(multi, []string{tok})))
		}
	}
}

func spellings(multi map[string][]rune, toks []string) string {
	var out []string
	for _, t := range toks {
		rs := append([]rune{}, multi[t]...)
		sort.Slice(rs, func(i, j int) bool { return rs[i] < rs[j] })
		var ss []string
		for _, r := range rs {
			ss = append(ss, string(r))
		}
		out = append(out, strings.Join(ss, " "))
	}
	return strings.Join(out, "; ")
}

// ---------------------------------------------------------------------------
// UNDERSCORE

func ruleUnderscore(c *Ctx) {
	g, err := c.grammar()
	if err != nil {
		c.undec("input/ast/chords.y|parse", "input/ast/chords.y", "", err.Error())
		return
	}
	r := g.rules["symbol"]
	if r == nil {
		c.bad("chords.y|symbol", "input/ast/chords.y", "", "rule `symbol` not found")
		return
	}
	c.site(1)
	var plain, under, empty bool
	for i, alt := range r.alts {
		act := strings.ReplaceAll(r.acts[i], " ", "")
		switch {
		case len(alt) == 0:
			empty = act == "$$=nil"
		case len(alt) == 1 && alt[0] == "simple_symbol":
			plain = act == "$$=$1"
		case len(alt) == 2 && alt[0] == "UNDERSCORE" && alt[1] == "simple_symbol":
			under = act == "$$=$2"
		}
	}
	c.check(plain && under && empty, "chords.y|symbol", "input/ast/chords.y", "", "symbol: <empty> nil | simple_symbol $1 | UNDERSCORE simple_symbol $2", fmt.Sprintf("rule `symbol`: plain=%v underscore=%v empty=%v — writing `_` before a symbol changes the tree (or is no longer accepted)", plain, under, empty))
	// field faithfulness of the actions whose operands have distinct roles
	checks := []struct {
		rule string
		alt  []string
		want []string // substrings the action must contain
	}{
		{"chod", []string{"degree", "symbol", "base", "LBRA", "values", "RBRA", "meta"}, []string{"Degree: $1", "Symbol: $2", "Base: $3", "Values: $5", "Meta: $7"}},
		{"rest", []string{"REST", "LBRA", "values", "RBRA", "meta"}, []string{"Values: $3", "Meta: $5"}},
		{"value", []string{"NUMBER", "SLASH", "NUMBER"}, []string{"Num: NewToken($1)", "Denom: NewToken($3)"}},
		{"metadata", []string{"METADATA", "EQUAL", "METADATA"}, []string{"Key: NewToken($1)", "Value: NewToken($3)"}},
		{"degree", []string{"degree_head", "accidental"}, []string{"Degree: $1", "Accidental: $2"}},
		{"chord_list", []string{"chord_list", "chord_or_rest"}, []string{"append($1, $2)"}},
		{"values", []string{"values", "COMMA", "value"}, []string{"append($1.Values, $3)"}},
		{"meta_internal", []string{"meta_internal", "COMMA", "metadata"}, []string{"append($1.Data, $3)"}},
		{"base", []string{"SLASH", "degree"}, []string{"Degree: $2"}},
		{"meta", []string{"LCBRA", "meta_internal", "RCBRA"}, []string{"$$ = $2"}},
	}
	for _, ck := range checks {
		rr := g.rules[ck.rule]
		c.site(1)
		key := "chords.y|action|" + ck.rule
		if rr == nil {
			c.bad(key, "input/ast/chords.y", "", "rule `"+ck.rule+"` not found")
			continue
		}
		found := false
		for i, alt := range rr.alts {
			if strings.Join(alt, " ") != strings.Join(ck.alt, " ") {
				continue
			}
			found = true
			act := normaliseAction(rr.acts[i])
			var missing []string
			for _, w := range ck.want {
				if !strings.Contains(act, normaliseAction(w)) {
					missing = append(missing, w)
				}
			}
			c.check(len(missing) == 0, key, "input/ast/chords.y", "", ck.rule+": "+strings.Join(ck.want, ", "), fmt.Sprintf("the action of `%s: %s` no longer contains %v: the tree does not list what was written (fields swapped or dropped)", ck.rule, strings.Join(ck.alt, " "), missing))
		}
		if !found {
			c.bad(key, "input/ast/chords.y", "", fmt.Sprintf("alternative `%s: %s` not found", ck.rule, strings.Join(ck.alt, " ")))
		}
	}
}

func normaliseAction(s string) string {
	return strings.Join(strings.Fields(strings.NewReplacer(",", " , ", ":", ": ").Replace(s)), "")
}

// ---------------------------------------------------------------------------
// CONVORDER

func ruleConvOrder(c *Ctx) {
	fn := c.fn("astconv", "ASTConverter.Convert")
	if fn == nil {
		c.missing("astconv.ASTConverter.Convert")
		return
	}
	c.checkConverterState()
	name := fname(fn)
	// the steps may sit in a helper shared by the chord and the rest clause: look at the whole region of Convert
	var mods, convs, scales []rcall
	region := c.regionCalls(fn, func(f *ssa.Function) bool { return !isExportedFn(f) && f.Name() != "changeScale" })
	tr := &tracer{c: c, stop: func(f *ssa.Function) bool {
		return f.Name() == "changeScale" || (isExportedFn(f))
	}}
	for _, rc := range region {
		cc := rc.call.Common()
		switch {
		case cc.IsInvoke() && typeName(cc.Value.Type()) == "astconv.MetaInstanceModifier" && cc.Method.Name() == "Modify":
			mods = append(mods, rc)
		case cc.IsInvoke() && typeName(cc.Value.Type()) == "astconv.ChordConverter" && cc.Method.Name() == "Convert":
			convs = append(convs, rc)
		case calleeName(cc) == "astconv.ASTConverter.changeScale":
			scales = append(scales, rc)
		}
	}
	c.site(1)
	problems := []string{}
	if len(convs) < 1 {
		problems = append(problems, "no chord conversion")
	}
	// every clause that hands back an instance (chord and rest alike) has switched the scale first
	nret := 0
	for _, r := range returnsOf(fn) {
		if isNilConst(retVal(r, 0)) {
			continue
		}
		nret++
		covered := false
		for _, sc := range scales {
			if top := sc.li().at(0); top.Parent() == fn && dominatesInstr(top, r) {
				covered = true
			}
		}
		if !covered {
			problems = append(problems, "a clause returns an instance without metadata application and scale change: a key change carried by a rest (or by a chord) is not applied")
		}
	}
	if nret < 2 {
		problems = append(problems, fmt.Sprintf("%d clauses return an instance, want the chord clause and the rest clause", nret))
	}
	for _, sc := range scales {
		// preceded by a Modify on the same instance
		okMod := false
		inst := tr.trace(lval{sc.call.Common().Args[1], sc.fn, sc.chain})
		// changeScale may be handed the instance's key instead of the instance: the instance is the one the key is read from
		if ld, ok := inst.v.(*ssa.UnOp); ok && ld.Op == token.MUL {
			if fa, ok := ld.X.(*ssa.FieldAddr); ok {
				if n, _, _ := fieldName(fa); n == "Key" {
					inst = tr.trace(inst.with(fa.X))
				}
			}
		}
		for _, m := range mods {
			if regionDominates(m.li(), sc.li()) && tr.trace(lval{m.call.Common().Args[0], m.fn, m.chain}).same(inst) {
				okMod = true
				if !c.errorReturnedUp(m) {
					problems = append(problems, "the error of metaModifier.Modify is not returned")
				}
			}
		}
		if !okMod {
			problems = append(problems, "changeScale is not preceded by metaModifier.Modify on the same instance: the key written in the metadata is not yet in the instance when the scale is switched")
		}
		if !c.errorReturnedUp(sc) {
			problems = append(problems, "the error of changeScale is not returned (an unknown key is silently ignored)")
		}
	}
	for _, cv := range convs {
		okSc := false
		for _, sc := range scales {
			if regionDominates(sc.li(), cv.li()) {
				okSc = true
			}
		}
		if !okSc {
			problems = append(problems, "the chord is converted before the scale is switched: the chord that carries `{key=...}` is still read in the old key")
		}
		if !c.errorReturnedUp(cv) {
			problems = append(problems, "the error of the chord conversion is not returned")
		}
	}
	sort.Strings(problems)
	c.check(len(problems) == 0, name, c.pos(fn.Pos()), name, "Modify -> changeScale -> chord conversion, in both clauses, errors returned", name+": "+strings.Join(uniq(problems), "; "))

	cs := c.fn("astconv", "ASTConverter.changeScale")
	if cs == nil {
		c.missing("astconv.ASTConverter.changeScale")
		return
	}
	c.site(1)
	ns := firstCall(cs, staticOf("op.NewScale"))
	problem := ""
	switch {
	case ns == nil:
		problem = "op.NewScale is not called"
	default:
		if ld, ok := ns.Common().Args[0].(*ssa.UnOp); !ok || ld.Op != token.MUL {
			problem = "NewScale is not given *v.Key"
		} else if n, _, ok := loadedField(ld.X); !ok || n != "Key" {
			// ... or the key itself, handed in by the caller (which reads it from the instance: checked at the call)
			if p, isParam := ld.X.(*ssa.Parameter); !isParam || p.Parent() != cs || !strings.HasSuffix(typeName(p.Type()), "op.Key") {
				problem = "NewScale is not given the instance's key"
			}
		}
		if !c.errorReturned(ns.(*ssa.Call)) {
			problem = "NewScale's error is not returned: a key without a scale is silently ignored"
		}
		ch := firstCall(cs, invokeOf("astconv.ScaleChangeable", "ChangeScale"))
		if ch == nil {
			problem = "the converter's ChangeScale is not called"
		} else {
			var sc ssa.Value
			for _, r := range *ns.(*ssa.Call).Referrers() {
				if ex, ok := r.(*ssa.Extract); ok && ex.Index == 0 {
					sc = ex
				}
			}
			if ch.Common().Args[0] != sc {
				problem = "ChangeScale is not given the scale built from the key"
			}
			// every key an instance carries reaches the converter: the only ways round the call are `no key`, `the chord
			// converter does not follow scales` and a failed NewScale - not a comparison with a remembered key
			if problem == "" {
				if b := bypassReturn(cs, ch.Block(), func(iff *ssa.If) int {
					switch x := iff.Cond.(type) {
					case *ssa.BinOp:
						if (x.Op == token.EQL || x.Op == token.NEQ) && (isNilConst(x.X) || isNilConst(x.Y)) {
							isErr := isErrorType(x.X.Type()) || isErrorType(x.Y.Type())
							// presence: `== nil` true / `!= nil` false is the way round; failure: `err != nil` true / `err == nil` false
							if (x.Op == token.EQL) != isErr {
								return 0
							}
							return 1
						}
					case *ssa.Extract:
						if ta, ok := x.Tuple.(*ssa.TypeAssert); ok && ta.CommaOk && x.Index == 1 {
							return 1 // not a ScaleChangeable: nothing to change
						}
					}
					return -1
				}); b != nil {
					problem = "there is a way past ChangeScale for an instance that carries a key (a comparison with a remembered key, say): a return to an earlier key is ignored"
				}
			}
		}
	}
	c.check(problem == "", fname(cs), c.pos(cs.Pos()), fname(cs), "NewScale(*v.Key) -> ChangeScale(scale), error returned", fname(cs)+": "+problem)
	if f := c.fn("astconv", "SyllableChordConverter.ChangeScale"); f != nil {
		c.site(1)
		okSet := false
		allInstrs(f, func(in ssa.Instruction) {
			if st, ok := in.(*ssa.Store); ok {
				if n, _, ok := fieldName(st.Addr); ok && n == "scale" && st.Val == ssa.Value(f.Params[1]) {
					// on every path: no return that is not preceded by the store (a `same signature, keep the old scale` shortcut loses the new tonic)
					all := true
					for _, r := range returnsOf(f) {
						if !dominatesInstr(st, r) {
							all = false
						}
					}
					okSet = all
				}
			}
		})
		c.check(okSet && f.Signature.Recv() != nil, fname(f), c.pos(f.Pos()), fname(f), "stores the new scale in the converter on every path", "ChangeScale does not store the scale it is given in the converter it is called on, on every path (a conditional store keeps the old tonic when, say, only the mode or the relative key changes)")
		// pointer receiver, and the AST converter holds the pointer
		_, isPtr := f.Signature.Recv().Type().(*types.Pointer)
		c.check(isPtr, fname(f)+"|receiver", c.pos(f.Pos()), fname(f), "pointer receiver: the change persists", "ChangeScale has a value receiver: the new scale is stored in a copy and the next chord is still read in the old key")
	} else {
		c.missing("astconv.SyllableChordConverter.ChangeScale")
	}
}

// ---------------------------------------------------------------------------
// CLASSIFY

func ruleClassify(c *Ctx) {
	if fn := c.fn("astconv", "ASTTypeClassifier.degreeType"); fn != nil {
		if problem, n, ok := c.degreeTypeByFolding(); ok {
			c.site(1)
			c.check(problem == "", "astconv.ASTTypeClassifier.degreeType|domain", c.pos(fn.Pos()), fname(fn), fmt.Sprintf("%d roots folded: a letter is a note name whatever its accidental, digits are a degree, anything else is unknown", n), fname(fn)+": "+problem)
		}
	}
	fn := c.fn("cmd", "textCmdArgs.convert")
	if fn == nil {
		c.missing("cmd.textCmdArgs.convert")
		return
	}
	c.site(1)
	name := fname(fn)
	cl := firstCall(fn, func(ci ssa.CallInstruction) bool {
		return strings.HasSuffix(calleeName(ci.Common()), "ASTTypeClassifier.Classify")
	})
	cv := firstCall(fn, invokeOf("astconv.Converter", "Convert"))
	var cvTop ssa.Instruction = cv
	if cv == nil {
		// the conversion loop may sit in a helper of convert: the call in convert that leads to it stands for it
		for _, rc := range c.regionCalls(fn, nil) {
			if invokeOf("astconv.Converter", "Convert")(rc.call) {
				cv, cvTop = rc.call, rc.top()
			}
		}
	}
	good := cl != nil && cv != nil && dominatesInstr(cl, cvTop) && c.errorReturned(cl.(*ssa.Call))
	c.check(good, name, c.pos(fn.Pos()), name, "Classify (error returned) before any conversion", name+": the tree is no longer classified (letters vs numbers) with its error returned before conversion starts: mixed notation is converted instead of refused")
	// all elements converted, in order, into result[i]
	if cv != nil {
		l := enclosingRangeLoop(cv.Block())
		okLoop := l != nil && c.loopCoversSlice(cv.Block())
		c.check(okLoop, name+"|all", c.pos(fn.Pos()), name, "every chord or rest is converted, in order", name+": the conversion loop does not visit every element of the tree")
	}
	k := c.fn("astconv", "ASTTypeClassifier.Classify")
	if k == nil {
		c.missing("astconv.ASTTypeClassifier.Classify")
		return
	}
	c.site(1)
	// inconsistent types -> error: a comparison t != astType whose true branch ends in a non-nil error (directly or in the range-func body)
	found := false
	for _, f := range withClosures(k) {
		allInstrs(f, func(in ssa.Instruction) {
			b, ok := in.(*ssa.BinOp)
			if !ok || b.Op != token.NEQ || typeName(b.X.Type()) != "astconv.ASTType" {
				return
			}
			if _, isConst := b.Y.(*ssa.Const); isConst {
				return
			}
			for _, ref := range *b.Referrers() {
				if iff, ok := ref.(*ssa.If); ok {
					// the true branch must reach an errorx call
					for _, ci := range callsInBlocks(iff.Block().Succs[0]) {
						if strings.HasPrefix(calleeName(ci.Common()), "errorx.") {
							found = true
						}
					}
				}
			}
		})
	}
	c.check(found, fname(k)+"|inconsistent", c.pos(k.Pos()), fname(k), "a chord of the other notation is an error", "Classify no longer reports an error when letters and numbers are mixed")
	dt := c.fn("astconv", "ASTTypeClassifier.degreeType")
	if dt != nil {
		c.site(1)
		nn := firstCall(dt, staticOf("note.NewName"))
		pu := firstCall(dt, staticOf("util.ParseUint"))
		c.check(nn != nil && pu != nil, fname(dt), c.pos(dt.Pos()), fname(dt), "letters by NewName, numbers by ParseUint", "degreeType no longer distinguishes letters (NewName) from numbers (ParseUint)")
	}
}

func callsInBlocks(b *ssa.BasicBlock) []ssa.CallInstruction {
	var out []ssa.CallInstruction
	seen := map[*ssa.BasicBlock]bool{}
	var walk func(x *ssa.BasicBlock, d int)
	walk = func(x *ssa.BasicBlock, d int) {
		if seen[x] || d > 3 {
			return
		}
		seen[x] = true
		for _, in := range x.Instrs {
			if ci, ok := in.(ssa.CallInstruction); ok {
				out = append(out, ci)
			}
		}
		for _, s := range x.Succs {
			if len(s.Preds) == 1 {
				walk(s, d+1)
			}
		}
	}
	walk(b, 0)
	return out
}

// checkDigitClass folds LexScanner.scanDigits with the reader's Peek() bound to probe runes: it must report a number
// exactly for ASCII '0'..'9'; every predicate it hands to the reader for continuing the run must be that class too.
func (c *Ctx) checkDigitClass() {
	fn := c.fn("input/ast", "LexScanner.scanDigits")
	if fn == nil {
		c.missing("input/ast.LexScanner.scanDigits")
		return
	}
	c.site(1)
	key := fname(fn) + "|ascii-digits"
	probes := []rune{'/', '0', '1', '5', '9', ':', 'a', 'Z', '_', 0x7f, 0x80, 0xb2, 0x0660, 0x0669, 0x0966, 0xff10, 0xff19, 0x1d7ce}
	want := func(r rune) bool { return r >= '0' && r <= '9' }
	preds := map[*ssa.Function]bool{}
	for _, r := range probes {
		f := c.newFolder()
		consumed := false
		f.invoke = func(call *ssa.Call, args []fval) (fval, bool) {
			switch call.Call.Method.Name() {
			case "Peek":
				if !consumed {
					return fval{k: constant.MakeInt64(int64(r)), t: types.Typ[types.Rune]}, true
				}
			default:
				consumed = true
				for _, a := range args {
					if a.fn != nil {
						preds[unbound(a.fn)] = true
					}
				}
			}
			return top, false
		}
		res, err := f.foldCall(fn, []fval{top, top})
		if err != nil || res.k == nil || res.k.Kind() != constant.Bool {
			c.undec(key, c.pos(fn.Pos()), fname(fn), fmt.Sprintf("scanDigits does not fold for first rune %q: %v", r, err))
			return
		}
		if got := constant.BoolVal(res.k); got != want(r) {
			c.bad(key, c.pos(fn.Pos()), fname(fn), fmt.Sprintf("a NUMBER token starts at rune %q = %v, want %v: the digit class is no longer ASCII 0-9, so texts with other Unicode digits are tokenised differently from the documented grammar", r, got, want(r)))
			return
		}
	}
	for p := range preds {
		for _, r := range probes {
			res, err := c.newFolder().foldCall(p, []fval{top, {k: constant.MakeInt64(int64(r)), t: types.Typ[types.Rune]}})
			if len(p.Params) == 1 {
				res, err = c.newFolder().foldCall(p, []fval{{k: constant.MakeInt64(int64(r)), t: types.Typ[types.Rune]}})
			}
			if err != nil || res.k == nil || res.k.Kind() != constant.Bool {
				c.undec(key, c.pos(p.Pos()), fname(p), fmt.Sprintf("the run predicate %s does not fold for rune %q: %v", fname(p), r, err))
				return
			}
			if got := constant.BoolVal(res.k); got != want(r) {
				c.bad(key, c.pos(p.Pos()), fname(p), fmt.Sprintf("a NUMBER token continues over rune %q = %v, want %v: the digit class is no longer ASCII 0-9", r, got, want(r)))
				return
			}
		}
	}
	c.ok(key, c.pos(fn.Pos()), fname(fn), fmt.Sprintf("a number starts and continues exactly on ASCII 0-9 (%d probe runes incl. other Unicode digits, %d run predicate(s))", len(probes), len(preds)))
}

// checkRunStarts: a symbol run (scanSymbol) and a metadata run (scanMetadata) start exactly on the runes they continue
// on: folded with Peek bound to every rune of the domain, the scanner answers `a token starts here` where its own run
// predicate accepts the rune and nowhere else (a first-rune test copied from the twin scanner delivers an empty token
// where the run cannot start, or refuses a rune the run may start with).
func (c *Ctx) checkRunStarts() {
	for _, sc := range []struct{ fn, pred, label string }{
		{"LexScanner.scanSymbol", "LexScanner.isSymbolRune", "symbol"},
		{"LexScanner.scanMetadata", "LexScanner.isMetadataRune", "metadata"},
	} {
		fn, pred := c.fn("input/ast", sc.fn), c.fn("input/ast", sc.pred)
		if fn == nil || pred == nil {
			continue
		}
		c.site(1)
		key := fname(fn) + "|start"
		problem := ""
		decided := true
		for _, r := range lexRuneDomain() {
			rv := fval{k: constant.MakeInt64(int64(r)), t: types.Typ[types.Rune]}
			pargs := []fval{rv}
			if len(pred.Params) == 2 {
				pargs = []fval{top, rv}
			}
			pv, err := c.newFolder().foldCall(pred, pargs)
			if err != nil || pv.k == nil || pv.k.Kind() != constant.Bool {
				decided = false
				break
			}
			f := c.newFolder()
			consumed := false
			f.invoke = func(call *ssa.Call, args []fval) (fval, bool) {
				if call.Call.Method.Name() == "Peek" && !consumed {
					return rv, true
				}
				consumed = true
				return top, false
			}
			res, err := f.foldCall(fn, []fval{top, top})
			if err != nil || res.k == nil || res.k.Kind() != constant.Bool {
				decided = false
				break
			}
			if got, want := constant.BoolVal(res.k), constant.BoolVal(pv.k); got != want && problem == "" {
				problem = fmt.Sprintf("at the rune %q a %s token starts=%v although the run predicate says %v: an empty token is delivered where no %s can stand (an underscore with nothing behind it is accepted), or a %s that starts with that rune is refused", r, sc.label, got, want, sc.label, sc.label)
			}
		}
		if !decided {
			c.undec(key, c.pos(fn.Pos()), fname(fn), "the scanner or its run predicate does not fold on the rune domain")
			continue
		}
		c.check(problem == "", key, c.pos(fn.Pos()), fname(fn), fmt.Sprintf("a %s run starts exactly where it may continue (folded on %d runes)", sc.label, len(lexRuneDomain())), fname(fn)+": "+problem)
	}
}

// returnsErrorOf: every return of the call's function yields the call's own error result.
func returnsErrorOf(call *ssa.Call) bool {
	fn := call.Parent()
	var errv ssa.Value
	for _, ref := range *call.Referrers() {
		if ex, ok := ref.(*ssa.Extract); ok && isErrorType(ex.Type()) {
			errv = ex
		}
	}
	if errv == nil {
		return false
	}
	rets := returnsOf(fn)
	if len(rets) == 0 {
		return false
	}
	for _, r := range rets {
		if len(r.Results) == 0 || retVal(r, len(r.Results)-1) != errv {
			return false
		}
	}
	return true
}
