package main

// Regions: a function together with the same-package helpers it calls (statically, non-recursively,
// to a small depth), so that rules keep working when code is moved into an extracted helper.

import (
	"go/types"
	"sort"

	"golang.org/x/tools/go/ssa"
)

// rcall is a call instruction somewhere in the region of a root function.
type rcall struct {
	call  ssa.CallInstruction
	fn    *ssa.Function         // the function that contains the call
	chain []ssa.CallInstruction // call sites leading from the root down to fn (empty when fn is the root)
}

// top is the instruction of the root function that stands for this call in ordering questions.
func (rc rcall) top() ssa.Instruction {
	if len(rc.chain) > 0 {
		return rc.chain[0]
	}
	return rc.call
}

// helperOf reports whether callee may be looked into from fn: same package, has a body, not exported API of another package.
func (c *Ctx) isHelper(fn, callee *ssa.Function) bool {
	if callee == nil || len(callee.Blocks) == 0 || !c.isRepoFunc(callee) {
		return false
	}
	cp, fp := pkgOfFunc(callee), pkgOfFunc(fn)
	if cp == nil || fp == nil {
		return callee.Parent() != nil // closures
	}
	if cp == fp {
		return true
	}
	// a function of another package that did not exist on the reviewed tree (a helper moved into the package it serves)
	if obj := objOfFunc(callee); obj != nil && obj.Exported() && callee.Parent() == nil && !reviewedExported[fname(origin(callee))] {
		return true
	}
	return false
}

// pkgOfFunc: the package a function belongs to; instantiations of generic functions belong to their origin's package.
func pkgOfFunc(f *ssa.Function) *ssa.Package {
	for g := f; g != nil; g = g.Parent() {
		if g.Pkg != nil {
			return g.Pkg
		}
		if o := g.Origin(); o != nil && o.Pkg != nil {
			return o.Pkg
		}
	}
	return nil
}

// objOfFunc: the declared object of a function (of its origin for an instantiation).
func objOfFunc(f *ssa.Function) types.Object {
	if f.Object() != nil {
		return f.Object()
	}
	if o := f.Origin(); o != nil {
		return o.Object()
	}
	return nil
}

// regionCalls lists every call of root and, recursively (depth <= 3), of the same-package functions it calls.
// follow decides whether a given callee is expanded (nil: every same-package callee that is not exported).
func (c *Ctx) regionCalls(root *ssa.Function, follow func(*ssa.Function) bool) []rcall {
	var out []rcall
	var walk func(fn *ssa.Function, chain []ssa.CallInstruction, stack map[*ssa.Function]bool)
	walk = func(fn *ssa.Function, chain []ssa.CallInstruction, stack map[*ssa.Function]bool) {
		if len(chain) > 3 || stack[fn] {
			return
		}
		stack[fn] = true
		defer delete(stack, fn)
		for _, f := range withClosures(fn) {
			for _, ci := range callsIn(f) {
				ch := chain
				if f != fn {
					// a closure of fn: located at its MakeClosure site if there is one in fn
					ch = chain
				}
				out = append(out, rcall{ci, f, ch})
				callee := staticCallee(ci.Common())
				if callee == nil {
					continue
				}
				callee = unbound(callee)
				if !c.isHelper(f, callee) || callee.Parent() != nil {
					continue
				}
				ok := false
				if follow != nil {
					ok = follow(callee)
				} else {
					ok = objOfFunc(callee) != nil && (!objOfFunc(callee).Exported() || !reviewedExported[fname(origin(callee))])
				}
				if ok {
					walk(callee, append(append([]ssa.CallInstruction{}, ch...), ci), stack)
				}
			}
		}
	}
	walk(root, nil, map[*ssa.Function]bool{})
	return out
}

// rarg resolves argument value v of a call located by rc up the call chain: a parameter of the
// containing function is replaced by the value passed at the call site above, repeatedly.
func (c *Ctx) rresolve(rc rcall, v ssa.Value) ssa.Value {
	fn := rc.fn
	for level := len(rc.chain) - 1; level >= 0; level-- {
		v = stripThroughLocal(v)
		p, ok := v.(*ssa.Parameter)
		if !ok || p.Parent() != fn {
			return v
		}
		idx := -1
		for i, q := range fn.Params {
			if q == p {
				idx = i
			}
		}
		site := rc.chain[level]
		args := site.Common().Args
		if site.Common().IsInvoke() || idx < 0 || idx >= len(args) {
			return v
		}
		v = args[idx]
		fn = site.Parent()
	}
	return stripThroughLocal(v)
}

// stripThroughLocal: a load of a local that only ever holds one value is that value (value receivers are spilled like this).
func stripThroughLocal(v ssa.Value) ssa.Value {
	for i := 0; i < 4; i++ {
		ld, ok := v.(*ssa.UnOp)
		if !ok || ld.Op.String() != "*" {
			return v
		}
		al, ok := ld.X.(*ssa.Alloc)
		if !ok {
			return v
		}
		var src ssa.Value
		n := 0
		for _, r := range *al.Referrers() {
			if st, ok := r.(*ssa.Store); ok && st.Addr == ssa.Value(al) {
				src = st.Val
				n++
			}
		}
		if n != 1 {
			return v
		}
		v = src
	}
	return v
}

// singleReturn returns the i-th result of fn when fn has exactly one (non-recover) Return instruction.
func singleReturn(fn *ssa.Function, i int) (ssa.Value, bool) {
	rets := returnsOf(fn)
	if len(rets) != 1 || i >= len(rets[0].Results) {
		return nil, false
	}
	return retVal(rets[0], i), true
}

// findRegionCalls filters the region's calls by callee name (see calleeName).
func findRegion(calls []rcall, pred func(ssa.CallInstruction) bool) []rcall {
	var out []rcall
	for _, rc := range calls {
		if pred(rc.call) {
			out = append(out, rc)
		}
	}
	return out
}

// errorReturnedUp: the error of the located call is returned by its function and by every helper call site above it.
func (c *Ctx) errorReturnedUp(rc rcall) bool {
	call, ok := rc.call.(*ssa.Call)
	if !ok || !c.errorReturned(call) {
		return false
	}
	for _, s := range rc.chain {
		sc, ok := s.(*ssa.Call)
		if !ok || !c.errorReturned(sc) {
			return false
		}
	}
	return true
}

func (rc rcall) li() linstr { return linstr{rc.call, rc.chain} }

// regionFuncChains: the root, its closures and every helper regionCalls looks into (leaf helpers without calls of
// their own included), each with the call chain that leads to it (the first one found).
func (c *Ctx) regionFuncChains(root *ssa.Function, follow func(*ssa.Function) bool) map[*ssa.Function][]ssa.CallInstruction {
	out := map[*ssa.Function][]ssa.CallInstruction{}
	for _, f := range withClosures(root) {
		out[f] = nil
	}
	for _, rc := range c.regionCalls(root, follow) {
		if _, ok := out[rc.fn]; !ok {
			out[rc.fn] = rc.chain
		}
		callee := staticCallee(rc.call.Common())
		if callee == nil {
			continue
		}
		callee = unbound(callee)
		if !c.isHelper(rc.fn, callee) || callee.Parent() != nil || len(rc.chain) >= 3 {
			continue
		}
		ok := false
		if follow != nil {
			ok = follow(callee)
		} else {
			ok = objOfFunc(callee) != nil && !objOfFunc(callee).Exported()
		}
		if ok {
			if _, seen := out[callee]; !seen {
				out[callee] = append(append([]ssa.CallInstruction{}, rc.chain...), rc.call)
			}
		}
	}
	return out
}

// regionFuncChainsList: the functions of regionFuncChains(root, nil) in a stable order.
func (c *Ctx) regionFuncChainsList(root *ssa.Function) []*ssa.Function {
	m := c.regionFuncChains(root, nil)
	var out []*ssa.Function
	for f := range m {
		out = append(out, f)
	}
	sort.Slice(out, func(i, j int) bool { return out[i].String() < out[j].String() })
	return out
}

// isExportedFn: the function (or, for an instantiation, its generic origin) is exported.
func isExportedFn(f *ssa.Function) bool {
	o := objOfFunc(f)
	return o != nil && o.Exported()
}
