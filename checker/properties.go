package main

type propDef struct {
	Rules         []string
	Explanation   string
	NotDecided    string
	Technique     string
	NotApplicable string
}

var propertyOrder = []string{"C01", "C02", "C03", "C04", "C05", "C06", "C07", "C08", "C09", "C10", "C11", "C12", "C13", "C14", "C15", "C16", "C17"}

var properties = map[string]*propDef{
	"C01": {Rules: []string{"APPLY", "TAB-NOTE", "TAB-DEGREE", "TAB-CHORDS", "TAB-ATTRS", "TAB-DEFAULTS", "EXTENDS", "PLAYLOOP", "NOTE", "OPT", "LOOKUP"}},
	"C02": {Rules: []string{"TICKS", "PENDING", "NOTE", "PLAYLOOP", "OPMAP", "TRACKADD"}},
	"C03": {Rules: []string{"TAB-KEYSIG", "TAB-NOTE", "TAB-DEGREE", "TAB-SEARCH"}},
	"C04": {Rules: []string{"GEN-YACC", "TOKENS", "LEXMODE", "PARSEERR", "EOFPRED", "UNDERSCORE"}},
	"C05": {Rules: []string{"CONVORDER", "CLASSIFY", "APPLY", "PLAYLOOP", "OPT"}},
	"C06": {Rules: []string{"OWN", "TRACKADD", "PENDING", "SELECT", "TRACKCOUNT", "FLAGS"}},
	"C07": {Rules: []string{"TAB-DYNAMICS", "TAB-DEFAULTS", "TAB-KEYSIG", "OPT", "OPMAP", "PENDING", "NARROW", "PLAYLOOP", "FLAGS", "REJECT"}},
	"C08": {Rules: []string{"NOTE", "PLAYLOOP", "PENDING", "SELECT", "OPMAP", "TRACKCOUNT", "TAB-DYNAMICS"}},
	"C09": {Rules: []string{"EXIT", "EOFPRED", "NILOK", "VALIDATE", "REJECT", "MUST", "RECUR", "ERRDROP", "FLAGS", "NARROW", "LOOKUP", "DEBUGOUT", "PLAYLOOP", "APPLY", "CONC", "SELECT"}},
	"C10": {Rules: []string{"TAB-NOTATION", "TAB-REGEX", "TAB-DYNAMICS"}},
	"C11": {Rules: []string{"SPELL", "LEXMODE", "UNDERSCORE"}},
	"C12": {Rules: []string{"MAPORDER", "CONC", "NONDET", "IOLAYER", "DEBUGOUT"}},
	"C13": {Rules: []string{"TAB-KEYSIG"}},
	"C14": {Rules: []string{"TAB-CIRCLE"}},
	"C15": {Rules: []string{"TAB-DEGREE", "TAB-NOTATION", "TAB-NOTE"}},
	"C16": {Rules: []string{"TAB-CHORDS", "TAB-ATTRS", "BUILDER", "VALIDATE", "RECUR", "EXTENDS"}},
	"C17": {Rules: []string{"TAB-DIATONIC", "TAB-LEXNAMES", "TAB-CHORDS", "TAB-KEYSIG"}},
}
