package main

import "strings"

type propDef struct {
	Rules []string
	// Scope restricts a shared rule to the constructs that bear on this property: rule -> construct-key prefixes.
	// A rule without an entry contributes all its obligations.
	Scope         map[string][]string
	Explanation   string
	NotDecided    string
	Technique     string
	NotApplicable string
}

var propertyOrder = []string{"C01", "C02", "C03", "C04", "C05", "C06", "C07", "C08", "C09", "C10", "C11", "C12", "C13", "C14", "C15", "C16", "C17"}

const techTab = "constant-table extraction from the type-checked AST, compared row by row with an independent music-theory specification"
const techPath = "SSA dominance / path rules and affine-form dataflow over go/ssa (rules look at a function together with the same-package helpers it calls and resolve values through parameters, locals and helper returns)"
const techFold = "conditional constant propagation over go/ssa with the parameters bound to each element of a finite input domain (falls back to the shape rule when a branch does not fold)"

var properties = map[string]*propDef{
	"C01": {
		Rules:       []string{"APPLY", "TAB-NOTE", "TAB-DEGREE", "STATE", "TAB-NOTATION", "TAB-CHORDS", "TAB-ATTRS", "TAB-DEFAULTS", "EXTENDS", "PLAYLOOP", "NOTE", "OPT", "LOOKUP", "OVERRIDE", "NARROW", "BUILDER", "WIRE"},
		Technique:   "affine-form dataflow on play.Key.Apply (pitch = 60 + tonic + degree + attribute / + base - 12) plus " + techTab + "; the dictionary through the builder to the pitches (130 chords), a made-up deep dictionary, the flag overrides on every combination of given and omitted flags and `crd write` from the instances to the tracks decided by " + techFold,
		Explanation: "the pitch arithmetic as an affine identity of Key.Apply (exactly one bass emission MiddleC+key+degree+base-12 and one tone emission MiddleC+key+degree+attribute per attribute, nothing else; every failed lookup is an error); every row of the letter, accidental, interval-size, chord and attribute tables against a first-principles specification, including the size algorithm for 1..64 x 7 qualities on the extracted model; MiddleC folds to 60 and the default bass to a unison; `extends` is inherited parent-first; the key in force is the one applied by update() before getKey() in the same iteration; flags override instance 0 only; one note-on per key.",
		NotDecided:  "that the control flow of Degree.simpleSemitone implements the algorithm whose tables and tuples were extracted (the search loop itself is not proved); uint8 wrap-around outside the MIDI range (excluded by the property's premise); everything inside gomidi.",
	},
	"C02": {
		Rules:       []string{"TICKS", "PENDING", "NOTE", "PLAYLOOP", "OPMAP", "TRACKADD", "TRACKCOUNT", "CODEC"},
		Technique:   techPath + ": rounding idiom, pending-delta typestate of every emitter, on/off loop structure; the MIDI writer on a scripted history per track count and `crd write` from the instances to the tracks decided by " + techFold,
		Explanation: "ticks = uint32(Round(quarterTicks x value)) by shape, quarterTicks and the header division both derived from the constructor's clock, the value is the sum over all duration fractions starting at 0; every emitting method consumes the pending delta exactly once before its first emission and gives later ops 0 or newTicks(value); Rest only accumulates; Close carries the pending rest; all note-ons of a chord precede all its note-offs, the first op of each phase carries the time; each op hands its own delta to gomidi; instances are visited in order.",
		NotDecided:  "floating-point error of the sum of Num/Denom against exact rationals (needs values); absence of uint32 overflow (excluded below 2^28 by the quantifier); gomidi's delta encoding.",
	},
	"C03": {
		Rules:       []string{"TAB-KEYSIG", "TAB-NOTE", "TAB-DEGREE", "STATE", "TAB-SEARCH", "SCALEWIRE", "CONVORDER", "ERRFLOW", "ERRDROP", "CLASSIFY", "WIRE", "NAMEDEGREE"},
		Technique:   techTab + "; astconv.SyllableChordConverter.Convert decided on the property's whole domain (28 keys x 21 roots x no bass + 21 basses = 12,936 single chords) and op.ScaleNote.GetDegree on its 21 x 21 x 2 domain by " + techFold,
		Explanation: "the statement itself on its stated domain, decided from the source: for each of the 28 supported keys op.NewScale is folded on the key and Convert is folded on a syntax tree built for every root spelling and every bass spelling (token methods answered from the tree, everything else the repository's own code); every successful result is compared with the checker's own arithmetic (number = letter distance, size = pitch distance from the tonic, the bass from the root), the seven notes of the key's own scale must be accepted as roots and as basses over one another, a written bass must give a base, the symbol must be the written one, and the scale must be left as it was. Around it: the table preconditions (signature rows, letter pitches, accidental offsets, interval sizes, search lists, Tendency), how --key and {key=...} reach the converter (getKey as given, getScale through NewScale, Modify applies every setting of a block, changeScale before the carrying chord, one converter per conversion, no other ChordConverter, no converter state beyond the scale).",
		NotDecided:  "the lexer and parser in front of the converter (C04, C11) and the YAML printer behind it (C10) are other properties' business; when Convert or NewScale stops folding (a construct the folder has no transfer for) the decision falls back to data-flow facts on the converter's functions, which say how it is put together, not what it computes.",
	},
	"C04": {
		Rules:       []string{"GEN-YACC", "TOKENS", "LEXMODE", "PARSEERR", "EOFPRED", "UNDERSCORE", "ERRDROP", "ERRFLOW", "RECUR", "IOLAYER", "WIRE"},
		Technique:   "goyacc regeneration with AST comparison, token-set agreement between grammar and lexer, lexer-mode typestate on SSA, the lexer's rune -> token decision and digit class by folding ScanFunc / scanDigits with Peek() bound to probe runes, the scanner driven over a corpus of 114 texts on a modelled reader (token sequences against the checker's own reading of the notation), constant folding of loop predicates at EOF",
		Explanation: "the shipped parser is AST-equal to what goyacc generates from chords.y and the grammar has 0 conflicts (so, trusting goyacc, it accepts exactly L(chords.y) over token strings); every terminal the rules use is produced by the lexer and nothing undeclared is; white space is discarded before every token, `;` skips to end of line, `{`/`}` and `_` switch the lexer modes and the modes are cleared again; a parser failure cannot be swallowed: parseText returns the lexer's error and every caller tests it before touching the tree (default reductions may store a result for a text that is then rejected); every lexer loop predicate is false at end of input, so a text cut inside a symbol, comment or metadata run terminates and is rejected; the grammar actions list each field from the right position.",
		NotDecided:  "that the rune classes of scanSymbol / scanMetadata match an external description (the code is the documentation there); bounded-exhaustive acceptance against an independent recogniser.",
	},
	"C05": {
		Rules:       []string{"STATE", "CONVORDER", "CLASSIFY", "APPLY", "PLAYLOOP", "OPT", "TAB-KEYSIG", "SCALEWIRE", "TAB-NOTE", "OVERRIDE", "CODEC", "WIRE", "NAMEDEGREE"},
		Technique:   techPath + ": call ordering in ASTConverter.Convert, linearity of Key.Apply in the tonic",
		Explanation: "a `{key=...}` change is applied (metadata -> instance -> scale switch) before the carrying chord is converted, for chords and for rests, with every error returned, and the new scale persists (pointer receiver); mixed notation is refused before anything is converted; the second sentence restricted to pitches: in Key.Apply the tonic has coefficient 1 in every emitted pitch and occurs nowhere else, so changing the key shifts every pitch by the tonic distance; the only other key-dependent output is the key-signature event.",
		NotDecided:  "the first sentence as stated: equality of the two converters' outputs over all progressions is a relation between two computations over runtime values.",
	},
	"C06": {
		Rules:       []string{"OWN", "TRACKADD", "PENDING", "SELECT", "TRACKCOUNT", "OPMAP", "NOTE", "NARROW", "FLAGS", "WIRE"},
		Technique:   techPath + ": ownership of *TrackOp, read-before-mutate ordering, selector range",
		Explanation: "the premises of the invariant `track clock + pending = global clock`: a *TrackOp is never delivered twice (no Add inside a loop with an op created outside it); TrackSet.Add reads the op's delta before Track.Add rewrites it and adds it to every other track; the writer attaches the true elapsed time to every op, Close included; the selector sends metas to track 0 and the i-th note to i mod (N-1) + 1, N >= 1 enforced, selector and track set built from the same N; all N tracks are serialised; --track is a persistent flag visible on every write subcommand.",
		NotDecided:  "the invariant itself as a statement about all histories (it would need an inductive proof over heap state); only the premises a hand proof uses are checked.",
	},
	"C07": {
		Rules:       []string{"TAB-DYNAMICS", "TAB-DEFAULTS", "TAB-KEYSIG", "SCALEWIRE", "OPT", "OPMAP", "PENDING", "NARROW", "PLAYLOOP", "OVERRIDE", "FLAGS", "REJECT", "TRACKADD", "CONVORDER", "CODEC", "WIRE"},
		Technique:   techTab + "; " + techPath + " for the Opt typestate and the writer wiring",
		Explanation: "the dynamics table is strictly increasing within 1..127; defaults are 100 bpm, 4/4, C and a dynamic that has a velocity, each cell starting `updated` so that it is emitted at tick 0; Opt cells emit on first use and after every Update only; update() stores every non-nil setting of an instance (exhaustive over the struct's pointer fields); bpm/meter/key/meta cells are wired to Tempo / Meter(Num, Denom) / Key(tonic, !Minor, Flat+Sharp, Flat>0) / Text-Lyric-Marker by txt-lic-mrk with the text passed unmodified; each op calls the gomidi constructor the SMF spec names; control events consume the pending delta so they land at the instance start (also on rests, since update/emit precede the rest branch); flags override instance 0 only and every getter reads a flag of the right name and type on every command it runs for; meter values that do not fit a MIDI time signature are refused by validate.",
		NotDecided:  "microseconds-per-quarter arithmetic and denominator encoding (gomidi); UTF-8 byte identity through yaml.v3.",
	},
	"C08": {
		Rules:       []string{"NOTE", "PLAYLOOP", "PENDING", "SELECT", "OPMAP", "TRACKCOUNT", "TRACKADD", "TAB-DYNAMICS", "REJECT", "WIRE", "IOLAYER"},
		Technique:   techPath + ": on/off pairing, Close post-domination, meta ops only via MetaTrack",
		Explanation: "crd's side of the SMF contract: every track is closed exactly once, after the last instance, and nothing is written after it; every note-on has a note-off of the same key and channel in the same call; tempo / time / key signature ops are created only through addMeta, MetaTrack maps to track 0 only, fixed ops never reach track 0 when N >= 2; N tracks are built and all are serialised with Add's error propagated; velocities <= 127.",
		NotDecided:  "header bytes, chunk lengths, variable-length quantities and data-byte masking: gomidi, trusted.",
	},
	"C09": {
		Rules:       []string{"EXIT", "EOFPRED", "NILOK", "VALIDATE", "REJECT", "MUST", "RECUR", "ERRDROP", "ERRFLOW", "FLAGS", "NARROW", "LOOKUP", "DEBUGOUT", "PLAYLOOP", "APPLY", "CONC", "SELECT", "SCALEWIRE", "CLASSIFY", "PARSEERR", "TAB-REGEX", "CIRCLEWIRE", "WIRE", "CODEC", "BASE10"},
		Technique:   "inventory and path rules over every site of a failure class: exit status, loop predicates at EOF, decode-without-validate, (nil,true) lookups, panicking wrappers on untrusted data, recursion cycles, dropped errors",
		Explanation: "seven failure classes, each for every site in the program: a failed Execute reaches os.Exit(non-zero); every NextWhile/DiscardWhile predicate folds to false at EOF; every decoder/constructor of a validated type validates before returning nil and each validator refuses the documented nonsense (0 durations, tempo 0, unknown dynamic, no durations); no lookup returns (nil, true); every function that can panic is in a reviewed inventory and every call site of a Must* wrapper is an initialiser, constant, or reviewed with a checked invariant; every call-graph cycle and condition-only loop has a reviewed termination measure (cyclic `extends` is rejected by validate, checked structurally); no error of a repo function or of yaml/io/os decoding is discarded; unknown chords, unknown keys, mixed notation and syntax errors are errors before anything is produced.",
		NotDecided:  "absence of implicit run-time panics in general (index, nil, division); `promptly` as a quantitative statement; the behaviour of cobra / yaml.v3 on malformed flags or YAML.",
	},
	"C10": {
		Rules:       []string{"SCHEMA", "CODEC", "TAB-NOTATION", "TAB-REGEX", "TAB-DYNAMICS", "TAB-DEGREE", "STATE", "BASE10", "VALIDATE", "NARROW", "OPT", "APPLY", "LOOKUP", "OPMAP", "OVERRIDE", "WIRE"},
		Technique:   "YAML schema comparison of producer and consumer types, Marshal/Unmarshal pairing, printer/parser table agreement",
		Explanation: "what `text conv` and `write conv` hand to the YAML encoder has the key tree and scalar types `write` decodes (yaml.v3 silently ignores unknown keys, which is how this breaks); every scalar reachable from input.Instance has both directions, the decoders read the scalar text with the parser and the encoders print with String; printers and parsers share their tables (inverse maps built from the forward maps, notation marks longest-first, regex classes = printer alphabets, `/` separator numerator first, bare number = denominator 1, minor mark from capture 3); numerals are base 10.",
		NotDecided:  "Parse(String(v)) == v for all values (a bijection over a value space); YAML quoting of arbitrary text (yaml.v3).",
	},
	"C11": {
		Rules:       []string{"STATE", "SPELL", "LEXMODE", "UNDERSCORE", "BASE10", "TOKENS", "EOFPRED", "ERRDROP", "PARSEERR", "WIRE"},
		Technique:   "lexer spelling table vs. consumer tables, type-dispatch check on every consumer of the accidental token",
		Explanation: "the second sentence for every consumer: each use of ChordDegree.Accidental goes through the canonicaliser that dispatches on the token type, whose outputs (# and b) are spellings every consumer table understands, so every spelling the lexer accepts is honoured identically; trivia is discarded before every token and comments skip to end of line; `symbol: simple_symbol` and `symbol: UNDERSCORE simple_symbol` build the same node; numerals are base 10 so leading zeros do not change the value.",
		NotDecided:  "byte identity of two runs' output (a relation over pairs of inputs); white space inside `{...}` (the lexer keeps inner spaces of metadata by design).",
	},
	"C12": {
		Rules:       []string{"MAPORDER", "CONC", "NONDET", "IOLAYER", "DEBUGOUT", "TAB-DEGREE", "STATE", "TAB-CIRCLE", "WIRE"},
		Technique:   "interprocedural order-taint analysis from map ranges to data sinks over go/ssa, plus inventories of goroutines, nondeterminism sources and I/O sites",
		Explanation: "for the enumerated sources of nondeterminism none reaches a data sink: map-iteration order (ranges over maps, maps.Keys/Values/All, functions summarised as returning map-ordered data) is tracked through values, stores, closures and range-over-func bodies to yaml.Marshal, writes and MIDI writer calls, with sorts and set construction as sanitisers and early exits justified by table invariants; the single goroutine is a single-producer FIFO closed on every path; no clock/random/environment/pid source and no %p; stdin/stdout/files only through the helpers, both input branches feed one callback, every data command writes through getOutput. Given the trusted base this is close to the whole property: a Go program without those sources is a function of its input.",
		NotDecided:  "sources outside the list (unsafe, cgo, finalisers - none present); the operating system.",
	},
	"C13": {
		Rules:       []string{"TAB-KEYSIG", "SCALEWIRE", "TAB-REGEX", "OPT", "ERRFLOW", "OPMAP", "TAB-DIATONIC", "PLAYLOOP", "WIRE"},
		Technique:   techTab + ": 28 signature rows against signatures derived from the step patterns; op.NewScale on all 42 key spellings, `info key describe` from the scale to the report and the key signature events of a piece that changes key five times by " + techFold,
		Explanation: "every row of the signature table equals the signature derived by walking the major / natural-minor step pattern from the tonic (not copied from a table); the 15 major and 13 minor keys exist; order of flats B E A D G C F by stacking fifths; flats take the first n, sharps the last n; the tonic-to-ring-index table; altered letters of every row equal the derived scale's; NewScale applies a row as stated and refuses keys without a row.",
		NotDecided:  "NewScale's output as a computed value (it is the composition of checked tables with structurally checked wiring).",
	},
	"C14": {
		Rules:       []string{"TAB-CIRCLE", "CIRCLEWIRE", "TAB-KEYSIG", "WIRE"},
		Technique:   techTab + ": ring laws and exhaustive chain check on the extracted model; wiring of find/index on SSA (guarded alternatives); NewCircleOfFifth and KeyConversionChain.Convert themselves decided on 28 keys x 40 chains by " + techFold,
		Explanation: "both rings have 12 slots, each slot's spellings are enharmonic, each step is a fifth up, the rings are aligned as relatives, the slots partition the supported keys (so results list every spelling); the four (other-ring, delta) pairs are (no,+1) (no,-1) (yes,0) (yes,-3/+3); on the extracted model every conversion of every key satisfies its definition and all 152,880 chains of length <= 6 satisfy d.s=id, r.r=p.p=id, d^12=id; the code conforms to the model: index in the key's own ring, slot index+delta in the requested ring, modulo wrap both ways, member threaded through the steps in order; CLI letters p r d s select the right conversions.",
		NotDecided:  "nothing of substance beyond `code = model` being a structural, not a semantic, equivalence - and that gap is closed for chains up to length 2 (plus x y x, twelve dominants / subdominants and two long alternations): op.NewCircleOfFifth() and op.KeyConversionChain.Convert themselves are folded on 28 keys x 40 chains, in both map orders, and each answer compared with the composition of the steps in the checker's own arithmetic (CIRCLEWIRE op.KeyConversionChain.Convert|domain).",
	},
	"C15": {
		Rules:       []string{"TAB-DEGREE", "STATE", "TAB-NOTATION", "TAB-NOTE", "ADDDEGREE", "RECUR", "SCHEMA", "WIRE"},
		Technique:   techTab + ": 14-row size table; note.Degree.Semitone on 8 qualities x numbers 0..64 (both visiting orders of its table), Semitone.Octave / WithoutOctave, Accidental.Semitone by " + techFold + "; adjustment tuples, octave constants and model agreement for 1..64 x 7 when the size function does not fold" + "; `info attr describe` and `info chord describe` from the dictionary to the report (2,952 descriptions) by " + techFold,
		Explanation: "the size table row by row, the four quality-adjustment tuples, the octave constants (7 numbers, 12 semitones), and agreement of the extracted tables + documented algorithm with the specification on size and validity for numbers 1..64 x 7 qualities; notation marks and the parser's candidate list (equal images, longest first); AddDegree adds root and interval, splits with floor semantics on 12 and tries natural, then the requested accidental, then the other; compound intervals are computed without unbounded recursion.",
		NotDecided:  "ParseDegree's use of strings.Trim (it accepts some non-canonical spellings such as `3b`; the property only needs printed notation to read back); findNameBySemitone's search as a computation.",
	},
	"C16": {
		Rules:       []string{"TAB-CHORDS", "TAB-ATTRS", "BUILDER", "VALIDATE", "REJECT", "RECUR", "EXTENDS", "SCHEMA", "WIRE"},
		Technique:   techTab + ": the two embedded dictionaries are constants and are decided completely",
		Explanation: "the data clauses completely: every built-in symbol resolves, parent first, through the checker's own resolver and notation reader to the stated interval set; aliases; every attribute name denotes the interval its English name says; attribute.yml equals the independent generator's list for 1..19; chords are indexed by name and by display; built-ins are loaded before user files; every decoded entry is validated, references are validated by NewMap (the only constructor of Map), cyclic extends is rejected by a visited-set walk; inheritance is parent-first and recursive.",
		NotDecided:  "that GenerateAttributes computes the list (its tables and loop bounds are checked and the file is compared with an independent generator, the function itself is not evaluated).",
	},
	"C17": {
		Rules:       []string{"TAB-DIATONIC", "TAB-LEXNAMES", "TAB-CHORDS", "TAB-KEYSIG", "SCALEWIRE", "TAB-NOTE", "TAB-DEGREE", "STATE", "APPLY", "EXTENDS", "OPT", "PLAYLOOP", "CLASSIFY", "WIRE"},
		Technique:   techTab + ": diatonic name tables against stacked thirds through chord.yml; printed names against the lexer's rune tables",
		Explanation: "for each mode and degree the chord named in the table, resolved through chord.yml, has exactly the pitch set of thirds stacked on that degree of the derived scale (right qualities, only scale tones, for all 28 keys because the specification is transposition invariant and TAB-KEYSIG ties each key to its derived scale); names are paired with scale notes by index; every printed chord lexes back as SYLLABLE [accidental] SYMBOL, with `_` exactly where a digit would otherwise lex as NUMBER.",
		NotDecided:  "the end-to-end pipe `text conv | write` as an execution.",
	},
}

// wireScope: which wiring functions bear on which property (construct-key prefixes of the WIRE rule).
var wireScope = map[string][]string{
	"C01": {"op.Key.Semitone", "note.Note.Semitone", "chord.Attribute.Semitone", "note.NewDegree", "note.ParseDegree", "chord.", "cmd.newChordMap", "cmd.newWriteCmdArgsFromInputInstances", "cmd.writeCmdArgs.writeToPlay"},
	"C04": {"input/ast.NewToken", "input/ast.NewLexer", "cmd.readFileOrStdinFromArgs"},
	"C12": {"cmd.readFileOrStdinFromArgs"},
	"C03": {"cmd.getKey", "astconv.", "op.ScaleNote.", "op.Key.Semitone", "op.Scale.", "note.NewDegree", "cmd.getScale", "cmd.textCmdConvSyllable"},
	"C05": {"cmd.getKey", "astconv.", "op.ScaleNote.", "op.Key.Semitone", "op.Scale.", "note.NewDegree", "note.Note.Semitone", "note.ParseDegree", "chord.Attribute.Semitone", "cmd.getScale", "cmd.textCmdConvSyllable", "cmd.newWriteCmdArgsFromInputInstances", "cmd.writeCmdArgs.writeToPlay"},
	"C06": {"midix.", "cmd.writeCmdArgs.writeToPlay"},
	"C07": {"cmd.getKey", "astconv.Meta", "astconv.ASTConverter.Convert|meta", "midix.NewTrackOp", "cmd.newWriteCmdArgsFromInputInstances", "cmd.writeCmdArgs.writeToPlay", "cmd.getScale"},
	"C08": {"midix."},
	"C09": {"astconv.MetaInstanceModifierImpl.", "note.NewDegree", "note.ParseDegree", "chord.Map."},
	"C10": {"input.ChordMetaTextMotifier", "cmd.writeCmdConv.RunE", "note.ParseDegree", "note.NewDegree", "cmd.newWriteCmdArgsFromInputInstances", "astconv.ASTConverter.Convert", "astconv.ValuesConverterImpl.", "astconv.MetaConverterImpl."},
	"C11": {"input/ast.NewToken", "input/ast.NewLexer", "astconv.SyllableChordConverter.newScaleNote", "astconv.DegreeChordConverter.", "astconv.SyllableChordConverter.Convert", "astconv.ValuesConverterImpl.", "cmd.infoCmdChordDescribe.RunE"},
	"C13": {"cmd.getKey", "op.AllScales", "op.Scale.", "op.ScaleNote.Semitone", "op.Key.Semitone", "desc.Key.Describe", "cmd.getScale", "cmd.infoKeyCmdDescribe"},
	"C14": {"cmd.infoKeyCmdConv", "cmd.getScale", "op.Circle."},
	"C15": {"desc.Chord.Describe", "cmd.infoCmdChordDescribe", "input.ChordMetaTextMotifier", "note.Note.AddDegree", "note.ParseDegree", "note.NewDegree", "note.Note.Semitone", "chord.Attribute.Semitone", "desc.Attribute.Describe", "cmd.infoCmdAttrDescribe", "cmd.getRootNote", "chord.Map.GetAttribute", "chord.GenerateAttributes"},
	"C16": {"cmd.genCmdAttr", "chord.", "desc.Chord.Describe", "desc.Attribute.Describe", "cmd.infoCmdChordDescribe", "cmd.newChordMap"},
	"C17": {"cmd.getKey", "astconv.SyllableChordConverter.", "op.ScaleNote.GetDegree", "op.Key.Semitone", "desc.Key.Describe", "op.DiatonicChorderImpl.", "cmd.infoKeyCmdDescribe", "op.Scale.", "op.ScaleNote.Semitone", "cmd.getScale", "chord.Map."},
}

// otherScope: scopes of other shared rules, property -> rule -> construct-key patterns (prefix, or *substring).
var otherScope = map[string]map[string][]string{
	// the 4-byte limit of a delta time is a matter of file well-formedness (C08); C02 is stated below 2^28 ticks
	// a duration written in the document is the duration played: the decoders of the fractions
	"C02": {"TRACKCOUNT": {"!midix|delta"}, "CODEC": {"util.Rat", "note.Value", "decode|util.Rat", "decode|note.Value"}},
	// a track's clock must hold any piece's length: the integer types ticks are kept in (NARROW)
	"C06": {"TRACKCOUNT": {"!midix|delta"}, "OPMAP": {"midix.Close.Call", "midix.MIDIWriter.Close", "midix.TrackOp.Call", "midix.Track.Apply"}, "NARROW": {"*Ticks", "*uint16", "*int32", "*int16"}},
	// a log line or any other print on stdout lands in front of the MIDI bytes when the file goes to stdout
	"C08": {"IOLAYER": {"*|os.Stdout", "*|fmt.Print", "*|cobra.Out"}},
	// the search over the interval table ranges over a map: it is deterministic only while exactly one row qualifies
	// texts and the bass survive the trip through the YAML document
	// ... and what `write` demands of a chord is no more than what the printers can produce (a degree that has a size)
	"C10": {"OVERRIDE": {"*|sentinel-only-for-zero"}, "OPT": {"play.midiArgs.writeWhenUpdated|meta"}, "LOOKUP": {"cmd.newWriteCmdArgsFromInputInstances|degree-present", "cmd.newWriteCmdArgsFromInputInstances|refusals"}, "OPMAP": {"midix.MIDIWriter.Text", "midix.MIDIWriter.Lyric", "midix.MIDIWriter.Marker", "midix.MetaText.Call", "midix.MetaLyric.Call", "midix.MetaMarker.Call"}},
	// the same tokens on one long line or on several lines: nothing may be cut silently
	// ... and the verdict of the parser must reach the exit status on every input path (stdin, `-`, FILE)
	"C04": {"IOLAYER": {"cmd.readFileOrStdin", "cmd.parseText", "input-kind|"}, "ERRDROP": {"*bufio.Scanner", "cmd.parseText"}, "ERRFLOW": {"cmd.readFileOrStdin", "cmd.parseText", "cmd.textCmd"}, "RECUR": {"chan|input/ast.", "loop|input/ast.", "cycle|input/ast."}},
	"C11": {"ERRDROP": {"*bufio.Scanner"}},
	"C16": {"REJECT": {"chord."}, "SCHEMA": {"producer|gen attr"}},
	// what `gen attr` prints is read back by --attr as the same intervals
	"C15": {"SCHEMA": {"producer|gen attr"}},
	// an unknown conversion letter anywhere in a chain is refused
	// ... and a decoder does not succeed without having kept what the document says
	"C09": {"CIRCLEWIRE": {"op.KeyConversionChain.Convert"}, "CODEC": {"*|keeps"}, "BASE10": {"util.ParseUint|decimal"}},
	// playable in every key: the key signature event is written for every key that has a scale
	"C17": {"OPT": {"play.midiArgs.writeWhenUpdated|key"}, "PLAYLOOP": {"play|pipeline"}, "CLASSIFY": {"astconv.ASTTypeClassifier.degreeType|domain"}},
	// the texts of an instance are its own: the converters keep nothing between instances
	// ... and a tempo, meter or dynamic written in the document is read as written (the decoders of the settings)
	"C07": {"CONVORDER": {"astconv|state"}, "CODEC": {"op.BPM", "op.Meter", "op.DynamicSign", "op.Velocity", "decode|op.BPM", "decode|op.Meter", "decode|op.DynamicSign"}},
	// the key the piece is played in: --key, when given, is the key of the first instance
	"C05": {"CODEC": {"decode|op.Key", "op.Key"}, "OVERRIDE": {"cmd.getKey", "cmd.overrideInstanceFromFlags|Key", "cmd.overrideInstanceFromFlags|handed-back", "cmd.overrideInstanceFromFlags|getters"}},
	// pitch arithmetic: the integer types pitches, intervals and note numbers are computed in
	"C01": {"BUILDER": {"chord.Builder.Build"}, "NARROW": {"*Semitone", "*MIDINoteNumber", "*Octave", "*note.Degree", "narrow|int->uint"}},
	"C12": {"TAB-CIRCLE": {"*|whole-member"}, "TAB-DEGREE": {"note.Degree.simpleSemitone|adjust", "note.Degree|adjust", "note.Degree.Semitone|order"}},
	// an unknown --key must be refused, not answered with another key's scale
	// ... and the key signature written is the key's own
	// ... for every key change of a piece, also one back to a key that was in force before (the play pipeline)
	"C13": {"TAB-DIATONIC": {"op.DiatonicChorderImpl.generate|"}, "ERRFLOW": {"cmd.getScale", "op.NewScale", "cmd.getKey", "*-> op.NewScale"}, "OPMAP": {"midix.MIDIWriter.Key", "midix.MetaKey.Call"}, "PLAYLOOP": {"play|pipeline"}},
}

func init() {
	for p, m := range otherScope {
		if pd := properties[p]; pd != nil {
			if pd.Scope == nil {
				pd.Scope = map[string][]string{}
			}
			for r, pats := range m {
				pd.Scope[r] = pats
			}
		}
	}
	for p, pfx := range wireScope {
		if pd := properties[p]; pd != nil {
			if pd.Scope == nil {
				pd.Scope = map[string][]string{}
			}
			pd.Scope["WIRE"] = pfx
		}
	}
}

// inScope: the obligation bears on the property (floor / anchor obligations of a rule always do).
func (pd *propDef) inScope(rule, key string) bool {
	pfx, ok := pd.Scope[rule]
	if !ok || key == "floor" || strings.HasPrefix(key, "anchor:") {
		return true
	}
	// patterns: prefix, *substring, or !prefix (exclusion; a scope made of exclusions only includes everything else)
	onlyExcl := true
	for _, p := range pfx {
		if strings.HasPrefix(p, "!") {
			if strings.HasPrefix(key, p[1:]) {
				return false
			}
			continue
		}
		onlyExcl = false
	}
	if onlyExcl {
		return true
	}
	for _, p := range pfx {
		if strings.HasPrefix(key, p) || (strings.HasPrefix(p, "*") && strings.Contains(key, p[1:])) {
			return true
		}
	}
	return false
}
