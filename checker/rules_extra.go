package main

// Rules added after the first round of independently seeded changes: ERRFLOW, OVERRIDE,
// and extra obligations for PARSEERR and OWN.

import (
	"fmt"
	"go/constant"
	"go/token"
	"go/types"
	"os"
	"sort"
	"strings"

	"golang.org/x/tools/go/ssa"
)

func init() {
	register("ERRFLOW", "an error returned by a repo function is not merely tested: it is returned, wrapped, stored or handed on; and a deferred closure never overwrites a function's named error result unconditionally", 60, ruleErrFlow)
	register("OVERRIDE", "overrideInstanceFromFlags: for each of --bpm/--velocity/--meter/--key, whenever the getter succeeds the instance field is replaced (no further condition), a real error is returned, and the `flag not given` sentinel falls through to the next flag", 4, ruleOverride)
}

// reviewedProbes: calls whose error result is legitimately used only as a predicate.
var reviewedProbes = map[string]string{
	"astconv.ASTTypeClassifier.degreeType -> util.ParseUint": "`is this token a number?` probe; the value and the error are not needed",
}

// errorEscapes: the error value is returned, wrapped, stored, appended or passed on (not merely compared or logged).
func (c *Ctx) errorEscapes(v ssa.Value, seen map[ssa.Value]bool, depth int) bool {
	if depth > 8 || seen[v] || v.Referrers() == nil {
		return false
	}
	seen[v] = true
	for _, ref := range *v.Referrers() {
		switch x := ref.(type) {
		case *ssa.Return:
			return true
		case *ssa.Store:
			if x.Val != v {
				continue
			}
			// stored into the argument list of a variadic call (fmt.Errorf("%w ...", err)): what counts is where that
			// call's own result goes - a wrapped error assigned to a shadowed, dead variable has gone nowhere
			if al, ok := addrRoot(x.Addr).(*ssa.Alloc); ok && al.Comment == "varargs" {
				handed := false
				for _, r1 := range *al.Referrers() {
					sl, ok := r1.(*ssa.Slice)
					if !ok {
						continue
					}
					for _, r2 := range *sl.Referrers() {
						ci, ok := r2.(ssa.CallInstruction)
						if !ok {
							continue
						}
						n := calleeName(ci.Common())
						if strings.HasPrefix(n, "log/slog.") || strings.HasPrefix(n, "fmt.Sprint") {
							continue
						}
						if call, ok := r2.(*ssa.Call); ok && isErrorish(call.Type()) {
							if c.errorEscapes(call, seen, depth+1) {
								return true
							}
							handed = true
							continue
						}
						return true
					}
				}
				if handed {
					continue
				}
			}
			return true
		case *ssa.Phi:
			if c.errorEscapes(x, seen, depth+1) {
				return true
			}
		case *ssa.MakeInterface:
			if c.errorEscapes(x, seen, depth+1) {
				return true
			}
		case *ssa.ChangeInterface:
			if c.errorEscapes(x, seen, depth+1) {
				return true
			}
		case *ssa.Extract:
			if c.errorEscapes(x, seen, depth+1) {
				return true
			}
		case ssa.CallInstruction:
			n := calleeName(x.Common())
			if strings.HasPrefix(n, "log/slog.") || n == "logx.Err" || n == "errors.Is" || n == "errors.As" {
				continue // logging / classification only
			}
			// passed to a function (fmt.Errorf via varargs is a Store; PanicOnError; a callback): counts as handed on
			for _, a := range x.Common().Args {
				if a == v {
					if call, ok := ref.(*ssa.Call); ok && isErrorish(call.Type()) {
						if c.errorEscapes(call, seen, depth+1) {
							return true
						}
						continue
					}
					return true
				}
			}
		}
	}
	return false
}

func ruleErrFlow(c *Ctx) {
	for _, fn := range c.srcFuncs() {
		for _, ci := range callsIn(fn) {
			call, ok := ci.(*ssa.Call)
			if !ok {
				continue
			}
			cc := call.Common()
			name := calleeName(cc)
			callee := staticCallee(cc)
			inScope := false
			if callee != nil && c.isRepoFunc(callee) {
				inScope = true
			} else if cc.IsInvoke() && c.isRepoPkgPath(pkgPathOfType(cc.Value.Type())) {
				inScope = true
			} else if errDropLib[name] {
				inScope = true
			} else if callee == nil && !cc.IsInvoke() {
				if f := funcOfValue(cc.Value); f != nil && c.isRepoFunc(f) {
					inScope = true
				}
			}
			if !inScope {
				continue
			}
			res := cc.Signature().Results()
			errIdx := -1
			for i := 0; i < res.Len(); i++ {
				if isErrorType(res.At(i).Type()) {
					errIdx = i
				}
			}
			if errIdx < 0 {
				continue
			}
			var errv ssa.Value = call
			if res.Len() > 1 {
				errv = nil
				for _, ref := range *call.Referrers() {
					if ex, ok := ref.(*ssa.Extract); ok && ex.Index == errIdx {
						errv = ex
					}
				}
			}
			if errv == nil || len(nonDebugRefs(errv)) == 0 {
				continue // dropped entirely: ERRDROP's business
			}
			c.site(1)
			key := fname(fn) + " -> " + name
			if c.errorEscapes(errv, map[ssa.Value]bool{}, 0) {
				c.ok(key, c.pos(call.Pos()), fname(fn), "the error is returned, wrapped or stored")
				continue
			}
			if why, ok := reviewedProbes[key]; ok {
				c.ok(key, c.pos(call.Pos()), fname(fn), "reviewed: "+why)
				continue
			}
			if isInitFunc(fn) {
				c.ok(key, c.pos(call.Pos()), fname(fn), "package initialiser")
				continue
			}
			c.bad(key, c.pos(call.Pos()), fname(fn), fmt.Sprintf("the error returned by %s is tested but goes nowhere: on failure this function just takes another path (e.g. returns early) and its caller never learns of it — the failure is not signalled (typical cause: `x, err := f()` inside a closure shadowing the outer err)", name))
		}
	}
	// deferred closures must not overwrite a named error result unconditionally
	for _, fn := range c.srcFuncs() {
		for _, ci := range callsIn(fn) {
			df, ok := ci.(*ssa.Defer)
			if !ok {
				continue
			}
			mc, ok := df.Call.Value.(*ssa.MakeClosure)
			if !ok {
				continue
			}
			cf := mc.Fn.(*ssa.Function)
			for i, fv := range cf.FreeVars {
				if pt, ok := fv.Type().(*types.Pointer); !ok || !isErrorType(pt.Elem()) {
					continue
				}
				// bound to a named result of the parent?
				al, ok := mc.Bindings[i].(*ssa.Alloc)
				if !ok || !isNamedResult(fn, al) {
					continue
				}
				allInstrs(cf, func(in ssa.Instruction) {
					st, ok := in.(*ssa.Store)
					if !ok || st.Addr != ssa.Value(fv) {
						return
					}
					c.site(1)
					key := fname(fn) + "|defer-overwrites-error"
					// accepted: guarded by `if *err == nil` (only replaces a nil error)
					guarded := false
					for _, pc := range pathConds(st.Block()) {
						if b, ok := pc.cond.(*ssa.BinOp); ok && (b.Op == token.EQL && pc.side || b.Op == token.NEQ && !pc.side) {
							if ld, ok := b.X.(*ssa.UnOp); ok && ld.X == ssa.Value(fv) && isNilConst(b.Y) {
								guarded = true
							}
						}
					}
					// accepted: errors.Join(old, new)
					if call, ok := st.Val.(*ssa.Call); ok && calleeName(&call.Call) == "errors.Join" {
						guarded = true
					}
					c.check(guarded, key, c.pos(st.Pos()), fname(fn), "the deferred closure only replaces a nil error", "a deferred closure assigns the function's named error result unconditionally: the error the function was about to return is overwritten (with nil when the deferred call succeeds), so a failing command exits 0")
				})
			}
		}
	}
}

func isNamedResult(fn *ssa.Function, al *ssa.Alloc) bool {
	res := fn.Signature.Results()
	for i := 0; i < res.Len(); i++ {
		if res.At(i).Name() != "" && res.At(i).Name() == al.Comment {
			return true
		}
	}
	return false
}

// ---------------------------------------------------------------------------
// OVERRIDE

func ruleOverride(c *Ctx) {
	fn := c.fn("cmd", "overrideInstanceFromFlags")
	if fn == nil {
		c.missing("cmd.overrideInstanceFromFlags")
		return
	}
	name := fname(fn)
	want := map[string]string{"cmd.getBPM": "BPM", "cmd.getVelocity": "Velocity", "cmd.getMeter": "Meter", "cmd.getKey": "Key"}
	seen := map[string]bool{}
	// the instance being overridden: the pointer parameter, or - handed over and back by value - the parameter's own
	// storage, which every successful return must then hand back
	var inst ssa.Value = fn.Params[1]
	if _, isPtr := fn.Params[1].Type().Underlying().(*types.Pointer); !isPtr {
		inst = nil
		for _, r := range *fn.Params[1].Referrers() {
			if st, ok := r.(*ssa.Store); ok && st.Val == ssa.Value(fn.Params[1]) {
				if al, ok := st.Addr.(*ssa.Alloc); ok {
					inst = al
				}
			}
		}
		c.site(1)
		handedBack := inst != nil
		allInstrs(fn, func(in ssa.Instruction) {
			r, ok := in.(*ssa.Return)
			if !ok || len(r.Results) != 2 || !isNilConst(r.Results[1]) {
				return
			}
			ld, ok := r.Results[0].(*ssa.UnOp)
			if !ok || ld.Op != token.MUL || ld.X != inst {
				handedBack = false
			}
		})
		c.check(handedBack, name+"|handed-back", c.pos(fn.Pos()), name, "the overridden copy is what a successful call returns", name+": the instance is taken by value but a successful return does not hand the overridden copy back")
	}
	calls := callsIn(fn)
	// the whole function on every combination of given and omitted flags, by folding (however the four blocks are
	// written: copied out, a loop over a table, a generic helper that is handed the getter)
	if problem, n, ok := c.overrideByFolding(fn); ok {
		for _, g := range sortedKeys(want) {
			c.site(1)
			c.check(problem == "", name+"|"+want[g], c.pos(fn.Pos()), name, fmt.Sprintf("%d combinations of given, omitted and refused flags folded on an instance with and without settings of its own: a given flag replaces the setting with what %s answers, an omitted one leaves it, a refused one is returned", n, g), name+": "+problem)
			seen[g] = true
		}
		calls = nil
	}
	for _, ci := range calls {
		getter := calleeName(ci.Common())
		field, ok := want[getter]
		if !ok {
			continue
		}
		seen[getter] = true
		c.site(1)
		call := ci.(*ssa.Call)
		var xv, errv ssa.Value
		for _, ref := range *call.Referrers() {
			if ex, ok := ref.(*ssa.Extract); ok {
				if ex.Index == 0 {
					xv = ex
				} else {
					errv = ex
				}
			}
		}
		problem := ""
		// the store instance.<field> = &x
		var store *ssa.Store
		allInstrs(fn, func(in ssa.Instruction) {
			st, ok := in.(*ssa.Store)
			if !ok {
				return
			}
			if n, base, ok := fieldName(st.Addr); ok && n == field && inst != nil && base == inst {
				// value: address of a local holding x
				if al, ok := st.Val.(*ssa.Alloc); ok {
					for _, r := range *al.Referrers() {
						if s2, ok := r.(*ssa.Store); ok && s2.Addr == ssa.Value(al) && s2.Val == xv {
							store = st
						}
					}
				}
			}
		})
		if store == nil {
			problem = fmt.Sprintf("the value of %s is never stored into instance.%s", getter, field)
		} else {
			conds := pathConds(store.Block())
			okCond := len(conds) == 1
			if okCond {
				b, isB := conds[0].cond.(*ssa.BinOp)
				okCond = isB && b.X == errv && isNilConst(b.Y) && ((b.Op == token.EQL && conds[0].side) || (b.Op == token.NEQ && !conds[0].side))
			}
			if !okCond {
				problem = fmt.Sprintf("instance.%s is replaced only under a further condition besides `err == nil` (%d path conditions): the flag does not always replace the first instance's setting, and the fall-through may return early and skip the remaining flags", field, len(conds))
			}
		}
		// real errors returned: errv flows to a Return guarded by !errors.Is(err, ErrOK)
		if problem == "" {
			ret := false
			for _, ref := range *errv.Referrers() {
				if r, ok := ref.(*ssa.Return); ok {
					// the sentinel test may be wrapped in a helper (`isFlagOmitted(err)`): resolve the condition to errors.Is(err, ...)
					tr := c.plainTracer()
					for _, g := range guardsOf(r.Block(), lval{nil, fn, nil}) {
						gl := tr.trace(g.cond)
						if call, ok := gl.v.(*ssa.Call); ok && calleeName(&call.Call) == "errors.Is" && !g.want {
							if e := tr.trace(gl.with(call.Call.Args[0])); len(e.chain) == 0 && e.v == errv {
								ret = true
							}
						}
					}
				}
			}
			if !ret {
				problem = "a real error of " + getter + " is not returned (or the `flag not given` sentinel is returned as an error)"
			}
		}
		c.check(problem == "", name+"|"+field, c.pos(ci.Pos()), name, getter+" ok -> instance."+field+" replaced; sentinel falls through; other errors returned", name+": "+problem)
	}
	var missing []string
	for g := range want {
		if !seen[g] {
			missing = append(missing, g)
		}
	}
	sort.Strings(missing)
	if len(missing) > 0 {
		c.bad(name+"|getters", c.pos(fn.Pos()), name, fmt.Sprintf("flag getters %v are never consulted: those flags are ignored", missing))
	}
	// the getters: zero/empty value -> sentinel ErrOK (means `no override`)
	for _, g := range []string{"getBPM", "getVelocity", "getMeter", "getKey"} {
		gf := c.fn("cmd", g)
		if gf == nil {
			c.missing("cmd." + g)
			continue
		}
		usesSentinel := false
		// (in the getter or in a helper it answers through)
		for _, rf := range c.regionFuncChainsList(gf) {
			allInstrs(rf, func(in ssa.Instruction) {
				if u, ok := in.(*ssa.UnOp); ok && u.Op == token.MUL {
					if gl, ok := u.X.(*ssa.Global); ok && gl.Name() == "ErrOK" {
						usesSentinel = true
					}
				}
			})
		}
		c.check(usesSentinel, "cmd."+g+"|sentinel", c.pos(gf.Pos()), fname(gf), "empty/zero flag value -> `not given` sentinel", "cmd."+g+" no longer returns the ErrOK sentinel for an unset flag")
		// ... and for nothing else: folded with the flag's value bound to probes, `not given` comes back for the zero value
		// only (a value that merely equals some default is a value the user gave)
		var sentinelID int
		if sp := c.ssapkg("errorx"); sp != nil {
			if eg := sp.Var("ErrOK"); eg != nil {
				sentinelID = c.globalTable(eg).errID
			}
		}
		if sentinelID != 0 {
			// the flag's value: a string probe for GetString, a number probe for GetUint, whichever the getter (or a
			// helper it reads the flag through) asks for; probe 0 is the zero value
			strs := []string{"", "C", "Am", "F#m", "mf", "4/4", "3/4", "100", "0", " "}
			nums := []int64{0, 1, 60, 100, 120, 255, 256, 65536, 7, 3}
			type probe struct{ s, n fval }
			var probes []probe
			for i := range strs {
				probes = append(probes, probe{fval{k: constant.MakeString(strs[i]), t: types.Typ[types.String]}, fval{k: constant.MakeInt64(nums[i]), t: types.Typ[types.Uint]}})
			}
			c.site(1)
			problem := ""
			for i, pv := range probes {
				fd := c.newFolder()
				used := pv.s
				fd.lib = func(fn *ssa.Function, args []fval) (fval, bool) {
					switch fname(fn) {
					case "github.com/spf13/pflag.FlagSet.GetString":
						used = pv.s
						return fval{tuple: []fval{pv.s, {isNil: true}}}, true
					case "github.com/spf13/pflag.FlagSet.GetUint":
						used = pv.n
						return fval{tuple: []fval{pv.n, {isNil: true}}}, true
					}
					return top, false
				}
				var ret *ssa.Return
				var retErr, retVal fval
				fd.hook = func(in ssa.Instruction, val func(ssa.Value) fval) bool {
					if r, ok := in.(*ssa.Return); ok && len(r.Results) == 2 {
						ret, retErr, retVal = r, val(r.Results[1]), val(r.Results[0])
					}
					return false
				}
				fd.foldCall(gf, []fval{top})
				if ret == nil {
					continue // does not fold for this probe: nothing is claimed
				}
				// a number the getter hands over unchecked is one the type's validator accepts (what `write conv` prints
				// from a flag must be a document `write` reads)
				if retErr.isNil && retVal.k != nil {
					if T := namedOf(ret.Results[0].Type()); T != nil {
						if vm, ok := c.validatedTypes()[T]; ok {
							if vfn := c.Prog.FuncValue(vm); vfn != nil {
								rv := retVal
								rv.t = T
								if verdict, err := c.newFolder().foldCall(vfn, []fval{rv}); err == nil && verdict.nonNil {
									problem = fmt.Sprintf("the value %s is handed over as a %s although %s.%s refuses it: the flag accepts what the YAML reader rejects, so `write conv` prints a document `write` cannot read", used.k.ExactString(), typeName(T), typeName(T), vm.Name())
								}
							}
						}
					}
				}
				isSentinel := retErr.nonNil && retErr.errID == sentinelID
				if i == 0 && !isSentinel && (retErr.isNil || (retErr.nonNil && retErr.errID != 0)) {
					problem = "the zero value of the flag is not answered with the `not given` sentinel"
				}
				if i > 0 && isSentinel {
					problem = fmt.Sprintf("the value %s is answered with the `not given` sentinel: a flag the user gave is ignored", used.k.ExactString())
				}
			}
			c.check(problem == "", "cmd."+g+"|sentinel-only-for-zero", c.pos(gf.Pos()), fname(gf), "`not given` for the zero value only (folded on probe values)", "cmd."+g+": "+problem)
		}
		if g == "getMeter" {
			// the time signature is the fraction as written: 6/8 is not 3/4 and 2/2 is not 1/1
			c.site(1)
			problem, undecided := "", ""
			for _, pr := range [][3]int64{{6, 8}, {2, 2}, {12, 8}, {4, 4}, {3, 4}, {7, 16}} {
				text := fmt.Sprintf("%d/%d", pr[0], pr[1])
				fd := c.newFolder()
				fd.maxSteps, fd.maxDepth = 40000, 10
				fd.lib = func(fn *ssa.Function, args []fval) (fval, bool) {
					switch fname(fn) {
					case "github.com/spf13/cobra.Command.Flags", "github.com/spf13/cobra.Command.PersistentFlags":
						return fval{nonNil: true}, true
					case "github.com/spf13/pflag.FlagSet.GetString":
						return fval{tuple: []fval{{k: constant.MakeString(text), t: types.Typ[types.String]}, {isNil: true}}}, true
					}
					return top, false
				}
				r, err := fd.foldCall(gf, []fval{{nonNil: true}})
				if err != nil || len(r.tuple) != 2 || !r.tuple[1].isNil || r.tuple[0].fields == nil || r.tuple[0].fields["Rat"].fields == nil {
					undecided = fmt.Sprintf("--meter %s does not fold to a meter (%v)", text, err)
					break
				}
				rat := r.tuple[0].fields["Rat"].fields
				if rat["Num"].k == nil || rat["Denom"].k == nil {
					undecided = "--meter " + text + " does not fold to a known fraction"
					break
				}
				gn, _ := constant.Int64Val(rat["Num"].k)
				gd, _ := constant.Int64Val(rat["Denom"].k)
				if gn != pr[0] || gd != pr[1] {
					problem = fmt.Sprintf("--meter %s becomes the time signature %d/%d: the fraction is not taken as it was written", text, gn, gd)
				}
			}
			switch {
			case undecided != "":
				// not decided by folding (a validator the folder cannot run, say): the shape then - the flag's text goes through
				// the reader of the document's own meter field and its two numbers, as they are, into op.NewMeter
				facts := c.facts(gf)
				shape := hasFact(facts, "call util.ParseRat(github.com/spf13/pflag.FlagSet.GetString(") && hasFact(facts, "call op.NewMeter(util.ParseRat(", ")#0.Num,util.ParseRat(", ")#0.Denom)")
				c.check(shape, "cmd.getMeter|as-written", c.pos(gf.Pos()), fname(gf), "--meter is read by util.ParseRat and its numerator and denominator are handed to op.NewMeter as they are ("+undecided+")", "cmd.getMeter: "+undecided+", and the flag's text is not read by util.ParseRat with both numbers handed to op.NewMeter as they are: a reader that reduces the fraction turns 6/8 into 3/4")
			default:
				c.check(problem == "", "cmd.getMeter|as-written", c.pos(gf.Pos()), fname(gf), "numerator and denominator of --meter are taken as written (6/8, 2/2, 12/8, 4/4, 3/4, 7/16 folded)", "cmd.getMeter: "+problem)
			}
		}
	}
}

// ---------------------------------------------------------------------------
// NARROW

// intRange: the value range of a basic integer type on the 64-bit targets crd is built for (lo, hi as float64 is enough to compare).
func intRange(b *types.Basic) (lo, hi float64, ok bool) {
	switch b.Kind() {
	case types.Int8:
		return -128, 127, true
	case types.Int16:
		return -32768, 32767, true
	case types.Int32, types.UntypedRune:
		return -2147483648, 2147483647, true
	case types.Int, types.Int64:
		return -9223372036854775808, 9223372036854775807, true
	case types.Uint8:
		return 0, 255, true
	case types.Uint16:
		return 0, 65535, true
	case types.Uint32:
		return 0, 4294967295, true
	case types.Uint, types.Uint64, types.Uintptr:
		return 0, 18446744073709551615, true
	}
	return 0, 0, false
}

// narrowingConversions lists every integer conversion of a repo function whose target type cannot hold every value of its source type.
func (c *Ctx) narrowingConversions() []*ssa.Convert {
	var out []*ssa.Convert
	for _, fn := range c.srcFuncs() {
		if strings.HasSuffix(c.Fset.PositionFor(fn.Pos(), false).Filename, "_generated.go") {
			continue
		}
		allInstrs(fn, func(in ssa.Instruction) {
			cv, ok := in.(*ssa.Convert)
			if !ok {
				return
			}
			sb, ok1 := cv.X.Type().Underlying().(*types.Basic)
			db, ok2 := cv.Type().Underlying().(*types.Basic)
			if !ok1 || !ok2 {
				return
			}
			slo, shi, ok1 := intRange(sb)
			dlo, dhi, ok2 := intRange(db)
			if !ok1 || !ok2 || (dlo <= slo && shi <= dhi) {
				return
			}
			// a value of an enumeration (a named integer type with declared constants, only ever produced from them)
			// ranges over those constants
			if n := namedOf(cv.X.Type()); n != nil && n.Obj().Pkg() != nil && c.isRepoPkgPath(n.Obj().Pkg().Path()) {
				if enum := c.enumConsts(short(n.Obj().Pkg().Path()), n.Obj().Name()); len(enum) >= 2 {
					fits := true
					for _, v := range enum {
						if float64(v) < dlo || float64(v) > dhi {
							fits = false
						}
					}
					if fits {
						return
					}
				}
			}
			// a quotient or remainder by a known number of 2 or more: a non-negative source divided by k is at most max/k,
			// a remainder below k
			if slo >= 0 {
				if b, ok := cv.X.(*ssa.BinOp); ok && (b.Op == token.QUO || b.Op == token.REM) {
					if k, ok := c.evalGlobalExpr(b.Y, 0); ok {
						if kv, exact := constant.Float64Val(constant.ToFloat(k)); exact || kv > 0 {
							if kv >= 2 && ((b.Op == token.QUO && shi/kv <= dhi) || (b.Op == token.REM && kv-1 <= dhi)) {
								return
							}
						}
					}
				}
			}
			out = append(out, cv)
		})
	}
	return out
}

// evalGlobalExpr: the value of an integer expression made of constants and fields of immutable package-level values
// (`perfect8.Value - 1`), whatever the function's arguments are.
func (c *Ctx) evalGlobalExpr(v ssa.Value, depth int) (constant.Value, bool) {
	if depth > 6 {
		return nil, false
	}
	switch x := v.(type) {
	case *ssa.Const:
		if x.Value != nil && x.Value.Kind() == constant.Int {
			return x.Value, true
		}
	case *ssa.Convert:
		return c.evalGlobalExpr(x.X, depth+1)
	case *ssa.ChangeType:
		return c.evalGlobalExpr(x.X, depth+1)
	case *ssa.BinOp:
		a, ok1 := c.evalGlobalExpr(x.X, depth+1)
		b, ok2 := c.evalGlobalExpr(x.Y, depth+1)
		if ok1 && ok2 {
			switch x.Op {
			case token.ADD, token.SUB, token.MUL:
				return constant.BinaryOp(a, x.Op, b), true
			}
		}
	case *ssa.UnOp:
		if x.Op != token.MUL {
			return nil, false
		}
		// a load of (a field of) a package-level value
		var path []string
		addr := x.X
		for {
			fa, ok := addr.(*ssa.FieldAddr)
			if !ok {
				break
			}
			n, _, _ := fieldName(fa)
			path = append([]string{n}, path...)
			addr = fa.X
		}
		g, ok := addr.(*ssa.Global)
		if !ok {
			return nil, false
		}
		cur := c.globalTable(g)
		if cur.cv != nil {
			cur = fromVal(cur.cv)
		}
		for _, p := range path {
			if cur.fields == nil {
				if cur.cv != nil {
					cur = fromVal(cur.cv)
				}
				if cur.fields == nil {
					return nil, false
				}
			}
			nxt, ok := cur.fields[p]
			if !ok {
				return nil, false
			}
			cur = nxt
		}
		if cur.k != nil && cur.k.Kind() == constant.Int {
			return cur.k, true
		}
	}
	return nil, false
}

// reviewedNarrowing: the integer conversions of the reviewed tree that go to a type which cannot hold every value of the
// source type, by (source type -> target type), each with the reason the values fit. The rule is about the pair, not the
// place: moving or duplicating such a conversion changes nothing, giving a type fewer bits makes new pairs.
var reviewedNarrowing = map[string]string{
	"uint->note.Semitone":                "the number of whole octaves in an interval number: a uint divided by 7 is below 2^62",
	"int->uint":                          "a letter distance plus one: at least 1",
	"note.Semitone->play.MIDINoteNumber": "pitch arithmetic of Key.Apply / SPN.MIDINoteNumber is done in MIDI note numbers (bytes); the summands are pitch classes, interval sizes and octaves of the reviewed tables",
	"op.BPM->int":                        "a tempo: validated positive, and a uint tempo beyond 2^63 is not a tempo",
	"uint->uint8":                        "meter numerator and denominator: Meter.validate refuses numerators above 255 and denominators above 128",
	"note.Semitone->uint8":               "the tonic's pitch class, 0..11",
	"int->uint8":                         "the number of sharps or flats of a key signature, 0..7",
}

func (c *Ctx) checkNarrowPairs() {
	seen := map[string]bool{}
	for _, cv := range c.narrowingConversions() {
		pair := typeName(cv.X.Type()) + "->" + typeName(cv.Type())
		fn := cv.Parent()
		c.site(1)
		if seen[pair] {
			continue
		}
		seen[pair] = true
		if why, ok := reviewedNarrowing[pair]; ok {
			c.ok("narrow|"+pair, c.pos(cv.Pos()), fname(fn), "reviewed: "+why)
			continue
		}
		ac := &affCtx{c: c, fn: fn, alias: map[ssa.Value]string{}}
		c.bad("narrow|"+pair, c.pos(cv.Pos()), fname(fn), fmt.Sprintf("%s converts %s (a %s) to %s, which cannot hold every value of the source type, and no such conversion was reviewed: values outside the target's range wrap around silently (a tempo of 300 written as 44, say) instead of being kept or refused", fname(fn), ac.describe(cv.X), typeName(cv.X.Type()), typeName(cv.Type())))
	}
}

// ---------------------------------------------------------------------------
// hidden state

// reviewedMutableGlobals: package-level variables of the music-theory and writer packages that are written after
// initialisation, with the reason that is harmless.
var reviewedMutableGlobals = map[string]string{}

// checkNoHiddenState: the packages that compute pitches, intervals, scales and events keep no state between calls: a
// package-level variable is written by the package initialiser only. A memo table or a cache there makes the answer for
// one input depend on what was asked before (and is where a wrong key for the memo hides).
func init() {
	register("STATE", "the packages that compute pitches, intervals, scales, conversions and events keep no state between calls: a package-level variable is written by its package initialiser only", 10, func(c *Ctx) { c.checkNoHiddenState() })
}

func (c *Ctx) checkNoHiddenState() {
	if c.hiddenStateChecked {
		return
	}
	c.hiddenStateChecked = true
	for _, pk := range []string{"note", "op", "chord", "util", "play", "midix", "astconv", "input", "desc"} {
		sp := c.ssapkg(pk)
		if sp == nil {
			continue
		}
		var names []string
		for n, m := range sp.Members {
			if _, ok := m.(*ssa.Global); ok {
				names = append(names, n)
			}
		}
		sort.Strings(names)
		for _, n := range names {
			g := sp.Members[n].(*ssa.Global)
			if strings.HasPrefix(n, "init$") || g.Object() == nil {
				continue
			}
			writer := ""
			for _, fn := range c.srcFuncs() {
				if fn.Name() == "init" && fn.Synthetic != "" {
					continue
				}
				if fn.Parent() != nil && fn.Parent().Name() == "init" && fn.Parent().Synthetic != "" {
					continue // a function literal of an initialiser
				}
				allInstrs(fn, func(in ssa.Instruction) {
					switch x := in.(type) {
					case *ssa.Store:
						if addrRoot(x.Addr) == ssa.Value(g) {
							writer = fname(fn)
						}
					case *ssa.MapUpdate:
						if ld, ok := x.Map.(*ssa.UnOp); ok && ld.X == ssa.Value(g) {
							writer = fname(fn)
						}
					}
				})
			}
			c.site(1)
			key := "state|" + pk + "." + n
			if writer == "" {
				c.ok(key, c.pos(g.Pos()), "", "written by the package initialiser only")
				continue
			}
			if why, ok := reviewedMutableGlobals[pk+"."+n]; ok {
				c.ok(key, c.pos(g.Pos()), writer, "reviewed: "+why)
				continue
			}
			c.bad(key, c.pos(g.Pos()), writer, fmt.Sprintf("%s.%s is written by %s after initialisation: the package keeps state between calls, so what a chord, interval or key gives depends on what was computed before it (a memo table answers for the wrong input as soon as its key leaves something out)", pk, n, writer))
		}
	}
}

// overrideByFolding folds cmd.overrideInstanceFromFlags (instance handed over by pointer) with the flag set standing in:
// each of --bpm, --velocity, --meter and --key given or omitted (16 combinations), on an instance without settings and
// on one that has all four, plus each flag alone with a value its getter refuses. The getters are folded on their own with
// the same flag values and say what is expected: a value replaces the setting, the `not given` sentinel leaves it as it
// was, any other error is what the function returns. ok=false when something does not fold.
func (c *Ctx) overrideByFolding(fn *ssa.Function) (string, int, bool) {
	if len(fn.Params) != 2 {
		return "", 0, false
	}
	if _, isPtr := fn.Params[1].Type().Underlying().(*types.Pointer); !isPtr {
		return "", 0, false
	}
	debug := os.Getenv("CRDCHECK_DEBUG") != ""
	var sentinelID int
	if sp := c.ssapkg("errorx"); sp != nil {
		if eg := sp.Var("ErrOK"); eg != nil {
			sentinelID = c.globalTable(eg).errID
		}
	}
	if sentinelID == 0 {
		return "", 0, false
	}
	type flagSpec struct{ flag, getter, field, good, bad string }
	specs := []flagSpec{{"bpm", "getBPM", "BPM", "100", ""}, {"velocity", "getVelocity", "Velocity", "mf", "zz"}, {"meter", "getMeter", "Meter", "3/4", "x"}, {"key", "getKey", "Key", "Am", "H"}}
	strT, uintT := types.Typ[types.String], types.Typ[types.Uint]
	libFor := func(vals map[string]string) func(*ssa.Function, []fval) (fval, bool) {
		return func(f *ssa.Function, as []fval) (fval, bool) {
			switch fname(f) {
			case "github.com/spf13/cobra.Command.Flags", "github.com/spf13/cobra.Command.PersistentFlags":
				return fval{nonNil: true}, true
			case "github.com/spf13/pflag.FlagSet.GetString", "github.com/spf13/pflag.FlagSet.GetUint":
				if len(as) != 2 || as[1].k == nil || as[1].k.Kind() != constant.String {
					return top, false
				}
				v := vals[constant.StringVal(as[1].k)]
				if strings.HasSuffix(fname(f), "GetUint") {
					n := int64(0)
					fmt.Sscanf(v, "%d", &n)
					return fval{tuple: []fval{{k: constant.MakeInt64(n), t: uintT}, {isNil: true}}}, true
				}
				return fval{tuple: []fval{{k: constant.MakeString(v), t: strT}, {isNil: true}}}, true
			}
			return top, false
		}
	}
	// what each getter answers for a value: "" (refused), "sentinel", or the description of the value
	answer := func(sp flagSpec, v string) (string, bool) {
		gf := c.fn("cmd", sp.getter)
		if gf == nil {
			return "", false
		}
		fd := c.newFolder()
		fd.maxSteps, fd.maxDepth = 40000, 10
		fd.lib = libFor(map[string]string{sp.flag: v})
		r, err := fd.foldCall(gf, []fval{{nonNil: true}})
		if err != nil || len(r.tuple) != 2 || !(r.tuple[1].isNil || r.tuple[1].nonNil) {
			if debug {
				fmt.Fprintf(os.Stderr, "overrideByFolding: %s(%q) does not fold: %v %s\n", sp.getter, v, err, r.String())
			}
			return "", false
		}
		switch {
		case r.tuple[1].isNil:
			if !r.tuple[0].known() {
				return "", false
			}
			return "value " + fd.describeDeep(r.tuple[0], 0), true
		case r.tuple[1].errID == sentinelID:
			return "sentinel", true
		}
		return "refused", true
	}
	n := 0
	run := func(vals map[string]string, withSettings bool) (string, bool) {
		fd := c.newFolder()
		fd.maxSteps, fd.maxDepth = 100000, 12
		fd.lib = libFor(vals)
		heap := map[*ssa.Alloc]fval{}
		before := map[string]string{}
		fields := map[string]fval{"Values": {isNil: true}, "Chord": {isNil: true}, "Meta": {isNil: true}}
		for _, sp := range specs {
			fields[sp.field] = fval{isNil: true}
			before[sp.field] = "nil"
			if withSettings {
				a, ok := answer(sp, sp.good)
				if !ok || !strings.HasPrefix(a, "value ") {
					return "", false
				}
				// some other value of the right type: the getter's answer for the good value, kept in a cell of its own
				gf := c.fn("cmd", sp.getter)
				g := c.newFolder()
				g.lib = libFor(map[string]string{sp.flag: sp.good})
				r, err := g.foldCall(gf, []fval{{nonNil: true}})
				if err != nil || len(r.tuple) != 2 {
					return "", false
				}
				cell := new(ssa.Alloc)
				heap[cell] = r.tuple[0]
				fields[sp.field] = fval{addr: &faddr{base: cell}}
				before[sp.field] = "own " + a
			}
		}
		icell := new(ssa.Alloc)
		heap[icell] = fval{fields: fields}
		fd.heap = heap
		r, err := fd.foldCallEnv(fn, []fval{{nonNil: true}, {addr: &faddr{base: icell}}}, nil, heap)
		if err != nil || !(r.isNil || r.nonNil) || len(fd.incomplete) > 0 {
			if debug {
				fmt.Fprintf(os.Stderr, "overrideByFolding: %v (settings=%v) does not fold: %v %s incomplete=%v\n", vals, withSettings, err, r.String(), fd.incomplete)
			}
			return "", false
		}
		n++
		what := fmt.Sprintf("with the flags %v on an instance %s settings of its own", vals, map[bool]string{true: "with", false: "without"}[withSettings])
		refused := ""
		for _, sp := range specs {
			a, ok := answer(sp, vals[sp.flag])
			if !ok {
				return "", false
			}
			if a == "refused" {
				refused = sp.flag
			}
		}
		if refused != "" {
			if !r.nonNil {
				return fmt.Sprintf("%s: --%s is refused by its getter but no error is returned", what, refused), true
			}
			return "", true
		}
		if !r.isNil {
			return what + ": an error is returned although every flag is given properly or omitted", true
		}
		after := heap[icell]
		for _, sp := range specs {
			a, _ := answer(sp, vals[sp.flag])
			got := after.fields[sp.field]
			gd := "nil"
			if !got.isNil {
				if got.addr == nil {
					return "", false
				}
				gd = "value " + fd.describeDeep(fd.deref(got), 0)
				if withSettings {
					if orig := fields[sp.field]; orig.addr != nil && got.addr.base == orig.addr.base {
						gd = "own " + gd
					}
				}
			}
			wantD := before[sp.field]
			if a != "sentinel" {
				wantD = a
			}
			if withSettings && a != "sentinel" && strings.HasPrefix(gd, "own ") {
				// the given value equals the instance's own here (same probe): tell them apart by the cell
				return fmt.Sprintf("%s: --%s is given but instance.%s still points at the instance's own setting", what, sp.flag, sp.field), true
			}
			if gd != wantD {
				return fmt.Sprintf("%s: instance.%s is %s afterwards, want %s (a given flag replaces the setting, an omitted one leaves it)", what, sp.field, gd, wantD), true
			}
		}
		return "", true
	}
	for mask := 0; mask < 16; mask++ {
		vals := map[string]string{}
		for i, sp := range specs {
			if mask&(1<<i) != 0 {
				vals[sp.flag] = sp.good
			}
		}
		for _, ws := range []bool{false, true} {
			p, ok := run(vals, ws)
			if !ok {
				return "", 0, false
			}
			if p != "" {
				return p, n, true
			}
		}
	}
	for _, sp := range specs {
		if sp.bad == "" {
			continue
		}
		p, ok := run(map[string]string{sp.flag: sp.bad}, true)
		if !ok {
			continue // whether an error built at run time is the sentinel does not always fold: nothing is claimed for this case (ERRFLOW / ERRDROP see to dropped errors)
		}
		if p != "" {
			return p, n, true
		}
	}
	return "", n, true
}
