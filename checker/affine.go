package main

// Affine-form analysis over SSA: a value is described as sum(coeff * atom) + const,
// where atoms are call results, parameters, field loads and element loads, each
// named by a canonical description. Used to state arithmetic identities such as
// pitch = MiddleC + key + degree + attribute without running anything.

import (
	"fmt"
	"go/constant"
	"go/token"
	"go/types"
	"sort"
	"strings"

	"golang.org/x/tools/go/ssa"
)

type affForm struct {
	terms map[string]int64
	k     int64
	bad   string // non-empty: not affine, reason
}

func (a *affForm) String() string {
	if a.bad != "" {
		return "<not affine: " + a.bad + ">"
	}
	var ks []string
	for k, v := range a.terms {
		if v != 0 {
			ks = append(ks, k)
		}
	}
	sort.Strings(ks)
	var sb strings.Builder
	for i, k := range ks {
		v := a.terms[k]
		switch {
		case v == 1 && i == 0:
			sb.WriteString(k)
		case v == 1:
			sb.WriteString("+" + k)
		case v == -1:
			sb.WriteString("-" + k)
		case v > 0 && i > 0:
			fmt.Fprintf(&sb, "+%d*%s", v, k)
		default:
			fmt.Fprintf(&sb, "%d*%s", v, k)
		}
	}
	if a.k != 0 || len(ks) == 0 {
		if a.k >= 0 && len(ks) > 0 {
			sb.WriteString("+")
		}
		fmt.Fprintf(&sb, "%d", a.k)
	}
	return sb.String()
}

func (a *affForm) equal(terms map[string]int64, k int64) bool {
	if a.bad != "" || a.k != k {
		return false
	}
	for t, v := range a.terms {
		if v != 0 && terms[t] != v {
			return false
		}
	}
	for t, v := range terms {
		if a.terms[t] != v {
			return false
		}
	}
	return true
}

func (a *affForm) coeff(atom string) int64 { return a.terms[atom] }

func affConst(k int64) *affForm     { return &affForm{terms: map[string]int64{}, k: k} }
func affAtom(s string) *affForm     { return &affForm{terms: map[string]int64{s: 1}} }
func affBad(reason string) *affForm { return &affForm{bad: reason} }
func (a *affForm) isConst() bool    { return a.bad == "" && len(a.nonzero()) == 0 }
func (a *affForm) nonzero() []string {
	var ks []string
	for k, v := range a.terms {
		if v != 0 {
			ks = append(ks, k)
		}
	}
	sort.Strings(ks)
	return ks
}

func affAdd(a, b *affForm, sign int64) *affForm {
	if a.bad != "" {
		return a
	}
	if b.bad != "" {
		return b
	}
	r := &affForm{terms: map[string]int64{}, k: a.k + sign*b.k}
	for t, v := range a.terms {
		r.terms[t] += v
	}
	for t, v := range b.terms {
		r.terms[t] += sign * v
	}
	return r
}

func affScale(a *affForm, s int64) *affForm {
	if a.bad != "" {
		return a
	}
	r := &affForm{terms: map[string]int64{}, k: a.k * s}
	for t, v := range a.terms {
		r.terms[t] = v * s
	}
	return r
}

type affCtx struct {
	c     *Ctx
	fn    *ssa.Function
	depth int
	// names for values the caller wants to appear under a fixed atom name
	alias map[ssa.Value]string
	// when describing the body of an inlined helper: its parameters stand for these forms / descriptions of the caller
	substForm map[ssa.Value]*affForm
	substDesc map[ssa.Value]string
	inlining  int
}

// inlinable: a same-package, unexported, non-recursive helper with a single return whose result can be described in place.
func (ac *affCtx) inlinable(call *ssa.Call) (*ssa.Function, bool) {
	callee, ok := ac.transparent(call)
	if !ok || len(returnsOf(callee)) != 1 {
		return nil, false
	}
	return callee, true
}

// transparent: a helper the description looks through: same package, unexported, not recursive, without loops,
// and not part of the vocabulary the WIRE facts are written in (those stay opaque so that the facts keep their names).
func (ac *affCtx) transparent(call *ssa.Call) (*ssa.Function, bool) {
	return ac.transparentLoops(call, false)
}

// transparentLoops: as transparent; helpers with loops qualify only for contributing facts, not for value descriptions.
func (ac *affCtx) transparentLoops(call *ssa.Call, allowLoops bool) (*ssa.Function, bool) {
	if ac.inlining >= 3 {
		return nil, false
	}
	callee := staticCallee(&call.Call)
	if callee == nil || !ac.c.isRepoFunc(callee) || len(callee.Blocks) == 0 || callee.Parent() != nil || callee == ac.fn {
		return nil, false
	}
	if strings.HasSuffix(callee.Name(), "$bound") {
		return nil, false
	}
	// a helper of the same package that is not exported - or any function that did not exist when the facts were written
	// (an accessor introduced since, in whatever package): the facts cannot be phrased in terms of it
	obj := objOfFunc(callee)
	if obj == nil {
		return nil, false
	}
	if obj.Exported() {
		if reviewedExported[fname(origin(callee))] {
			return nil, false
		}
	} else if cp, fp := pkgOfFunc(callee), pkgOfFunc(ac.fn); cp == nil || fp == nil || cp != fp {
		return nil, false
	}
	if wireVocabulary()[fname(callee)] {
		return nil, false
	}
	// no loops: the result must be an expression of the parameters
	for _, b := range callee.Blocks {
		if !allowLoops && inLoop(b) {
			return nil, false
		}
	}
	return callee, true
}

// principalReturn: result i of a transparent helper with several returns, when exactly one return yields something
// other than nil / a zero constant for it (the value on the success path; the other returns are the error exits).
func (ac *affCtx) principalReturn(call *ssa.Call, i int) (*ssa.Function, ssa.Value, bool) {
	callee, ok := ac.transparent(call)
	if !ok || i >= callee.Signature.Results().Len() {
		return nil, nil, false
	}
	if isErrorType(callee.Signature.Results().At(i).Type()) {
		return nil, nil, false
	}
	var principal ssa.Value
	n := 0
	for _, r := range returnsOf(callee) {
		v := retVal(r, i)
		if isNilConst(v) {
			continue
		}
		if k, ok := v.(*ssa.Const); ok && k.Value != nil && (k.Value.ExactString() == "0" || k.Value.ExactString() == "false" || k.Value.ExactString() == `""`) {
			continue
		}
		// a zero-valued struct local that is never written (`var d T; return d, err`)
		if isUnwrittenLocal(v) {
			continue
		}
		principal = v
		n++
	}
	if n != 1 {
		return nil, nil, false
	}
	return callee, principal, true
}

func isUnwrittenLocal(v ssa.Value) bool {
	ld, ok := v.(*ssa.UnOp)
	if !ok || ld.Op != token.MUL {
		return false
	}
	al, ok := ld.X.(*ssa.Alloc)
	if !ok {
		return false
	}
	for _, r := range *al.Referrers() {
		if r != ssa.Instruction(ld) {
			if _, isLoad := r.(*ssa.UnOp); !isLoad {
				return false
			}
		}
	}
	return true
}

func (ac *affCtx) child(callee *ssa.Function, call *ssa.Call) *affCtx {
	ch := &affCtx{c: ac.c, fn: callee, alias: map[ssa.Value]string{}, substForm: map[ssa.Value]*affForm{}, substDesc: map[ssa.Value]string{}, inlining: ac.inlining + 1}
	for i, p := range callee.Params {
		if i < len(call.Call.Args) {
			a := call.Call.Args[i]
			ch.substDesc[p] = ac.describe(a)
			if b, ok := a.Type().Underlying().(*types.Basic); ok && b.Info()&types.IsInteger != 0 {
				ch.substForm[p] = ac.form(a)
			}
		}
	}
	return ch
}

func (c *Ctx) affine(fn *ssa.Function, v ssa.Value) *affForm {
	ac := &affCtx{c: c, fn: fn, alias: map[ssa.Value]string{}}
	return ac.form(v)
}

func (ac *affCtx) form(v ssa.Value) *affForm {
	ac.depth++
	defer func() { ac.depth-- }()
	if ac.depth > 60 {
		return affBad("too deep")
	}
	if n, ok := ac.alias[v]; ok {
		return affAtom(n)
	}
	if f, ok := ac.substForm[v]; ok {
		return f
	}
	switch x := v.(type) {
	case *ssa.Const:
		if k, ok := constInt(x); ok {
			return affConst(k)
		}
		return affBad("non-integer constant " + x.String())
	case *ssa.Convert:
		return ac.form(x.X)
	case *ssa.ChangeType:
		return ac.form(x.X)
	case *ssa.BinOp:
		// string concatenation keeps its order
		if bt, ok := x.Type().Underlying().(*types.Basic); ok && bt.Info()&types.IsString != 0 && x.Op == token.ADD {
			return affAtom(ac.describe(x.X) + "++" + ac.describe(x.Y))
		}
		if ph, ok := x.X.(*ssa.Phi); ok && ph.Comment == "rangeindex" && x.Op == token.ADD {
			if k, ok := constInt(x.Y); ok && k == 1 {
				return affAtom("i")
			}
		}
		switch x.Op {
		case token.ADD:
			return affAdd(ac.form(x.X), ac.form(x.Y), 1)
		case token.SUB:
			return affAdd(ac.form(x.X), ac.form(x.Y), -1)
		case token.MUL:
			a, b := ac.form(x.X), ac.form(x.Y)
			if a.isConst() {
				return affScale(b, a.k)
			}
			if b.isConst() {
				return affScale(a, b.k)
			}
			return affAtom(ac.describe(v))
		}
		return affAtom(ac.describe(v))
	case *ssa.UnOp:
		if x.Op == token.SUB {
			return affScale(ac.form(x.X), -1)
		}
		// a package-level variable that is only ever read and whose initialiser folds is as good as a constant
		if g, ok := x.X.(*ssa.Global); ok && x.Op == token.MUL {
			if gv := ac.c.globalTable(g); gv.k != nil && gv.k.Kind() == constant.Int {
				if n, ok := constant.Int64Val(gv.k); ok {
					return affConst(n)
				}
			}
		}
	case *ssa.Call:
		// a repo function applied to constants only folds to a constant (e.g. note.Octave(1).Semitone() = 12)
		if callee := staticCallee(&x.Call); callee != nil && ac.c.isRepoFunc(callee) && len(x.Call.Args) > 0 {
			var args []fval
			allConst := true
			for _, a := range x.Call.Args {
				// a constant, or an immutable package-level value whose initialiser folds (MiddleC)
				if ld, ok := stripConv(a).(*ssa.UnOp); ok && ld.Op == token.MUL {
					if g, ok := ld.X.(*ssa.Global); ok {
						if gv := ac.c.globalTable(g); gv.k != nil || gv.fields != nil {
							args = append(args, gv)
							continue
						}
					}
				}
				k, ok := stripConv(a).(*ssa.Const)
				if !ok || k.Value == nil {
					allConst = false
					break
				}
				args = append(args, fval{k: k.Value, t: a.Type()})
			}
			if allConst {
				if r, err := ac.c.newFolder().foldCall(callee, args); err == nil && r.k != nil {
					if n, ok := constant.Int64Val(constant.ToInt(r.k)); ok {
						return affConst(n)
					}
				}
			}
		}
		if callee, ok := ac.inlinable(x); ok {
			if rv, ok := singleReturn(callee, 0); ok && callee.Signature.Results().Len() == 1 {
				if b, isB := rv.Type().Underlying().(*types.Basic); isB && b.Info()&types.IsInteger != 0 {
					return ac.child(callee, x).form(rv)
				}
			}
		}
	}
	return affAtom(ac.describe(v))
}

// describe gives a canonical name to a value.
func (ac *affCtx) describe(v ssa.Value) string {
	ac.depth++
	defer func() { ac.depth-- }()
	if ac.depth > 60 {
		return "?"
	}
	if n, ok := ac.alias[v]; ok {
		return n
	}
	if d, ok := ac.substDesc[v]; ok {
		return d
	}
	switch x := v.(type) {
	case *ssa.Parameter:
		// canonical: parameters are named by position (p0 = receiver or first parameter), so renaming them changes nothing
		for i, p := range x.Parent().Params {
			if p == x {
				return fmt.Sprintf("p%d", i)
			}
		}
		return x.Name()
	case *ssa.Const:
		if x.Value == nil {
			return "nil"
		}
		return x.Value.ExactString()
	case *ssa.Global:
		return short(x.Pkg.Pkg.Path()) + "." + x.Name()
	case *ssa.Function:
		return fname(x)
	case *ssa.FreeVar:
		// a captured variable: what the enclosing function binds it to, marked as belonging to that function
		// (never the variable's own name, which a rename would change)
		if d, ok := ac.freeVarBinding(x); ok {
			return "up(" + d + ")"
		}
		return fmt.Sprintf("captured<%s>", typeName(x.Type()))
	case *ssa.Alloc:
		// a local that only ever holds one parameter is that parameter
		var src ssa.Value
		n := 0
		for _, r := range *x.Referrers() {
			if st, ok := r.(*ssa.Store); ok && st.Addr == x {
				src = st.Val
				n++
			}
		}
		if n == 1 {
			return ac.describe(src)
		}
		// canonical: a local is named by its type, not by its identifier
		if pt, ok := x.Type().(*types.Pointer); ok {
			return "var<" + short(types.TypeString(pt.Elem(), nil)) + ">"
		}
		return "var"
	case *ssa.UnOp:
		switch x.Op {
		case token.MUL:
			if g, ok := x.X.(*ssa.Global); ok {
				return short(g.Pkg.Pkg.Path()) + "." + g.Name()
			}
			return ac.describe(x.X)
		case token.NOT:
			return "!" + ac.describe(x.X)
		case token.SUB:
			return "-" + ac.describe(x.X)
		}
	case *ssa.FieldAddr:
		n, base, _ := fieldName(x)
		return ac.describe(base) + "." + n
	case *ssa.Field:
		n, base, _ := fieldName(x)
		return ac.describe(base) + "." + n
	case *ssa.IndexAddr:
		return ac.describe(x.X) + "[" + ac.describe(x.Index) + "]"
	case *ssa.Index:
		return ac.describe(x.X) + "[" + ac.describe(x.Index) + "]"
	case *ssa.Lookup:
		return ac.describe(x.X) + "[" + ac.describe(x.Index) + "]"
	case *ssa.Convert:
		return ac.describe(x.X)
	case *ssa.ChangeType:
		return ac.describe(x.X)
	case *ssa.MakeInterface:
		return ac.describe(x.X)
	case *ssa.Extract:
		if call, ok := x.Tuple.(*ssa.Call); ok {
			if callee, rv, ok := ac.principalReturn(call, x.Index); ok {
				return ac.child(callee, call).describe(rv)
			}
		}
		return fmt.Sprintf("%s#%d", ac.describe(x.Tuple), x.Index)
	case *ssa.Call:
		if callee, ok := ac.inlinable(x); ok && callee.Signature.Results().Len() == 1 {
			if rv, ok := singleReturn(callee, 0); ok {
				return ac.child(callee, x).describe(rv)
			}
		}
		var args []string
		if x.Call.IsInvoke() {
			args = append(args, ac.describe(x.Call.Value))
		}
		for _, a := range x.Call.Args {
			args = append(args, ac.argString(a))
		}
		name := calleeName(&x.Call)
		if name == "" {
			name, args = renderFuncValueCall(ac.describe(x.Call.Value), args)
		}
		return name + "(" + strings.Join(args, ",") + ")"
	case *ssa.BinOp:
		// string concatenation keeps its order
		if bt, ok := x.Type().Underlying().(*types.Basic); ok && bt.Info()&types.IsString != 0 && x.Op == token.ADD {
			return ac.describe(x.X) + "++" + ac.describe(x.Y)
		}
		if ph, ok := x.X.(*ssa.Phi); ok && ph.Comment == "rangeindex" && x.Op == token.ADD {
			if k, ok := constInt(x.Y); ok && k == 1 {
				return "i"
			}
		}
		f := ac.form(v)
		if f.bad == "" && !(len(f.nonzero()) == 1 && f.terms[f.nonzero()[0]] == 1 && f.k == 0) {
			return f.String()
		}
		return "(" + ac.describe(x.X) + x.Op.String() + ac.describe(x.Y) + ")"
	case *ssa.Phi:
		if x.Comment == "rangeint.iter" || isCountingIndex(x) {
			return "i"
		}
		// distinct phis stay distinct: numbered in block order within the function
		n := 0
		for _, b := range x.Parent().Blocks {
			for _, in := range b.Instrs {
				if ph, ok := in.(*ssa.Phi); ok {
					if ph == x {
						return fmt.Sprintf("phi%d<%s>", n, short(types.TypeString(x.Type(), nil)))
					}
					n++
				}
			}
		}
		return "phi<" + short(types.TypeString(x.Type(), nil)) + ">"
	case *ssa.MakeClosure:
		// a method value: the method and the receiver it is bound to
		if f := x.Fn.(*ssa.Function); strings.HasSuffix(f.Name(), "$bound") && len(x.Bindings) == 1 {
			return "bound:" + fname(unbound(f)) + "(" + ac.describe(x.Bindings[0]) + ")"
		}
		return "closure:" + fname(x.Fn.(*ssa.Function))
	case *ssa.Slice:
		return ac.describe(x.X) + "[:]"
	case *ssa.TypeAssert:
		return ac.describe(x.X) + ".(" + typeName(x.AssertedType) + ")"
	case *ssa.Next:
		return "next(" + ac.describe(x.Iter) + ")"
	case *ssa.Range:
		return "range(" + ac.describe(x.X) + ")"
	}
	return v.Name() + ":" + short(types.TypeString(v.Type(), nil))
}

func (ac *affCtx) argString(v ssa.Value) string {
	if b, ok := v.Type().Underlying().(*types.Basic); ok && b.Info()&types.IsInteger != 0 {
		f := ac.form(v)
		if f.bad == "" {
			return f.String()
		}
	}
	// a variadic argument list (`append(xs, a, b)`): render the elements
	if sl, ok := v.(*ssa.Slice); ok && sl.Low == nil && sl.High == nil {
		if al, ok := sl.X.(*ssa.Alloc); ok && al.Comment == "varargs" {
			elems := map[int64]string{}
			okAll := true
			for _, r := range *al.Referrers() {
				ia, ok := r.(*ssa.IndexAddr)
				if !ok {
					continue
				}
				k, isK := constInt(ia.Index)
				for _, rr := range *ia.Referrers() {
					if st, ok := rr.(*ssa.Store); ok && st.Addr == ssa.Value(ia) {
						if !isK {
							okAll = false
						}
						elems[k] = ac.describe(st.Val)
					}
				}
			}
			if okAll && len(elems) > 0 {
				var ss []string
				for i := int64(0); i < int64(len(elems)); i++ {
					ss = append(ss, elems[i])
				}
				return "[" + strings.Join(ss, ",") + "]"
			}
		}
	}
	return ac.describe(v)
}

// freeVarBinding describes, in the enclosing function's terms, the value a closure's free variable is bound to.
func (ac *affCtx) freeVarBinding(fv *ssa.FreeVar) (string, bool) {
	fn := fv.Parent()
	parent := fn.Parent()
	if parent == nil || ac.depth > 6 {
		return "", false
	}
	idx := -1
	for i, v := range fn.FreeVars {
		if v == fv {
			idx = i
		}
	}
	var bound ssa.Value
	n := 0
	allInstrs(parent, func(in ssa.Instruction) {
		if mc, ok := in.(*ssa.MakeClosure); ok && mc.Fn == ssa.Value(fn) && idx >= 0 && idx < len(mc.Bindings) {
			bound = mc.Bindings[idx]
			n++
		}
	})
	if n != 1 || bound == nil {
		return "", false
	}
	pc := &affCtx{c: ac.c, fn: parent, alias: map[ssa.Value]string{}, depth: ac.depth + 1}
	return pc.describe(bound), true
}

// renderFuncValueCall: a call through a function value; when the value is a method value "bound:T.m(recv)" the call is
// rendered like the static call T.m(recv, args...), so that passing a method to a helper reads like calling it.
func renderFuncValueCall(fv string, args []string) (string, []string) {
	if strings.HasPrefix(fv, "bound:") && strings.HasSuffix(fv, ")") {
		body := strings.TrimPrefix(fv, "bound:")
		if i := strings.Index(body, "("); i > 0 {
			recv := body[i+1 : len(body)-1]
			return body[:i], append([]string{recv}, args...)
		}
	}
	return "call:" + fv, args
}

// isCountingIndex: the variable of `for i := 0; i < n; i++` - a phi at a loop head that starts at 0, grows by 1 on every
// way round, and is tested `i < n` at the head against a bound that is not itself an arithmetic expression (n-1, n/2);
// it visits 0..n-1 as the index of a range loop does.
func isCountingIndex(phi *ssa.Phi) bool {
	h := phi.Block()
	loop := naturalLoop(h)
	if loop == nil {
		return false
	}
	if b, ok := phi.Type().Underlying().(*types.Basic); !ok || b.Info()&types.IsInteger == 0 {
		return false
	}
	for i, e := range phi.Edges {
		if !loop[h.Preds[i]] {
			if k, ok := constInt(e); !ok || k != 0 {
				return false
			}
			continue
		}
		add, ok := e.(*ssa.BinOp)
		if !ok || add.Op != token.ADD || add.X != ssa.Value(phi) {
			return false
		}
		if k, ok := constInt(add.Y); !ok || k != 1 {
			return false
		}
	}
	iff, ok := h.Instrs[len(h.Instrs)-1].(*ssa.If)
	if !ok {
		return false
	}
	cmp, ok := iff.Cond.(*ssa.BinOp)
	if !ok || cmp.Op != token.LSS || cmp.X != ssa.Value(phi) || !loop[h.Succs[0]] || loop[h.Succs[1]] {
		return false
	}
	switch cmp.Y.(type) {
	case *ssa.BinOp, *ssa.Const:
		return false
	}
	return true
}
