package main

// FLOW engine (C12): no iteration order of a Go map, goroutine interleaving, clock / random / environment
// value or debug trace can reach a data sink.

import (
	"fmt"
	"go/token"
	"go/types"
	"sort"
	"strings"

	"golang.org/x/tools/go/ssa"
	"golang.org/x/tools/go/ssa/ssautil"
)

func init() {
	register("MAPORDER", "no value or effect whose order comes from ranging over a Go map reaches a data sink (yaml.Marshal, a write to the output, a MIDI writer call) unless it passes a sort or is rebuilt into a map/set; early exits from map ranges are order independent by a checked table invariant", 6, ruleMapOrder)
	register("CONC", "the only goroutine is the AST iterator's single producer; channel created before `go`, sends only inside the producer, close last, consumer drains sequentially; no select", 1, ruleConc)
	register("NONDET", "no clock, random, environment, pid, hostname or CPU-count value and no %p verb in repo code", 1, ruleNonDet)
	register("IOLAYER", "stdin/stdout/files are touched only by readFileOrStdin, getOutput, OpenAndParse (and the midi port listing); both input branches feed one callback", 6, ruleIOLayer)
	register("DEBUGOUT", "--debug must not change standard output: no parser trace level that prints to stdout is enabled", 1, ruleDebugOut)
}

// ---------------------------------------------------------------------------

// reviewedOrderIndependent: functions whose early exit from a map range is order independent, with the table rule that proves it.
var reviewedOrderIndependent = map[string]string{
	"note.Degree.simpleSemitone":      "TAB-DEGREE `unique`: at most one Major/Perfect and one Minor row per number, so at most one iteration can match a case",
	"note.Degree.Semitone":            "TAB-DEGREE `unique` (pre-split form of simpleSemitone)",
	"note.NewAccidental":              "TAB-NOTE `distinct`: all accidental spellings are pairwise distinct, so at most one entry matches",
	"op.KeyConversionChain.Convert":   "TAB-CIRCLE partition: every spelling of a member lies in the same slot, so each of them converts to the same next member; the first success is taken",
	"op.KeyConversionChain.Convert$1": "see op.KeyConversionChain.Convert",
}

// orderReviewed: the function (or, for an extracted helper or a loop-body closure, the single function it serves) is in
// reviewedOrderIndependent.
func (c *Ctx) orderReviewed(fn *ssa.Function) bool {
	if _, ok := reviewedOrderIndependent[fname(fn)]; ok {
		return true
	}
	_, ok := reviewedOrderIndependent[c.ownerName(fn)]
	return ok
}

type taintEngine struct {
	c            *Ctx
	fns          []*ssa.Function
	retTaint     map[*ssa.Function]string
	paramTaint   map[*ssa.Function]map[int]string
	cellTaint    map[ssa.Value]string // Alloc / FreeVar / Global / MakeSlice / MakeMap values holding order-dependent data
	emitsOrdered map[*ssa.Function]string
	orderedBody  map[*ssa.Function]string
	effect       map[*ssa.Function]int
	changed      bool
	findings     map[string]*flowFinding
	sources      map[string]string
	sinks        int
}

type flowFinding struct {
	key, pos, fn, msg string
	witness           []string
}

func (e *taintEngine) find(key, pos, fn, msg string, w ...string) {
	if _, ok := e.findings[key]; !ok {
		e.findings[key] = &flowFinding{key, pos, fn, msg, w}
	}
}

func (e *taintEngine) setRet(fn *ssa.Function, why string) {
	if _, ok := e.retTaint[fn]; !ok {
		e.retTaint[fn] = why
		e.changed = true
	}
}
func (e *taintEngine) setParam(fn *ssa.Function, i int, why string) {
	if e.paramTaint[fn] == nil {
		e.paramTaint[fn] = map[int]string{}
	}
	if _, ok := e.paramTaint[fn][i]; !ok {
		e.paramTaint[fn][i] = why
		e.changed = true
	}
}
func (e *taintEngine) setCell(v ssa.Value, why string) {
	if _, ok := e.cellTaint[v]; !ok {
		e.cellTaint[v] = why
		e.changed = true
	}
}

func addrRoot(v ssa.Value) ssa.Value {
	for i := 0; i < 20; i++ {
		switch x := v.(type) {
		case *ssa.FieldAddr:
			v = x.X
		case *ssa.IndexAddr:
			v = x.X
		case *ssa.Slice:
			v = x.X
		case *ssa.ChangeType:
			v = x.X
		default:
			return v
		}
	}
	return v
}

func isErrorish(t types.Type) bool {
	if isErrorType(t) {
		return true
	}
	if tup, ok := t.(*types.Tuple); ok {
		for i := 0; i < tup.Len(); i++ {
			if !isErrorType(tup.At(i).Type()) {
				return false
			}
		}
		return tup.Len() > 0
	}
	return false
}

var resultCleanCalls = map[string]bool{
	"slices.Sorted": true, "slices.SortedFunc": true, "slices.SortedStableFunc": true, "builtin.len": true, "builtin.cap": true,
	"util.NewSet": true, "maps.Collect": true, "builtin.min": true, "builtin.max": true,
}

var inPlaceSorts = map[string]bool{
	"sort.Strings": true, "sort.Ints": true, "sort.Slice": true, "sort.SliceStable": true, "sort.Sort": true, "sort.Stable": true,
	"slices.Sort": true, "slices.SortFunc": true, "slices.SortStableFunc": true,
}

var librarySources = map[string]bool{"maps.Keys": true, "maps.Values": true, "maps.All": true}

func diagnosticCallee(n string) bool {
	return strings.HasPrefix(n, "log/slog.") || strings.HasPrefix(n, "logx.") || strings.HasPrefix(n, "errorx.") ||
		n == "fmt.Errorf" || strings.HasPrefix(n, "errors.") || strings.HasPrefix(n, "log.")
}

// dataSinkArgs: indices of arguments that are written to a data sink by this call (nil = not a sink).
func dataSinkArgs(cc *ssa.CallCommon) ([]int, string) {
	n := calleeName(cc)
	all := func(from int) []int {
		var out []int
		for i := from; i < len(cc.Args); i++ {
			out = append(out, i)
		}
		return out
	}
	switch n {
	case "gopkg.in/yaml.v3.Marshal", "encoding/json.Marshal":
		return []int{0}, n
	case "fmt.Fprintf", "fmt.Fprint", "fmt.Fprintln":
		return all(1), n
	case "fmt.Printf", "fmt.Print", "fmt.Println":
		return all(0), n
	case "io.WriteString":
		return []int{1}, n
	}
	if cc.IsInvoke() {
		recv := typeName(cc.Value.Type())
		switch {
		case recv == "io.Writer" || recv == "io.WriteCloser" || recv == "io.StringWriter":
			return all(0), recv + "." + cc.Method.Name()
		case recv == "midix.Writer":
			return all(0), recv + "." + cc.Method.Name()
		}
	}
	if strings.HasPrefix(n, "midix.MIDIWriter.") {
		return all(1), n
	}
	// the usage text of a flag: `crd <command> --help` prints it on standard output
	if strings.HasPrefix(n, "github.com/spf13/pflag.FlagSet.") && len(cc.Args) >= 2 {
		if sig := cc.Signature(); sig != nil && sig.Params().Len() >= 1 {
			last := sig.Params().At(sig.Params().Len() - 1)
			if last.Name() == "usage" {
				return []int{len(cc.Args) - 1}, "flag-usage"
			}
		}
	}
	return nil, ""
}

// hasEffect: fn (transitively) changes state outside itself or performs output. 1 = pure, 2 = effectful.
func (e *taintEngine) hasEffect(fn *ssa.Function, depth int) bool {
	if v, ok := e.effect[fn]; ok {
		return v == 2
	}
	if depth > 12 {
		return true
	}
	e.effect[fn] = 1 // assume pure on recursion
	if !e.c.isRepoFunc(fn) {
		n := fname(fn)
		pure := strings.HasPrefix(n, "strings.") || strings.HasPrefix(n, "strconv.") || strings.HasPrefix(n, "fmt.Sprint") || n == "fmt.Errorf" ||
			strings.HasPrefix(n, "errors.") || strings.HasPrefix(n, "math.") || strings.HasPrefix(n, "unicode") || strings.HasPrefix(n, "slices.") ||
			strings.HasPrefix(n, "maps.") || strings.HasPrefix(n, "regexp.") || diagnosticCallee(n)
		if !pure {
			e.effect[fn] = 2
		}
		return !pure
	}
	eff := false
	allInstrs(fn, func(in ssa.Instruction) {
		switch x := in.(type) {
		case *ssa.Store:
			r := addrRoot(x.Addr)
			if a, ok := r.(*ssa.Alloc); !ok || a.Parent() != fn {
				if _, isFV := r.(*ssa.FreeVar); isFV {
					eff = true
				} else if !ok {
					// store through a parameter pointer or global
					eff = true
				}
			}
		case *ssa.MapUpdate:
			r := addrRoot(x.Map)
			if mm, ok := r.(*ssa.MakeMap); !ok || mm.Parent() != fn {
				eff = true
			}
		case *ssa.Send, *ssa.Go:
			eff = true
		case ssa.CallInstruction:
			cc := x.Common()
			if _, isB := cc.Value.(*ssa.Builtin); isB {
				return
			}
			if callee := staticCallee(cc); callee != nil {
				// a helper that only writes into what it is handed, handed something made here (`s.add(v)` on a fresh set)
				if idxs, only := e.paramOnlyEffects(unbound(callee)); only && len(idxs) > 0 {
					allLocal := true
					for _, i := range idxs {
						if i >= len(cc.Args) {
							allLocal = false
							break
						}
						switch y := addrRoot(cc.Args[i]).(type) {
						case *ssa.MakeMap:
							allLocal = allLocal && y.Parent() == fn
						case *ssa.Alloc:
							allLocal = allLocal && y.Parent() == fn
						default:
							allLocal = false
						}
					}
					if allLocal {
						return
					}
				}
				if e.hasEffect(unbound(callee), depth+1) {
					eff = true
				}
				return
			}
			if cc.IsInvoke() {
				recv := typeName(cc.Value.Type())
				if recv == "error" || strings.HasSuffix(cc.Method.Name(), "String") {
					return
				}
			}
			if diagnosticCallee(calleeName(cc)) {
				return
			}
			eff = true
		}
	})
	if eff {
		e.effect[fn] = 2
	}
	return eff
}

// paramOnlyEffects: the function's only side effects are writes into maps / through pointers it receives as parameters;
// the indices of those parameters.
func (e *taintEngine) paramOnlyEffects(fn *ssa.Function) ([]int, bool) {
	if !e.c.isRepoFunc(fn) || len(fn.Blocks) == 0 {
		return nil, false
	}
	idx := map[int]bool{}
	only := true
	paramIndex := func(v ssa.Value) int {
		for i, p := range fn.Params {
			if ssa.Value(p) == v {
				return i
			}
		}
		return -1
	}
	allInstrs(fn, func(in ssa.Instruction) {
		switch x := in.(type) {
		case *ssa.Store:
			r := addrRoot(x.Addr)
			if a, ok := r.(*ssa.Alloc); ok && a.Parent() == fn {
				return
			}
			if i := paramIndex(r); i >= 0 {
				idx[i] = true
				return
			}
			only = false
		case *ssa.MapUpdate:
			r := addrRoot(x.Map)
			if mm, ok := r.(*ssa.MakeMap); ok && mm.Parent() == fn {
				return
			}
			if i := paramIndex(r); i >= 0 {
				idx[i] = true
				return
			}
			only = false
		case *ssa.Send, *ssa.Go:
			only = false
		case ssa.CallInstruction:
			cc := x.Common()
			if _, isB := cc.Value.(*ssa.Builtin); isB {
				return
			}
			if callee := staticCallee(cc); callee != nil {
				if e.hasEffect(unbound(callee), 1) {
					only = false
				}
				return
			}
			if cc.IsInvoke() && (typeName(cc.Value.Type()) == "error" || strings.HasSuffix(cc.Method.Name(), "String")) {
				return
			}
			if diagnosticCallee(calleeName(cc)) {
				return
			}
			only = false
		}
	})
	var out []int
	for i := range idx {
		out = append(out, i)
	}
	sort.Ints(out)
	return out, only
}

// mapLoop describes one `for ... range m` over a map.
type mapLoop struct {
	rng    *ssa.Range
	header *ssa.BasicBlock
	blocks map[*ssa.BasicBlock]bool
}

func findMapLoops(fn *ssa.Function) []*mapLoop {
	var out []*mapLoop
	allInstrs(fn, func(in ssa.Instruction) {
		r, ok := in.(*ssa.Range)
		if !ok {
			return
		}
		if _, isMap := r.X.Type().Underlying().(*types.Map); !isMap {
			return
		}
		for _, ref := range *r.Referrers() {
			nx, ok := ref.(*ssa.Next)
			if !ok {
				continue
			}
			l := &mapLoop{rng: r, header: nx.Block(), blocks: naturalLoop(nx.Block())}
			if l.blocks == nil {
				l.blocks = map[*ssa.BasicBlock]bool{l.header: true}
			}
			out = append(out, l)
		}
	})
	return out
}

func (l *mapLoop) definedIn(v ssa.Value) bool {
	in, ok := v.(ssa.Instruction)
	return ok && in.Block() != nil && l.blocks[in.Block()]
}

// orderInsensitive: counters, integer sums and constant flags do not depend on iteration order.
func (l *mapLoop) orderInsensitive(v ssa.Value) bool {
	return l.orderInsensitive1(v, map[ssa.Value]bool{})
}

func (l *mapLoop) orderInsensitive1(v ssa.Value, seen map[ssa.Value]bool) bool {
	if seen[v] {
		return true
	}
	seen[v] = true
	switch x := v.(type) {
	case *ssa.Phi:
		for _, ed := range x.Edges {
			if _, isC := ed.(*ssa.Const); isC {
				continue
			}
			if !l.definedIn(ed) {
				continue
			}
			if !l.orderInsensitive1(ed, seen) {
				return false
			}
		}
		return true
	case *ssa.BinOp:
		if b, ok := x.Type().Underlying().(*types.Basic); ok && b.Info()&types.IsInteger != 0 {
			switch x.Op {
			case token.ADD, token.MUL, token.OR, token.AND, token.XOR:
				return true
			}
		}
	}
	return false
}

func (e *taintEngine) analyze(fn *ssa.Function) {
	c := e.c
	name := fname(fn)
	tainted := map[ssa.Value]string{}
	mark := func(v ssa.Value, why string) bool {
		if _, ok := tainted[v]; ok {
			return false
		}
		if isErrorish(v.Type()) {
			return false
		}
		tainted[v] = why
		return true
	}
	for i, why := range e.paramTaint[fn] {
		if i < len(fn.Params) {
			mark(fn.Params[i], why)
		}
	}
	// map loops of this function
	loops := findMapLoops(fn)
	for li, l := range loops {
		src := fmt.Sprintf("%s|range#%d", name, li+1)
		e.sources[src] = c.pos(l.rng.Pos())
		why := fmt.Sprintf("range over map at %s in %s", c.pos(l.rng.Pos()), name)
		for b := range l.blocks {
			for _, in := range b.Instrs {
				// live-out values
				if v, ok := in.(ssa.Value); ok && v.Referrers() != nil {
					for _, ref := range *v.Referrers() {
						if ref.Block() != nil && !l.blocks[ref.Block()] && !l.orderInsensitive(v) {
							if _, isNext := v.(*ssa.Next); isNext {
								continue
							}
							if ex, ok := v.(*ssa.Extract); ok && ex.Index == 0 {
								if _, isNext := ex.Tuple.(*ssa.Next); isNext {
									continue
								}
							}
							if mark(v, why+": value from the loop is used after it") {
								e.changed = true
							}
						}
					}
				}
				switch x := in.(type) {
				case *ssa.Store:
					if _, isC := x.Val.(*ssa.Const); isC || !l.definedIn(x.Val) {
						// constant / loop-invariant value: which iteration stores it does not matter, unless the slot varies
						if ia, ok := x.Addr.(*ssa.IndexAddr); !ok || !l.definedIn(ia.Index) {
							continue
						}
					}
					root := addrRoot(x.Addr)
					if l.definedIn(root) {
						continue // fresh per iteration
					}
					e.setCell(root, why+": order-carrying store")
				case *ssa.MapUpdate:
					root := addrRoot(x.Map)
					if l.definedIn(root) {
						continue
					}
					if !l.definedIn(x.Key) && l.definedIn(x.Value) {
						e.setCell(root, why+": map slot with a fixed key is overwritten per iteration (last one wins)")
					}
				case *ssa.Send:
					e.setCell(addrRoot(x.Chan), why+": channel send per iteration")
				case ssa.CallInstruction:
					cc := x.Common()
					switch cc.Value.(type) {
					case *ssa.Parameter, *ssa.FreeVar:
						if _, isFunc := cc.Value.Type().Underlying().(*types.Signature); isFunc && !cc.IsInvoke() {
							if _, ok := e.emitsOrdered[fn]; !ok {
								e.emitsOrdered[fn] = why + ": calls its callback once per map entry"
								e.changed = true
							}
							continue
						}
					}
					e.loopEffect(fn, x, why, l.definedIn)
				}
			}
		}
	}
	// ordered body closures (range-over-func of an order-tainted sequence)
	if why, ok := e.orderedBody[fn]; ok {
		allInstrs(fn, func(in ssa.Instruction) {
			switch x := in.(type) {
			case *ssa.Store:
				if _, isC := x.Val.(*ssa.Const); isC {
					return
				}
				root := addrRoot(x.Addr)
				if a, ok := root.(*ssa.Alloc); ok && a.Parent() == fn {
					return
				}
				if isErrorish(x.Val.Type()) {
					return
				}
				e.setCell(root, why+": the loop body stores a per-iteration value into an outer variable")
			case ssa.CallInstruction:
				e.loopEffect(fn, x, why, nil)
			}
		})
	}
	// value propagation to a fixpoint
	var at ssa.Instruction // the instruction whose operands are being judged (for sort kills)
	isTainted := func(v ssa.Value) (string, bool) {
		if at != nil && c.sortedBefore(v, at) {
			return "", false
		}
		if w, ok := tainted[v]; ok {
			return w, true
		}
		if w, ok := e.cellTaint[v]; ok {
			return w, true
		}
		return "", false
	}
	for round := 0; round < 50; round++ {
		progress := false
		allInstrs(fn, func(in ssa.Instruction) {
			at = in
			switch x := in.(type) {
			case *ssa.Phi:
				for _, ed := range x.Edges {
					if w, ok := isTainted(ed); ok && mark(x, w) {
						progress = true
					}
				}
			case *ssa.UnOp:
				if w, ok := isTainted(x.X); ok && mark(x, w) {
					progress = true
				}
				if x.Op == token.MUL {
					if w, ok := isTainted(addrRoot(x.X)); ok && mark(x, w) {
						progress = true
					}
				}
			case *ssa.FieldAddr:
				if w, ok := isTainted(x.X); ok && mark(x, w) {
					progress = true
				}
			case *ssa.Field:
				if w, ok := isTainted(x.X); ok && mark(x, w) {
					progress = true
				}
			case *ssa.IndexAddr:
				if w, ok := isTainted(x.X); ok && mark(x, w) {
					progress = true
				}
			case *ssa.Index:
				if w, ok := isTainted(x.X); ok && mark(x, w) {
					progress = true
				}
			case *ssa.Lookup:
				// lookup in a map is not order dependent
			case *ssa.Slice:
				if w, ok := isTainted(x.X); ok && mark(x, w) {
					progress = true
				}
				if w, ok := isTainted(addrRoot(x.X)); ok && mark(x, w) {
					progress = true
				}
			case *ssa.Convert:
				if w, ok := isTainted(x.X); ok && mark(x, w) {
					progress = true
				}
			case *ssa.ChangeType:
				if w, ok := isTainted(x.X); ok && mark(x, w) {
					progress = true
				}
			case *ssa.ChangeInterface:
				if w, ok := isTainted(x.X); ok && mark(x, w) {
					progress = true
				}
			case *ssa.MakeInterface:
				if w, ok := isTainted(x.X); ok && mark(x, w) {
					progress = true
				}
			case *ssa.TypeAssert:
				if w, ok := isTainted(x.X); ok && mark(x, w) {
					progress = true
				}
			case *ssa.Extract:
				if w, ok := isTainted(x.Tuple); ok && mark(x, w) {
					progress = true
				}
			case *ssa.BinOp:
				if b, ok := x.Type().Underlying().(*types.Basic); ok && b.Info()&types.IsString != 0 {
					for _, o := range []ssa.Value{x.X, x.Y} {
						if w, ok := isTainted(o); ok && mark(x, w) {
							progress = true
						}
					}
				}
			case *ssa.Next:
				// iterating a tainted slice/string is handled through Index; iterating a map is a source (above)
			case *ssa.Store:
				if w, ok := isTainted(x.Val); ok {
					root := addrRoot(x.Addr)
					if _, already := e.cellTaint[root]; !already {
						e.setCell(root, w)
						progress = true
					}
				}
			case *ssa.MakeClosure:
				cf := x.Fn.(*ssa.Function)
				if w, ok := e.emitsOrdered[cf]; ok && mark(x, w) {
					progress = true
				}
				// link captured cells both ways
				for i, b := range x.Bindings {
					if i >= len(cf.FreeVars) {
						continue
					}
					fv := cf.FreeVars[i]
					if w, ok := e.cellTaint[fv]; ok {
						root := addrRoot(b)
						if _, already := e.cellTaint[root]; !already {
							e.setCell(root, w)
							progress = true
						}
					}
					if w, ok := isTainted(addrRoot(b)); ok {
						if _, already := e.cellTaint[fv]; !already {
							e.setCell(fv, w)
						}
					}
				}
			case *ssa.Return:
				for _, r := range x.Results {
					if w, ok := isTainted(r); ok && !isErrorish(r.Type()) {
						if c.sortedBefore(r, x) {
							continue
						}
						if e.c.orderReviewed(fn) {
							continue
						}
						e.setRet(fn, w+" -> returned by "+name)
					}
				}
			case ssa.CallInstruction:
				cc := x.Common()
				cn := calleeName(cc)
				// sinks
				if idxs, sink := dataSinkArgs(cc); idxs != nil && !strings.HasPrefix(name, "logx.") {
					e.sinks++
					for _, i := range idxs {
						if i >= len(cc.Args) {
							continue
						}
						if w, ok := isTainted(cc.Args[i]); ok && !c.sortedBefore(cc.Args[i], x) {
							e.find(name+"|"+sink, c.pos(x.Pos()), name, "a value whose order comes from iterating a Go map reaches the data sink "+sink+": the bytes printed differ from run to run", w+" -> "+sink+" in "+name)
						}
					}
				}
				// results
				val, isVal := in.(ssa.Value)
				anyArg := ""
				for _, a := range cc.Args {
					if w, ok := isTainted(a); ok {
						anyArg = w
					}
				}
				if cc.IsInvoke() {
					if w, ok := isTainted(cc.Value); ok {
						anyArg = w
					}
				}
				if librarySources[cn] {
					if isVal && mark(val, fmt.Sprintf("%s at %s in %s", cn, c.pos(x.Pos()), name)) {
						progress = true
					}
					e.sources[name+"|"+cn] = c.pos(x.Pos())
					return
				}
				if resultCleanCalls[cn] {
					return
				}
				// call of a tainted function value with a closure argument: range-over-func of an ordered sequence
				if _, isFn := cc.Value.Type().Underlying().(*types.Signature); isFn && !cc.IsInvoke() && staticCallee(cc) == nil {
					if w, ok := isTainted(cc.Value); ok {
						for _, a := range cc.Args {
							if mc, ok := a.(*ssa.MakeClosure); ok {
								bf := mc.Fn.(*ssa.Function)
								if _, already := e.orderedBody[bf]; !already {
									e.orderedBody[bf] = w + " -> ranged over in " + name
									e.changed = true
								}
							}
						}
					}
				}
				var callees []*ssa.Function
				if f := staticCallee(cc); f != nil {
					callees = []*ssa.Function{unbound(f)}
				} else if cc.IsInvoke() {
					callees = c.invokeTargets(x)
				}
				for _, g := range callees {
					if !c.isRepoFunc(g) {
						continue
					}
					off := 0
					if cc.IsInvoke() || (g.Signature.Recv() != nil && staticCallee(cc) != nil && strings.HasSuffix(staticCallee(cc).Name(), "$bound")) {
						off = 1
					}
					if cc.IsInvoke() {
						if w, ok := isTainted(cc.Value); ok {
							e.setParam(g, 0, w)
						}
					}
					for i, a := range cc.Args {
						if w, ok := isTainted(a); ok {
							e.setParam(g, i+off, w)
						}
					}
					if w, ok := e.retTaint[g]; ok && isVal && mark(val, w) {
						progress = true
					}
				}
				if isVal && anyArg != "" && !diagnosticCallee(cn) {
					libOnly := true
					for _, g := range callees {
						if c.isRepoFunc(g) {
							libOnly = false
						}
					}
					if libOnly && mark(val, anyArg+" -> "+cn) {
						progress = true
					}
				}
			}
		})
		if !progress {
			break
		}
	}
}

// loopEffect judges a call made once per entry of an order-carrying loop.
func (e *taintEngine) loopEffect(fn *ssa.Function, x ssa.CallInstruction, why string, fresh func(ssa.Value) bool) {
	c := e.c
	cc := x.Common()
	cn := calleeName(cc)
	name := fname(fn)
	if _, isB := cc.Value.(*ssa.Builtin); isB {
		return
	}
	if diagnosticCallee(cn) {
		return
	}
	if _, sink := dataSinkArgs(cc); sink != "" {
		e.find(name+"|"+sink+"|in-loop", c.pos(x.Pos()), name, "output is produced once per entry of a Go map (or of a sequence in map order): the lines come out in a different order from run to run", why+" -> "+sink)
		return
	}
	var callees []*ssa.Function
	if f := staticCallee(cc); f != nil {
		callees = []*ssa.Function{unbound(f)}
	} else if cc.IsInvoke() {
		callees = c.invokeTargets(x)
		if len(callees) == 0 {
			if strings.HasSuffix(cc.Method.Name(), "String") || typeName(cc.Value.Type()) == "error" {
				return
			}
		}
	}
	if len(callees) == 0 {
		if c.orderReviewed(fn) {
			return
		}
		e.find(name+"|effect|"+cn, c.pos(x.Pos()), name, "a call whose target is unknown is made once per entry of a Go map: its effects happen in map order", why)
		return
	}
	for _, g := range callees {
		if e.hasEffect(g, 0) {
			if c.orderReviewed(fn) {
				continue
			}
			// a helper that only writes into what it is handed (`seen.add(name)`), handed something made in this very
			// iteration: nothing outlives the iteration, so the order of iterations does not show
			if ps, only := e.paramOnlyEffects(g); only && fresh != nil && staticCallee(cc) != nil && !strings.HasSuffix(staticCallee(cc).Name(), "$bound") {
				confined := true
				var cells []ssa.Value
				for _, p := range ps {
					if p >= len(cc.Args) {
						confined = false
						continue
					}
					root := addrRoot(cc.Args[p])
					if fresh(root) {
						continue
					}
					// a local of this function filled through the helper (`errs.invalid(...)` for `errs = append(errs, ...)`):
					// the same as storing into it here - the local carries the order from now on, which is judged where it is used
					if al, ok := root.(*ssa.Alloc); ok && al.Parent() == fn {
						cells = append(cells, root)
						continue
					}
					confined = false
				}
				if confined {
					for _, cell := range cells {
						e.setCell(cell, why+": filled through "+fname(g)+" once per entry")
					}
					continue
				}
			}
			e.find(name+"|effect|"+fname(g), c.pos(x.Pos()), name, fmt.Sprintf("%s has side effects and is called once per entry of a Go map: the effects happen in a different order from run to run", fname(g)), why)
		}
	}
}

// sortedBefore: an in-place sort of the same value (or of the same variable, when the value is a load of a
// local / captured variable) dominates the use, so the order the value had before no longer matters.
func (c *Ctx) sortedBefore(v ssa.Value, use ssa.Instruction) bool {
	isSortOf := func(ref ssa.Instruction, arg ssa.Value) bool {
		ci, ok := ref.(ssa.CallInstruction)
		if !ok {
			return false
		}
		a := ci.Common().Args
		return inPlaceSorts[calleeName(ci.Common())] && len(a) > 0 && a[0] == arg && dominatesInstr(ci, use)
	}
	if v.Referrers() != nil {
		for _, ref := range *v.Referrers() {
			if isSortOf(ref, v) {
				return true
			}
		}
	}
	// v = *cell: another load of the same cell was sorted in place before this use, and nothing writes the cell in between
	ld, ok := v.(*ssa.UnOp)
	if !ok || ld.Op != token.MUL {
		return false
	}
	cell := ld.X
	if cell.Referrers() == nil {
		return false
	}
	var sortCall ssa.Instruction
	for _, ref := range *cell.Referrers() {
		l2, ok := ref.(*ssa.UnOp)
		if !ok || l2.Op != token.MUL || l2.Referrers() == nil {
			continue
		}
		for _, r2 := range *l2.Referrers() {
			if isSortOf(r2, l2) && dominatesInstr(r2, ld) {
				sortCall = r2
			}
		}
	}
	if sortCall == nil {
		return false
	}
	// every writer of the cell (direct store, or a call that receives a closure capturing it) comes before the sort
	for _, ref := range *cell.Referrers() {
		switch x := ref.(type) {
		case *ssa.Store:
			if x.Addr == cell && !dominatesInstr(x, sortCall) {
				return false
			}
		case *ssa.MakeClosure:
			if x.Referrers() != nil {
				for _, user := range *x.Referrers() {
					if !dominatesInstr(user, sortCall) {
						return false
					}
				}
			}
		}
	}
	return true
}

// invokeTargets resolves an interface call through the VTA call graph.
func (c *Ctx) invokeTargets(site ssa.CallInstruction) []*ssa.Function {
	cg := c.callGraph()
	node := cg.Nodes[site.Parent()]
	if node == nil {
		return nil
	}
	var out []*ssa.Function
	for _, ed := range node.Out {
		if ed.Site == site && ed.Callee.Func != nil {
			out = append(out, ed.Callee.Func)
		}
	}
	sort.Slice(out, func(i, j int) bool { return fname(out[i]) < fname(out[j]) })
	return out
}

func (c *Ctx) runTaint(fns []*ssa.Function) *taintEngine {
	e := &taintEngine{c: c, fns: fns, retTaint: map[*ssa.Function]string{}, paramTaint: map[*ssa.Function]map[int]string{},
		cellTaint: map[ssa.Value]string{}, emitsOrdered: map[*ssa.Function]string{}, orderedBody: map[*ssa.Function]string{},
		effect: map[*ssa.Function]int{}, findings: map[string]*flowFinding{}, sources: map[string]string{}}
	for round := 0; round < 20; round++ {
		e.changed = false
		e.sinks = 0
		for _, fn := range fns {
			e.analyze(fn)
		}
		if !e.changed {
			break
		}
	}
	return e
}

const mapOrderControl = `package control
func keys(m map[string]int) []string {
	var out []string
	for k := range m {
		out = append(out, k)
	}
	return out
}
func count(m map[string]int) int {
	n := 0
	for range m {
		n++
	}
	return n
}
func invert(m map[string]int) map[int]string {
	out := map[int]string{}
	for k, v := range m {
		out[v] = k
	}
	return out
}`

func ruleMapOrder(c *Ctx) {
	fns := c.srcFuncs()
	e := c.runTaint(fns)
	c.site(len(e.sources))
	for _, k := range sortedKeys(e.sources) {
		c.ok("source|"+k, e.sources[k], "", "map-order source analysed")
	}
	var fks []string
	for k := range e.findings {
		fks = append(fks, k)
	}
	sort.Strings(fks)
	for _, k := range fks {
		f := e.findings[k]
		c.bad(f.key, f.pos, f.fn, f.msg, f.witness...)
	}
	// reviewed early exits: still present?
	var tainted []string
	for fn, w := range e.retTaint {
		tainted = append(tainted, fname(fn)+": "+w)
	}
	sort.Strings(tainted)
	c.ok("summary", "", "", fmt.Sprintf("%d functions analysed, %d map-order sources, %d sink sites checked, %d functions return map-ordered data (none reaches a data sink unsorted): %s", len(fns), len(e.sources), e.sinks, len(tainted), strings.Join(tainted, " ; ")))
	// a sort that answers a sorted copy undoes nothing when the copy is thrown away
	for _, fn := range fns {
		for _, ci := range callsIn(fn) {
			cn := calleeName(ci.Common())
			if cn != "slices.Sorted" && cn != "slices.SortedFunc" && cn != "slices.SortedStableFunc" {
				continue
			}
			c.site(1)
			v := ci.Value()
			used := v != nil && v.Referrers() != nil && len(*v.Referrers()) > 0
			c.check(used, c.ownerName(fn)+"|sorted-copy-used|"+cn, c.pos(ci.Pos()), fname(fn), "the sorted copy is what is used afterwards", fmt.Sprintf("%s: the result of %s is thrown away: it answers a sorted copy and leaves its argument as it was, so what is used afterwards is still in the order the map handed out", fname(fn), cn))
		}
	}
	// a sort only undoes map order when its comparator tells all elements apart: elements that compare equal keep
	// whatever relative order the map handed them in (the library sorts used here are not stable)
	for _, fn := range fns {
		for _, ci := range callsIn(fn) {
			cn := calleeName(ci.Common())
			if !(resultCleanCalls[cn] || inPlaceSorts[cn]) || !strings.Contains(cn, "Func") && cn != "sort.Slice" && cn != "sort.SliceStable" {
				continue
			}
			args := ci.Common().Args
			cmpf := unthunk(unbound(funcOfValue(args[len(args)-1])))
			if cmpf == nil || !c.isRepoFunc(cmpf) || len(cmpf.Params) != 2 {
				continue
			}
			if cn == "sort.Slice" || cn == "sort.SliceStable" {
				continue // index-based less: the elements are not parameters; left to the taint analysis
			}
			c.site(1)
			key := c.ownerName(fn) + "|total-order|" + cn
			problem := c.comparatorTotal(cmpf)
			c.check(problem == "", key, c.pos(ci.Pos()), fname(fn), "the comparator tells any two elements apart", fmt.Sprintf("%s: the comparator handed to %s %s: elements that compare equal stay in the (map) order they arrived in, so the sorted result still differs from run to run", fname(fn), cn, problem))
		}
	}
	// colliding writes: while ranging over a map, writing into another map under a key that is not the range key can hit
	// the same key twice, and then the last writer (i.e. the iteration order) decides what the table holds
	for _, fn := range fns {
		allInstrs(fn, func(in ssa.Instruction) {
			mu, ok := in.(*ssa.MapUpdate)
			if !ok {
				return
			}
			// the innermost enclosing loop that is driven by a map iterator
			var nx *ssa.Next
			var loop map[*ssa.BasicBlock]bool
			for _, h := range fn.Blocks {
				lp := naturalLoop(h)
				if lp == nil || !lp[mu.Block()] {
					continue
				}
				for _, hi := range h.Instrs {
					if n, ok := hi.(*ssa.Next); ok && !n.IsString {
						if loop == nil || len(lp) < len(loop) {
							nx, loop = n, lp
						}
					}
				}
			}
			if nx == nil {
				return
			}
			// a map made afresh in every iteration has no earlier writer
			if mk, ok := mu.Map.(*ssa.MakeMap); ok && loop[mk.Block()] {
				return
			}
			if rng, ok := nx.Iter.(*ssa.Range); ok && rng.X == mu.Map {
				return
			}
			c.site(1)
			key := fname(fn) + "|map-write-in-map-range"
			isRangeKey := false
			if ex, ok := mu.Key.(*ssa.Extract); ok && ex.Tuple == ssa.Value(nx) && ex.Index == 1 {
				isRangeKey = true
			}
			fromKey := dataDependsOn(mu.Key, func(v ssa.Value) bool {
				ex, ok := v.(*ssa.Extract)
				return ok && ex.Tuple == ssa.Value(nx) && ex.Index == 1
			})
			fromValue := dataDependsOn(mu.Key, func(v ssa.Value) bool {
				ex, ok := v.(*ssa.Extract)
				return ok && ex.Tuple == ssa.Value(nx) && ex.Index == 2
			})
			switch {
			case isRangeKey:
				c.ok(key, c.pos(mu.Pos()), fname(fn), "written under the range key itself: no two iterations write the same key")
			case fromKey && !fromValue:
				c.ok(key, c.pos(mu.Pos()), fname(fn), "written under a key computed from the range key alone (a re-keying of the table; taken to be one-to-one)")
			case reviewedMapWrites[fname(fn)] != "":
				c.ok(key, c.pos(mu.Pos()), fname(fn), "reviewed: "+reviewedMapWrites[fname(fn)])
			default:
				c.bad(key, c.pos(mu.Pos()), fname(fn), "inside a range over a map, another map is written under a key that is not the range key: when two entries yield the same key the one visited last wins, so the table (and everything looked up in it) differs from run to run")
			}
		})
	}
	// util.NewSet is a sanitiser: its only loop stores by element into a map
	if ns := c.fn("util", "NewSet"); ns != nil {
		ok := true
		n := 0
		var scan func(f *ssa.Function, depth int)
		scan = func(f *ssa.Function, depth int) {
			allInstrs(f, func(in ssa.Instruction) {
				switch x := in.(type) {
				case *ssa.MapUpdate:
					n++
				case *ssa.Store:
					// (a value receiver spilled into a local is not an effect)
					if a, isLocal := x.Addr.(*ssa.Alloc); !isLocal || a.Heap {
						ok = false
					}
				case *ssa.Send:
					ok = false
				case ssa.CallInstruction:
					// an unexported helper of the package that does the storing (`s.add(v)`)
					if callee := staticCallee(x.Common()); callee != nil && c.isRepoFunc(callee) && depth < 2 && !isExportedFn(callee) && pkgOfFunc(callee) == pkgOfFunc(ns) {
						scan(callee, depth+1)
					}
				}
			})
		}
		scan(ns, 0)
		c.check(ok && n == 1, "util.NewSet|sanitiser", c.pos(ns.Pos()), fname(ns), "NewSet only stores elements as map keys: the result does not depend on argument order", "util.NewSet is treated as erasing order but no longer just stores its elements as map keys")
	} else {
		c.missing("util.NewSet")
	}
	// positive control
	ctl, err := buildControl(mapOrderControl)
	okCtl := false
	if err == nil {
		var cf []*ssa.Function
		for _, m := range ctl.Members {
			if f, ok := m.(*ssa.Function); ok {
				cf = append(cf, f)
			}
		}
		ce := c.runTaint(cf)
		got := map[string]bool{}
		for fn := range ce.retTaint {
			got[fn.Name()] = true
		}
		okCtl = got["keys"] && !got["count"] && !got["invert"]
	}
	c.check(okCtl, "control", "", "", "positive control: append in a map range is tainted, counting and inverting are not", fmt.Sprintf("positive control failed (err=%v): the taint engine is broken", err))
}

// ---------------------------------------------------------------------------
// CONC

func ruleConc(c *Ctx) {
	var gos []*ssa.Go
	var selects []ssa.Instruction
	var sends []*ssa.Send
	var makeChans []*ssa.MakeChan
	for _, fn := range c.srcFuncs() {
		allInstrs(fn, func(in ssa.Instruction) {
			switch x := in.(type) {
			case *ssa.Go:
				gos = append(gos, x)
			case *ssa.Select:
				selects = append(selects, x)
			case *ssa.Send:
				sends = append(sends, x)
			case *ssa.MakeChan:
				makeChans = append(makeChans, x)
			}
		})
	}
	for _, s := range selects {
		c.bad("select|"+fname(s.Parent()), c.pos(s.Pos()), fname(s.Parent()), "select statement: the case chosen depends on scheduling; not reviewed")
	}
	for _, g := range gos {
		c.site(1)
		host := fname(g.Parent())
		if host != "input/ast.IterVisitor.All" {
			c.bad("go|"+host, c.pos(g.Pos()), host, "goroutine outside the reviewed AST iterator: its interleaving with the rest of the program is unreviewed")
			continue
		}
		body := funcOfValue(g.Call.Value)
		if body == nil {
			c.undec("go|"+host, c.pos(g.Pos()), host, "goroutine body unknown")
			continue
		}
		// channel created before go
		var mk *ssa.MakeChan
		for _, m := range makeChans {
			if m.Parent() == g.Parent() {
				mk = m
			}
		}
		good := mk != nil && dominatesInstr(mk, g)
		c.check(good, "go|"+host+"|chan-before-go", c.pos(g.Pos()), host, "channel created before the producer starts", "the channel is not created before `go`: producer and consumer may see different channels")
		// body: traversal then close, close last
		var closeCall, walk ssa.CallInstruction
		for _, ci := range callsIn(body) {
			n := calleeName(ci.Common())
			if n == "builtin.close" {
				closeCall = ci
			}
			if n == "input/ast.VisitSwitch" {
				walk = ci
			}
		}
		good = closeCall != nil && walk != nil && dominatesInstr(walk, closeCall) && c.postDominators(body).postDominates(closeCall.Block(), body.Blocks[0])
		c.check(good, "go|"+host+"|close-last", c.pos(g.Pos()), host, "producer = one traversal, then close on every path", "the producer does not close the channel after the traversal on every path: the consumer blocks for ever or misses nodes")
		// consumer: the returned closure only receives (range over the channel), sequentially
		nrecv := 0
		for _, cf := range g.Parent().AnonFuncs {
			if cf == body {
				continue
			}
			allInstrs(cf, func(in ssa.Instruction) {
				if u, ok := in.(*ssa.UnOp); ok && u.Op == token.ARROW {
					nrecv++
				}
				if _, ok := in.(*ssa.Go); ok {
					nrecv = -100
				}
			})
		}
		c.check(nrecv >= 1, "go|"+host+"|consumer", c.pos(g.Pos()), host, "single sequential consumer", "the consumer side no longer receives sequentially from the channel")
	}
	// sends only in IterVisitor.send, called only by IterVisitor's Visit methods
	for _, s := range sends {
		host := fname(s.Parent())
		c.check(host == "input/ast.IterVisitor.send", "send|"+host, c.pos(s.Pos()), host, "send inside the producer's helper", "channel send outside the reviewed producer: a second sender makes the order of received nodes depend on scheduling")
	}
	if sf := c.fn("input/ast", "IterVisitor.send"); sf != nil {
		cg := c.callGraph()
		bad := []string{}
		if n := cg.Nodes[sf]; n != nil {
			for _, in := range n.In {
				cn := fname(in.Caller.Func)
				if !strings.HasPrefix(cn, "input/ast.IterVisitor.Visit") {
					bad = append(bad, cn)
				}
			}
		}
		c.check(len(bad) == 0, "send|callers", c.pos(sf.Pos()), fname(sf), "send is only called by the visitor's Visit methods (which run inside the producer)", fmt.Sprintf("send is also called from %v", bad))
	}
	if len(gos) == 0 {
		c.ok("go|none", "", "", "no goroutines at all")
		c.site(1)
	}
}

// ---------------------------------------------------------------------------
// NONDET

var nondetCallees = []string{"time.Now", "time.Since", "time.Until", "time.After", "time.Tick", "time.NewTimer", "time.NewTicker", "math/rand.", "math/rand/v2.", "crypto/rand.",
	"os.Getenv", "os.LookupEnv", "os.Environ", "os.Getpid", "os.Getppid", "os.Hostname", "os.Getwd", "os.UserHomeDir", "os.TempDir", "os.CreateTemp", "os.MkdirTemp",
	"runtime.NumCPU", "runtime.GOMAXPROCS", "runtime.NumGoroutine", "runtime.Caller", "runtime.Stack"}

func nondetScan(c *Ctx, fns []*ssa.Function, hit func(fn *ssa.Function, in ssa.Instruction, what string)) {
	for _, fn := range fns {
		allInstrs(fn, func(in ssa.Instruction) {
			ci, ok := in.(ssa.CallInstruction)
			if !ok {
				return
			}
			n := calleeName(ci.Common())
			for _, p := range nondetCallees {
				if n == p || (strings.HasSuffix(p, ".") && strings.HasPrefix(n, p)) {
					hit(fn, in, n)
				}
			}
			// %p verbs in constant format strings
			for _, a := range ci.Common().Args {
				if s, ok := constString(a); ok && strings.Contains(s, "%p") {
					hit(fn, in, "format verb %p")
				}
			}
		})
	}
}

func ruleNonDet(c *Ctx) {
	n := 0
	nondetScan(c, c.srcFuncs(), func(fn *ssa.Function, in ssa.Instruction, what string) {
		n++
		c.bad(fname(fn)+"|"+what, c.pos(in.Pos()), fname(fn), "use of "+what+": a value that differs between runs, machines or environments enters the program")
	})
	if n == 0 {
		c.ok("none", "", "", fmt.Sprintf("no clock/random/environment source in %d repo functions", len(c.srcFuncs())))
	}
	// positive control: the same scanner finds time.Now inside log/slog
	hits := 0
	{
		var fns []*ssa.Function
		for f := range ssautil.AllFunctions(c.Prog) {
			if f.Pkg != nil && f.Pkg.Pkg.Path() == "log/slog" && len(f.Blocks) > 0 {
				fns = append(fns, f)
			}
		}
		nondetScan(c, fns, func(*ssa.Function, ssa.Instruction, string) { hits++ })
	}
	c.site(1)
	c.check(hits > 0, "control", "", "", fmt.Sprintf("positive control: scanner finds %d clock reads in log/slog", hits), "positive control failed: scanner finds no time.Now in log/slog")
}

// ---------------------------------------------------------------------------
// IOLAYER

// checkInputKindBlind: what a command reads does not depend on what kind of file its input is: no function of the
// repository asks an input for its size or position (Stat, Seek, ReadAt) or asserts a reader to be seekable / an *os.File.
// A regular file, a pipe, a named pipe and a here-document all answer Read alike; they differ in exactly those calls (a
// pipe has size 0 and cannot seek; a regular file inherited as standard input may stand at an offset).
func (c *Ctx) checkInputKindBlind() {
	n := 0
	for _, fn := range c.srcFuncs() {
		name := fname(fn)
		allInstrs(fn, func(in ssa.Instruction) {
			switch x := in.(type) {
			case ssa.CallInstruction:
				cc := x.Common()
				m := ""
				if cc.IsInvoke() {
					m = cc.Method.Name()
				} else if callee := staticCallee(cc); callee != nil && callee.Signature.Recv() != nil {
					if rt := typeName(callee.Signature.Recv().Type()); rt == "os.File" || strings.HasPrefix(rt, "io.") || strings.HasPrefix(rt, "bufio.") || strings.HasPrefix(rt, "bytes.Reader") || strings.HasPrefix(rt, "strings.Reader") {
						m = callee.Name()
					}
				}
				n++
				switch m {
				case "Seek", "Stat", "ReadAt", "Size":
					recv := ""
					if cc.IsInvoke() {
						recv = typeName(cc.Value.Type())
					} else if len(cc.Args) > 0 {
						recv = typeName(cc.Args[0].Type())
					}
					if recv == "os.File" || strings.HasPrefix(recv, "io.") {
						c.site(1)
						c.bad(name+"|"+m, c.pos(x.Pos()), name, fmt.Sprintf("%s is called on an input (%s): how much is read, or from where, then depends on whether the input is a regular file, a pipe or an inherited descriptor standing at an offset, so `crd x FILE`, `crd x < FILE` and `cat FILE | crd x` can differ", m, recv))
					}
				}
			case *ssa.TypeAssert:
				at := typeName(x.AssertedType)
				if at == "io.Seeker" || at == "io.ReadSeeker" || at == "io.ReaderAt" || at == "os.File" || at == "io.ReadSeekCloser" {
					c.site(1)
					c.bad(name+"|assert|"+at, c.pos(x.Pos()), name, fmt.Sprintf("an input is asserted to be %s: the command then treats a regular file differently from a pipe", at))
				}
			}
		})
	}
	c.site(1)
	c.ok("input-kind|summary", "", "", fmt.Sprintf("%d calls examined: no input is asked for its size or position, none is asserted to be seekable or a file", n))
}

// inputSelector: the one function of the command package that opens the FILE argument or takes standard input:
// readFileOrStdin, or - when that was merged into its only caller - readFileOrStdinFromArgs.
func (c *Ctx) inputSelector() *ssa.Function {
	if fn := c.fn("cmd", "readFileOrStdin"); fn != nil {
		return fn
	}
	if fn := c.fn("cmd", "readFileOrStdinFromArgs"); fn != nil {
		for _, ci := range callsIn(fn) {
			if calleeName(ci.Common()) == "os.Open" {
				return fn
			}
		}
	}
	return nil
}

func ruleIOLayer(c *Ctx) {
	c.checkNoSingleRead()
	c.checkInputKindBlind()
	selector := "cmd.readFileOrStdin"
	if fn := c.inputSelector(); fn != nil {
		selector = fname(fn)
	}
	allowed := map[string]map[string]string{
		"os.Stdin":    {selector: "the one place that selects stdin"},
		"os.Stdout":   {"cmd.getOutput": "the one place that selects stdout"},
		"os.Stderr":   {"cmd.rootCmd.PersistentPreRun": "logger set-up"},
		"os.Open":     {selector: "FILE argument", "util.OpenAndParse": "dictionary files"},
		"os.Create":   {"cmd.getOutput": "-o file"},
		"fmt.Print":   {"cmd.midiCmdPortIn.RunE": "midi port listing (not a data command)", "cmd.midiCmdPortOut.RunE": "midi port listing (not a data command)", "input/ast.": "generated parser trace (judged by DEBUGOUT)"},
		"os.ReadFile": {}, "os.WriteFile": {}, "os.OpenFile": {}, "cobra.Out": {},
	}
	isAllowed := func(what, fn string) (string, bool) {
		for pfx, why := range allowed[what] {
			if fn == pfx || (strings.HasSuffix(pfx, "$") && strings.HasPrefix(fn, pfx)) || (strings.HasSuffix(pfx, ".") && strings.HasPrefix(fn, pfx)) {
				return why, true
			}
		}
		return "", false
	}
	// the file that declares the midi utility's commands
	midiFile := ""
	if p := c.ssapkg("cmd"); p != nil {
		if g, ok := p.Members["midiCmdPort"].(*ssa.Global); ok {
			midiFile = c.Fset.Position(g.Pos()).Filename
		}
	}
	for _, fn := range c.srcFuncs() {
		name := fname(fn)
		allInstrs(fn, func(in ssa.Instruction) {
			var what string
			if u, ok := in.(*ssa.UnOp); ok && u.Op == token.MUL {
				if g, ok := u.X.(*ssa.Global); ok && g.Pkg != nil && g.Pkg.Pkg.Path() == "os" {
					switch g.Name() {
					case "Stdin", "Stdout", "Stderr":
						what = "os." + g.Name()
					}
				}
			}
			if ci, ok := in.(ssa.CallInstruction); ok {
				switch n := calleeName(ci.Common()); n {
				case "os.Open", "os.Create", "os.ReadFile", "os.WriteFile", "os.OpenFile":
					what = n
				case "fmt.Print", "fmt.Println", "fmt.Printf":
					what = "fmt.Print"
				case "github.com/spf13/cobra.Command.OutOrStdout", "github.com/spf13/cobra.Command.Print", "github.com/spf13/cobra.Command.Println", "github.com/spf13/cobra.Command.Printf":
					// cobra's own stdout: bypasses -o just like os.Stdout does
					what = "cobra.Out"
				}
			}
			if what == "" {
				return
			}
			c.site(1)
			key := name + "|" + what
			if u, ok := in.(*ssa.UnOp); ok && what == "os.Stderr" && onlyFeedsLoggerSetup(u) {
				// wherever the logger is configured: stderr as the log destination is not a data path
				c.ok(key, c.pos(in.Pos()), name, "allowed: destination of the logger (logx.Setup)")
				return
			}
			if u, ok := in.(*ssa.UnOp); ok && what == "os.Stdin" && !onlyHandedOn(u) {
				c.bad(key, c.pos(in.Pos()), name, "standard input is inspected (a method is called on os.Stdin) instead of simply being read: what a command accepts then depends on whether stdin is a pipe, a file or a terminal, so `crd x < FILE`, `cat FILE | crd x` and `crd x FILE` can differ")
				return
			}
			if why, ok := isAllowed(what, name); ok {
				c.ok(key, c.pos(in.Pos()), name, "allowed: "+why)
			} else if what == "fmt.Print" && midiFile != "" && c.Fset.Position(fn.Pos()).Filename == midiFile {
				// a helper of the midi utility, next to it in its file: the port listing is not a data command
				c.ok(key, c.pos(in.Pos()), name, "allowed: declared in the midi utility's file (port listing, not a data command)")
			} else {
				c.bad(key, c.pos(in.Pos()), name, what+" used outside the I/O helpers: this command's input or output bypasses FILE / `-` / -o handling, so the result depends on the I/O path chosen")
			}
		})
	}
	// readFileOrStdin: every branch hands its reader to the same callback parameter
	if fn := c.inputSelector(); fn != nil {
		ncalls := 0
		sameCb := true
		for _, ci := range callsIn(fn) {
			if p, ok := ci.Common().Value.(*ssa.Parameter); ok {
				ncalls++
				if p != fn.Params[1] {
					sameCb = false
				}
			}
		}
		c.site(1)
		c.check(ncalls >= 2 && sameCb, "cmd.readFileOrStdin|one-callback", c.pos(fn.Pos()), fname(fn), "stdin and FILE branches call the same callback", "the stdin and FILE branches of readFileOrStdin no longer feed the same callback")
		// ... and hand it the bytes the same way: whatever wraps the reader on one branch (a decoder, a filter) wraps it on the other
		chain := func(v ssa.Value) (string, bool) {
			var names []string
			for i := 0; i < 8; i++ {
				switch x := v.(type) {
				case *ssa.MakeInterface:
					v = x.X
					continue
				case *ssa.ChangeInterface:
					v = x.X
					continue
				case *ssa.Extract:
					if call, ok := x.Tuple.(*ssa.Call); ok && calleeName(&call.Call) == "os.Open" {
						return strings.Join(names, " <- "), true
					}
					v = x.Tuple
					continue
				case *ssa.UnOp:
					if g, ok := x.X.(*ssa.Global); ok && x.Op == token.MUL && g.Pkg != nil && g.Pkg.Pkg.Path() == "os" && g.Name() == "Stdin" {
						return strings.Join(names, " <- "), true
					}
					// a local that a deferred closure captures lives in a cell
					if cv := cellValue(x); cv != v {
						v = cv
						continue
					}
				case *ssa.Call:
					if len(x.Call.Args) > 0 {
						names = append(names, calleeName(&x.Call))
						v = x.Call.Args[0]
						continue
					}
				}
				break
			}
			return strings.Join(names, " <- "), false
		}
		var chains []string
		resolved := true
		for _, ci := range callsIn(fn) {
			if p, ok := ci.Common().Value.(*ssa.Parameter); ok && p == fn.Params[1] && len(ci.Common().Args) == 1 {
				ch, ok := chain(ci.Common().Args[0])
				resolved = resolved && ok
				chains = append(chains, ch)
			}
		}
		c.site(1)
		same := resolved && len(chains) >= 2
		for _, ch := range chains {
			if ch != chains[0] {
				same = false
			}
		}
		c.check(same, "cmd.readFileOrStdin|same-treatment", c.pos(fn.Pos()), fname(fn), "stdin and FILE reach the callback through the same wrappers (none)", fmt.Sprintf("readFileOrStdin hands the callback its input through different wrappers on different branches (%q): the same bytes are read differently depending on whether they come from stdin, `-` or a FILE", chains))
	} else {
		c.missing("cmd.readFileOrStdin")
	}
	// a buffered writer over an output is flushed while that output is still open: a Flush exists, and when both it and the
	// Close are deferred the Flush is deferred later (deferred calls run last-in first-out)
	for _, fn := range c.srcFuncs() {
		for _, ci := range callsTo(fn, "bufio.NewWriter") {
			nw, ok := ci.(*ssa.Call)
			if !ok {
				continue
			}
			c.site(1)
			key := c.ownerName(fn) + "|buffered-output"
			under := nw.Call.Args[0]
			for {
				if mi, ok := under.(*ssa.MakeInterface); ok {
					under = mi.X
					continue
				}
				if ch, ok := under.(*ssa.ChangeInterface); ok {
					under = ch.X
					continue
				}
				break
			}
			var flush, closeI ssa.Instruction
			flushDeferred, closeDeferred := false, false
			// the writer itself, or loads of the cell it is kept in (a range-over-func body captures it)
			holders := []ssa.Value{nw}
			for _, r := range *nw.Referrers() {
				if st, ok := r.(*ssa.Store); ok && st.Val == ssa.Value(nw) {
					if al, ok := st.Addr.(*ssa.Alloc); ok {
						for _, r2 := range *al.Referrers() {
							if ld, ok := r2.(*ssa.UnOp); ok && ld.Op == token.MUL {
								holders = append(holders, ld)
							}
						}
					}
				}
			}
			for _, h := range holders {
				for _, r := range *h.Referrers() {
					if x, ok := r.(ssa.CallInstruction); ok && calleeName(x.Common()) == "bufio.Writer.Flush" {
						flush = x
						_, flushDeferred = x.(*ssa.Defer)
					}
				}
			}
			allInstrs(fn, func(in ssa.Instruction) {
				x, ok := in.(ssa.CallInstruction)
				if !ok {
					return
				}
				cc := x.Common()
				isClose := (cc.IsInvoke() && cc.Method.Name() == "Close" && cc.Value == under) || (!cc.IsInvoke() && strings.HasSuffix(calleeName(cc), ".Close") && len(cc.Args) > 0 && cc.Args[0] == under)
				if isClose {
					closeI = x
					_, closeDeferred = x.(*ssa.Defer)
				}
			})
			problem := ""
			switch {
			case flush == nil:
				problem = "is never flushed: what is still in the buffer when the command ends is lost"
			case closeI == nil:
			case flushDeferred && closeDeferred && !dominatesInstr(closeI, flush):
				problem = "has its Flush deferred before the Close of what it writes to: deferred calls run in reverse, so the output is closed first and the buffered tail is lost (the error of the late Flush is dropped)"
			case flushDeferred && !closeDeferred:
				problem = "is flushed by a deferred call but the output underneath is closed before the function returns: the buffered tail is lost"
			case !flushDeferred && !closeDeferred && !dominatesInstr(flush, closeI):
				problem = "is not flushed on every path before the output underneath is closed"
			}
			c.check(problem == "", key, c.pos(nw.Pos()), fname(fn), "buffered output is flushed before the output underneath is closed", fmt.Sprintf("%s: the bufio.Writer %s; with -o FILE the file comes out truncated or empty while the same command on stdout looks complete", fname(fn), problem))
		}
	}
	// the output is a writer, whatever is behind it: nothing asks whether it is a file (stdout, a pipe and -o FILE would
	// part ways: a Sync that succeeds on a file fails on a pipe)
	for _, fn := range c.srcFuncs() {
		allInstrs(fn, func(in ssa.Instruction) {
			ta, ok := in.(*ssa.TypeAssert)
			if !ok || typeName(ta.AssertedType) != "os.File" {
				return
			}
			if _, isIface := ta.X.Type().Underlying().(*types.Interface); !isIface {
				return
			}
			c.site(1)
			c.bad(c.ownerName(fn)+"|os.File-assert", c.pos(ta.Pos()), fname(fn), fname(fn)+" asks whether a reader / writer is an *os.File: what follows depends on whether the data goes to (comes from) a file, a pipe or a terminal, so the same command succeeds with -o FILE and fails on a pipe, or the other way round")
		})
	}
	// every data handler writes through getOutput / writeYamlOutput and reads through readFileOrStdinFromArgs
	m := c.buildCobraModel()
	if m == nil {
		return
	}
	var handlers []*ssa.Function
	for f := range m.handler {
		handlers = append(handlers, f)
	}
	sort.Slice(handlers, func(i, j int) bool { return fname(handlers[i]) < fname(handlers[j]) })
	for _, h := range handlers {
		cmd := m.handler[h]
		if m.persist[h] || strings.HasPrefix(cmd, "midiCmdPort") || cmd == "writeCmdPlay" {
			continue // hooks; port listing and live playback print no data
		}
		reach := c.staticReach(h)
		writes := reach["cmd.getOutput"] || reach["cmd.writeYamlOutput"]
		c.site(1)
		c.check(writes, "handler|"+cmd+"|output", c.pos(h.Pos()), fname(h), "output goes through getOutput", "command "+cmd+" produces output without going through getOutput: -o is ignored")
		// the output file is created (truncated) only after the input has been read: `crd x FILE -o FILE` must see FILE's content
		region := c.regionCalls(h, func(f *ssa.Function) bool {
			return f.Name() != "getOutput" && f.Name() != "readFileOrStdinFromArgs" && f.Name() != "readFileOrStdin"
		})
		opens := findRegion(region, func(ci ssa.CallInstruction) bool {
			n := calleeName(ci.Common())
			return n == "cmd.getOutput" || n == "os.Create"
		})
		reads := findRegion(region, func(ci ssa.CallInstruction) bool {
			return calleeName(ci.Common()) == "cmd.readFileOrStdinFromArgs"
		})
		// a command that reads its input through readFileOrStdinFromArgs takes an optional FILE: its positional-argument
		// validator, if it has one, lets one argument through (stdin, `-` and FILE must all be accepted)
		if len(reads) > 0 {
			c.site(1)
			v := m.args[cmd]
			accepts := v == "" || v == "ArbitraryArgs" || strings.HasPrefix(v, "MaximumNArgs(") && v != "MaximumNArgs(0)" || strings.HasPrefix(v, "RangeArgs(0)") || strings.HasPrefix(v, "MinimumNArgs(0)") || strings.HasPrefix(v, "MinimumNArgs(1)") && false
			c.check(accepts, "handler|"+cmd+"|file-argument", c.pos(h.Pos()), fname(h), "an optional FILE argument is accepted", "command "+cmd+" reads FILE / - / stdin but its Args validator is "+v+": a FILE (or -) on the command line is refused while the same bytes on stdin are accepted")
		}
		if len(opens) > 0 && len(reads) > 0 {
			c.site(1)
			good := true
			for _, o := range opens {
				after := false
				for _, r := range reads {
					if regionDominates(r.li(), o.li()) {
						after = true
					}
				}
				if !after {
					good = false
				}
			}
			c.check(good, "handler|"+cmd+"|read-before-create", c.pos(h.Pos()), fname(h), "the input is read before the output file is created", "command "+cmd+" creates (truncates) the -o file before it has read its input: with the same FILE as input and output the input is destroyed and the result differs from the one printed to stdout")
		}
	}
}

// staticReach: names of repo functions reachable from fn through static calls and closures.
func (c *Ctx) staticReach(fn *ssa.Function) map[string]bool {
	seen := map[*ssa.Function]bool{}
	out := map[string]bool{}
	var walk func(f *ssa.Function)
	walk = func(f *ssa.Function) {
		if seen[f] || !c.isRepoFunc(f) {
			return
		}
		seen[f] = true
		out[fname(f)] = true
		for _, a := range f.AnonFuncs {
			walk(a)
		}
		for _, ci := range callsIn(f) {
			if g := staticCallee(ci.Common()); g != nil {
				walk(unbound(g))
			}
		}
	}
	walk(fn)
	return out
}

// ---------------------------------------------------------------------------
// DEBUGOUT

func ruleDebugOut(c *Ctx) {
	c.checkDebugBranchesLogOnly()
	// smallest yyDebug level that guards a print to stdout in the generated parser
	sp := c.ssapkg("input/ast")
	if sp == nil {
		c.missing("input/ast")
		return
	}
	minLevel := int64(1 << 30)
	prints := 0
	for _, m := range sp.Members {
		fn, ok := m.(*ssa.Function)
		if !ok {
			continue
		}
		for _, f := range withClosures(fn) {
			c.debugPrintLevels(f, &minLevel, &prints)
		}
	}
	for _, T := range sp.Members {
		if tn, ok := T.(*ssa.Type); ok {
			for _, t := range []types.Type{tn.Type(), types.NewPointer(tn.Type())} {
				ms := c.Prog.MethodSets.MethodSet(t)
				for i := 0; i < ms.Len(); i++ {
					if f := c.Prog.MethodValue(ms.At(i)); f != nil && c.isRepoFunc(f) {
						c.debugPrintLevels(f, &minLevel, &prints)
					}
				}
			}
		}
	}
	if prints == 0 {
		c.ok("parser-trace|none", "", "", "the parser contains no print to stdout")
		c.site(1)
		return
	}
	for _, fn := range c.srcFuncs() {
		for _, ci := range callsTo(fn, "input/ast.SetDebug") {
			c.site(1)
			// keyed by the command hook the call is reached from, so that moving the call into a helper keeps the key
			lvl, ok := constInt(ci.Common().Args[0])
			key := c.entryAlias(fn) + "|SetDebug"
			if ok {
				// the level is part of the construct: a higher level prints more (reductions of accepted texts too) and is another finding
				key = fmt.Sprintf("%s|SetDebug(%d)", c.entryAlias(fn), lvl)
			}
			switch {
			case !ok:
				c.undec(key, c.pos(ci.Pos()), fname(fn), "debug level is not a constant")
			case lvl >= minLevel:
				c.bad(key, c.pos(ci.Pos()), fname(fn), fmt.Sprintf("--debug sets the parser's debug level to %d; the generated parser prints its trace with fmt.Printf (stdout) from level %d on: with --debug a rejected text puts `state-N saw ...` on standard output, so stdout depends on the flag and a failing command prints to stdout", lvl, minLevel))
			default:
				c.ok(key, c.pos(ci.Pos()), fname(fn), fmt.Sprintf("level %d is below the first printing level %d", lvl, minLevel))
			}
		}
	}
}

func (c *Ctx) debugPrintLevels(f *ssa.Function, minLevel *int64, prints *int) {
	for _, ci := range callsTo(f, "fmt.Printf", "fmt.Println", "fmt.Print") {
		*prints++
		// find a dominating If on yyDebug >= k
		b := ci.Block()
		for d := b; d != nil; d = d.Idom() {
			id := d.Idom()
			if id == nil {
				break
			}
			iff, ok := id.Instrs[len(id.Instrs)-1].(*ssa.If)
			if !ok || id.Succs[0] != d {
				continue
			}
			cmp, ok := iff.Cond.(*ssa.BinOp)
			if !ok || cmp.Op != token.GEQ {
				continue
			}
			if u, ok := cmp.X.(*ssa.UnOp); ok {
				if g, ok := u.X.(*ssa.Global); ok && g.Name() == "yyDebug" {
					if k, ok := constInt(cmp.Y); ok && k < *minLevel {
						*minLevel = k
					}
				}
			}
		}
	}
}

// entryAlias: the name of fn, or of the (unique) cobra hook / handler it is statically reached from through repo functions.
func (c *Ctx) entryAlias(fn *ssa.Function) string {
	if _, ok := funcAlias[fn]; ok {
		return fname(fn)
	}
	// static callers, breadth first, depth <= 4
	seen := map[*ssa.Function]bool{fn: true}
	level := []*ssa.Function{fn}
	for depth := 0; depth < 4 && len(level) > 0; depth++ {
		var next []*ssa.Function
		var hits []string
		for _, g := range c.srcFuncs() {
			for _, ci := range callsIn(g) {
				callee := staticCallee(ci.Common())
				if callee == nil {
					continue
				}
				for _, t := range level {
					if unbound(callee) == t && !seen[g] {
						seen[g] = true
						root := g
						for root.Parent() != nil {
							if _, ok := funcAlias[root]; ok {
								break
							}
							root = root.Parent()
						}
						if _, ok := funcAlias[root]; ok {
							hits = append(hits, fname(root))
						}
						next = append(next, g)
					}
				}
			}
		}
		if len(hits) > 0 {
			sort.Strings(hits)
			return hits[0]
		}
		level = next
	}
	return fname(fn)
}

// onlyFeedsLoggerSetup: the loaded stream is used only as an argument of logx.Setup.
func onlyFeedsLoggerSetup(v ssa.Value) bool {
	refs := v.Referrers()
	if refs == nil || len(*refs) == 0 {
		return false
	}
	for _, r := range *refs {
		switch x := r.(type) {
		case *ssa.MakeInterface:
			if !onlyFeedsLoggerSetup(x) {
				return false
			}
		case *ssa.ChangeInterface:
			if !onlyFeedsLoggerSetup(x) {
				return false
			}
		case ssa.CallInstruction:
			if calleeName(x.Common()) != "logx.Setup" {
				return false
			}
		case *ssa.DebugRef:
		default:
			return false
		}
	}
	return true
}

// onlyHandedOn: the loaded stream is only passed along as an argument (never the receiver of a call such as Stat).
func onlyHandedOn(v ssa.Value) bool {
	refs := v.Referrers()
	if refs == nil {
		return true
	}
	for _, r := range *refs {
		switch x := r.(type) {
		case *ssa.MakeInterface:
			if !onlyHandedOn(x) {
				return false
			}
		case *ssa.ChangeInterface:
			if !onlyHandedOn(x) {
				return false
			}
		case ssa.CallInstruction:
			cc := x.Common()
			if cc.IsInvoke() && cc.Value == v {
				return false
			}
			if !cc.IsInvoke() && cc.Signature().Recv() != nil && len(cc.Args) > 0 && cc.Args[0] == v {
				return false
			}
		case *ssa.DebugRef, *ssa.Store, *ssa.Phi, *ssa.Return:
		default:
			return false
		}
	}
	return true
}

// reviewedMapWrites: functions that write a map under derived keys while ranging over a map, and why the result is order independent.
var reviewedMapWrites = map[string]string{
	"util.MustInverseMap": "panics when two entries have the same value, so a table it returns has exactly one writer per key (the tables it is applied to are checked injective by the TAB rules)",
	"util.InverseMap":     "returns an error when two entries have the same value",
}

// comparatorTotal: a comparator func(a, b T) int distinguishes any two different T when what it compares of a is the
// whole of a: a itself (a basic type), the printed form of a (T's own String method; the printers are checked injective by
// CODEC / TAB rules), or every field of the struct T. Returns "" or what is missing.
func (c *Ctx) comparatorTotal(cmpf *ssa.Function) string {
	a := cmpf.Params[0]
	t := a.Type()
	whole := false
	fields := map[string]bool{}
	var visit func(v ssa.Value, depth int)
	seen := map[ssa.Instruction]bool{}
	visit = func(v ssa.Value, depth int) {
		if v.Referrers() == nil || depth > 6 {
			return
		}
		for _, r := range *v.Referrers() {
			if seen[r] {
				continue
			}
			seen[r] = true
			switch x := r.(type) {
			case *ssa.Field:
				if depth == 0 {
					n, _, _ := fieldName(x)
					fields[n] = true
				}
			case *ssa.FieldAddr:
				if depth <= 1 {
					n, _, _ := fieldName(x)
					fields[n] = true
				}
			case *ssa.Store:
				// the parameter spilled into a local: follow the local
				if x.Val == v {
					visit(x.Addr, depth)
				}
			case *ssa.UnOp:
				if x.Op == token.MUL {
					visit(x, depth)
				}
			case *ssa.Call:
				callee := staticCallee(&x.Call)
				if callee != nil && callee.Name() == "String" && callee.Signature.Recv() != nil && len(x.Call.Args) > 0 && x.Call.Args[0] == v && types.Identical(callee.Signature.Recv().Type(), t) {
					whole = true
				}
			case *ssa.BinOp, *ssa.Convert, *ssa.ChangeType, *ssa.MakeInterface:
				if depth == 0 {
					if _, isBasic := t.Underlying().(*types.Basic); isBasic {
						whole = true
					}
				}
			}
		}
	}
	visit(a, 0)
	if _, isBasic := t.Underlying().(*types.Basic); isBasic {
		// compared directly or handed to a library comparison
		return ""
	}
	if whole {
		return ""
	}
	st, ok := t.Underlying().(*types.Struct)
	if !ok {
		return "compares " + typeName(t) + " values in a way that is not recognised as looking at the whole value"
	}
	var missing []string
	for i := 0; i < st.NumFields(); i++ {
		if !fields[st.Field(i).Name()] {
			missing = append(missing, st.Field(i).Name())
		}
	}
	if len(missing) > 0 {
		return fmt.Sprintf("never looks at the field(s) %v of %s: two values that differ only there compare equal", missing, typeName(t))
	}
	return ""
}

// checkDebugBranchesLogOnly: a branch taken only when debug logging is enabled (a test of slog's Enabled) does nothing
// but log: inside it there are calls of log/slog, logx, fmt's Sprint family and String methods only, and stores into
// memory allocated inside the branch only. Sorting a slice for the log line, taking the pending delta to print it or
// installing a wrapper there changes what the command writes when --debug is given.
func (c *Ctx) checkDebugBranchesLogOnly() {
	n := 0
	for _, fn := range c.srcFuncs() {
		for _, ci := range callsIn(fn) {
			name := calleeName(ci.Common())
			if name != "log/slog.Logger.Enabled" && name != "log/slog.Handler.Enabled" && name != "log/slog.JSONHandler.Enabled" && name != "log/slog.TextHandler.Enabled" {
				continue
			}
			n++
			c.site(1)
			key := "debug-branch|" + fname(fn)
			call, ok := ci.(*ssa.Call)
			if !ok {
				c.bad(key, c.pos(ci.Pos()), fname(fn), "the log level is asked in a go / defer statement")
				continue
			}
			problem := ""
			for _, ref := range *call.Referrers() {
				if _, isDbg := ref.(*ssa.DebugRef); isDbg {
					continue
				}
				iff, isIf := ref.(*ssa.If)
				if !isIf {
					problem = "the answer of Enabled is used for something other than guarding a log statement (" + c.pos(ref.Pos()) + ")"
					continue
				}
				b := iff.Block()
				side := b.Succs[0]
				if side == b.Succs[1] || len(side.Preds) != 1 {
					continue
				}
				region := map[*ssa.BasicBlock]bool{}
				for _, x := range fn.Blocks {
					if x == side || side.Dominates(x) {
						region[x] = true
					}
				}
				local := map[ssa.Value]bool{}
				for x := range region {
					for _, in := range x.Instrs {
						if a, ok := in.(*ssa.Alloc); ok {
							local[a] = true
						}
					}
				}
				baseOf := func(a ssa.Value) ssa.Value {
					for i := 0; i < 6; i++ {
						switch y := a.(type) {
						case *ssa.FieldAddr:
							a = y.X
						case *ssa.IndexAddr:
							a = y.X
						default:
							return a
						}
					}
					return a
				}
				// nothing made in the branch is used after it (a wrapper installed for logging stands between the parts from then on)
				for _, x := range fn.Blocks {
					if region[x] {
						continue
					}
					for _, in := range x.Instrs {
						phi, ok := in.(*ssa.Phi)
						if !ok {
							break
						}
						for i, e := range phi.Edges {
							if region[x.Preds[i]] {
								if _, isConst := e.(*ssa.Const); !isConst {
									if ei, ok := e.(ssa.Instruction); ok && region[ei.Block()] {
										problem = "a value made in the debug-only branch is used after it (" + c.pos(phi.Pos()) + "): with --debug the program works with something else than without it"
									}
								}
							}
						}
					}
				}
				for x := range region {
					for _, in := range x.Instrs {
						switch y := in.(type) {
						case *ssa.Store:
							if !local[baseOf(y.Addr)] {
								problem = "the debug-only branch stores into memory from outside it (" + c.pos(y.Pos()) + ")"
							}
						case *ssa.MapUpdate, *ssa.Send, *ssa.Go, *ssa.Defer, *ssa.Return, *ssa.Panic:
							problem = "the debug-only branch does more than log (" + c.pos(in.Pos()) + ")"
						case ssa.CallInstruction:
							cn := calleeName(y.Common())
							switch {
							case strings.HasPrefix(cn, "log/slog."), strings.HasPrefix(cn, "logx."), strings.HasPrefix(cn, "context."),
								strings.HasPrefix(cn, "fmt.Sprint"), strings.HasPrefix(cn, "strconv."), strings.HasPrefix(cn, "builtin.len"), strings.HasPrefix(cn, "builtin.cap"),
								strings.HasSuffix(cn, ".String"), strings.HasPrefix(cn, "time.Now"), strings.HasPrefix(cn, "time.Since"):
							default:
								problem = "the debug-only branch calls " + cn + " (" + c.pos(y.Pos()) + "): only logging is expected there"
							}
						}
					}
				}
			}
			c.check(problem == "", key, c.pos(ci.Pos()), fname(fn), "the branch taken when debug logging is enabled only logs", fname(fn)+": "+problem+": with --debug the command may write something else than without it")
		}
	}
	if n == 0 {
		c.site(1)
		c.ok("debug-branch|none", "", "", "no branch of the program asks whether debug logging is enabled")
	}
}

// checkNoSingleRead: an input is read to its end (io.ReadAll, a decoder, a scanner); nothing in the repo calls Read on
// an io.Reader itself. One Read returns what is there at the moment: a regular file whole, a pipe at most one buffer
// of it - the same text would give different results from FILE and from stdin.
func (c *Ctx) checkNoSingleRead() {
	var sites []string
	for _, fn := range c.srcFuncs() {
		if strings.HasSuffix(c.Fset.PositionFor(fn.Pos(), false).Filename, "_generated.go") {
			continue
		}
		for _, ci := range callsIn(fn) {
			cm := ci.Common()
			isRead := false
			if cm.IsInvoke() && cm.Method.Name() == "Read" && cm.Method.Type().(*types.Signature).Params().Len() == 1 {
				isRead = true
			} else if callee := staticCallee(cm); callee != nil && callee.Name() == "Read" && callee.Signature.Recv() != nil && !c.isRepoFunc(callee) {
				if p := callee.Pkg; p != nil && (p.Pkg.Path() == "os" || p.Pkg.Path() == "bufio" || p.Pkg.Path() == "io" || p.Pkg.Path() == "bytes" || p.Pkg.Path() == "strings") {
					isRead = true
				}
			}
			if !isRead {
				continue
			}
			// a Read method of the repo that forwards to the reader it wraps is a reader itself, not a consumer
			if fn.Name() == "Read" && fn.Signature.Recv() != nil {
				continue
			}
			sites = append(sites, fname(fn)+" ("+c.pos(ci.Pos())+")")
		}
	}
	sort.Strings(sites)
	sites = uniq(sites)
	c.site(1)
	c.check(len(sites) == 0, "io|single-read", "", "", "no input is consumed by a single Read call", fmt.Sprintf("%s call(s) Read on a reader directly: one Read returns what is available at that moment (a whole regular file, but at most one pipe buffer of stdin), so the same text gives different results from FILE and from stdin", strings.Join(sites, ", ")))
}
