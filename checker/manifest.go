package main

import (
	"encoding/json"
	"fmt"
	"os"
	"strings"
)

// emitManifest prints MANIFEST.json from the property table, so that the interface file cannot drift from the checker.
func emitManifest() {
	type level struct {
		Category  string `json:"category"`
		Text      string `json:"text"`
		DesignRef string `json:"design_ref"`
	}
	type check struct {
		PropertyID string `json:"property_id"`
		Quick      string `json:"quick_cmd"`
		Thorough   string `json:"thorough_cmd"`
		Evidence   string `json:"evidence_file"`
		Replay     string `json:"replay_cmd_template"`
		Engine     string `json:"engine"`
		Level      level  `json:"level_claimed"`
		LevelNote  string `json:"level_note"`
		Technique  string `json:"technique"`
	}
	type na struct {
		PropertyID string `json:"property_id"`
		Reason     string `json:"reason"`
	}
	var checks []check
	nas := []na{}
	for _, p := range propertyOrder {
		pd := properties[p]
		if len(pd.Rules) == 0 || pd.NotApplicable != "" {
			r := pd.NotApplicable
			if r == "" {
				r = "no static rule implemented for this property yet"
			}
			nas = append(nas, na{p, r})
			continue
		}
		checks = append(checks, check{
			PropertyID: p,
			Quick:      "./run.sh " + p + " quick",
			Thorough:   "./run.sh " + p + " thorough",
			Evidence:   "/verif/evidence/" + p + ".json",
			Replay:     "./run.sh -replay {path}",
			Engine:     "crdcheck",
			Level: level{
				Category:  "other",
				Text:      "Static rule set with counted obligations, not exploration or proof of the behavioural statement. Decided: " + pd.Explanation + " NOT decided: " + pd.NotDecided,
				DesignRef: "DESIGN.md §3 " + p,
			},
			LevelNote: "Trusted: Go type checker and go/ssa (x/tools v0.29.0); goyacc as a correct LALR(1) generator; gomidi smf/midi v2.2.19 byte layout; yaml.v3 key ordering; cobra RunE contract; ybase v0.7.0 reader contract at EOF; the checker's own music-theory specification (checker/spec.go). Rules: " + strings.Join(pd.Rules, ", "),
			Technique: pd.Technique,
		})
	}
	m := map[string]any{
		"version":   1,
		"setup_cmd": "cd /verif/checker && GOFLAGS=-mod=mod GOPROXY=off GOWORK=off GOTOOLCHAIN=auto go build -o ../bin/crdcheck .",
		"hooks": map[string]any{
			"guard":            "verif",
			"enable":           "no hooks: the checker reads /repo's source as it is (go/packages + go/ssa); nothing is built with a tag",
			"baseline_off_cmd": "cd /repo && GOFLAGS=-mod=mod GOPROXY=off go test -json -vet=off -count=1 -timeout 25m ./...",
			"source_commits":   []string{},
			"add_only":         true,
		},
		"engines": []map[string]any{{
			"name":              "crdcheck",
			"path":              "/verif/checker",
			"serves_properties": propertyOrder,
			"kind_free_text":    "repository-specific static analyser over go/packages + go/ssa: constant-table extraction against an independent music-theory specification (TAB), SSA path/ordering/provenance rules (PATH), map-order and nondeterminism taint (FLOW), goyacc regeneration with AST comparison (GEN)",
		}},
		"checks":         checks,
		"not_applicable": nas,
		"notes":          "Every check loads /repo's current working tree on each run; nothing of crd is executed. Exit 0 = all obligations discharged or listed in known_findings.json (KNOWN-FINDING lines); exit 1 = VIOLATION lines with replay records under evidence/replay/; exit 2 = the analysis could not run. See DESIGN.md.",
	}
	b, _ := json.MarshalIndent(m, "", " ")
	fmt.Fprintln(os.Stdout, string(b))
}
