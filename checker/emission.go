package main

// Emission model of midix.MIDIWriter.
//
// The PENDING, NOTE and OPMAP rules do not look at helper names: they start from the primitive sinks
// (TrackSetController.Add / Distribute), resolve the *TrackOp handed over back to the struct literal that
// creates it, and resolve that literal's fields (delta, track type, op function) through parameters,
// conversions, single-store locals and same-package helper calls up to values of the writer method being checked.
// Extracting, renaming or merging unexported helpers therefore does not change what the rules see.

import (
	"go/token"
	"go/types"
	"strings"

	"golang.org/x/tools/go/ssa"
)

// lval is a value located in the region of a root function: fn is the function it belongs to and
// chain the call sites leading from the root down to fn.
type lval struct {
	v     ssa.Value
	fn    *ssa.Function
	chain []ssa.CallInstruction
}

func (l lval) with(v ssa.Value) lval { return lval{v, l.fn, l.chain} }

func sameChain(a, b []ssa.CallInstruction) bool {
	if len(a) != len(b) {
		return false
	}
	for i := range a {
		if a[i] != b[i] {
			return false
		}
	}
	return true
}

func (l lval) same(o lval) bool { return l.v == o.v && sameChain(l.chain, o.chain) }

// linstr is an instruction located in a region.
type linstr struct {
	in    ssa.Instruction
	chain []ssa.CallInstruction
}

// at returns the instruction that represents li at the given call depth (the call site leading towards it, or li itself).
func (li linstr) at(level int) ssa.Instruction {
	if level < len(li.chain) {
		return li.chain[level]
	}
	return li.in
}

// regionDominates: a is executed before b on every path (compared in the deepest function both belong to).
func regionDominates(a, b linstr) bool {
	k := 0
	for k < len(a.chain) && k < len(b.chain) && a.chain[k] == b.chain[k] {
		k++
	}
	ia, ib := a.at(k), b.at(k)
	if ia == ib {
		return false
	}
	if ia.Parent() != ib.Parent() {
		return false
	}
	return dominatesInstr(ia, ib)
}

type tracer struct {
	c    *Ctx
	stop func(*ssa.Function) bool // callees that are not looked into (role functions, other layers)
}

// followable: a same-package function with a body and exactly one return, not stopped.
func (t *tracer) followable(from *ssa.Function, callee *ssa.Function) bool {
	if callee == nil || len(callee.Blocks) == 0 || !t.c.isRepoFunc(callee) {
		return false
	}
	if cp, fp := pkgOfFunc(callee), pkgOfFunc(from); cp == nil || fp == nil || cp != fp {
		return false
	}
	if t.stop != nil && t.stop(callee) {
		return false
	}
	return true
}

// trace normalises a located value: conversions and interface wrapping are stripped, single-store locals are read
// through, parameters are replaced by the argument at the call site above, and calls of single-return same-package
// helpers are replaced by the value they return.
func (t *tracer) trace(l lval) lval {
	for i := 0; i < 48; i++ {
		v := stripThroughLocal(l.v)
		switch x := v.(type) {
		case *ssa.Convert:
			l.v = x.X
			continue
		case *ssa.ChangeType:
			l.v = x.X
			continue
		case *ssa.MakeInterface:
			l.v = x.X
			continue
		case *ssa.ChangeInterface:
			l.v = x.X
			continue
		case *ssa.Parameter:
			if len(l.chain) == 0 || x.Parent() != l.fn {
				l.v = v
				return l
			}
			idx := -1
			for k, q := range l.fn.Params {
				if q == x {
					idx = k
				}
			}
			site := l.chain[len(l.chain)-1]
			args := site.Common().Args
			if site.Common().IsInvoke() || idx < 0 || idx >= len(args) {
				l.v = v
				return l
			}
			l = lval{args[idx], site.Parent(), l.chain[:len(l.chain)-1]}
			continue
		case *ssa.Extract:
			// result i of a helper with several returns of which exactly one yields something for it (the success path)
			if call, ok := x.Tuple.(*ssa.Call); ok {
				callee := staticCallee(&call.Call)
				if callee != nil && len(l.chain) < 6 && t.followable(l.fn, callee) && callee != l.fn {
					if rv, ok := principalResult(callee, x.Index); ok {
						l = lval{rv, callee, append(append([]ssa.CallInstruction{}, l.chain...), call)}
						continue
					}
				}
			}
		case *ssa.Call:
			callee := staticCallee(&x.Call)
			if callee != nil && len(l.chain) < 6 && t.followable(l.fn, callee) && callee.Signature.Results().Len() == 1 {
				recursive := callee == l.fn
				for _, s := range l.chain {
					if s.Parent() == callee {
						recursive = true
					}
				}
				if rv, ok := singleReturn(callee, 0); ok && !recursive {
					l = lval{rv, callee, append(append([]ssa.CallInstruction{}, l.chain...), x)}
					continue
				}
			}
		}
		l.v = v
		return l
	}
	return l
}

// literal reads a struct literal (an Alloc whose fields are stored once): type name and located field values.
func (t *tracer) literal(l lval) (string, map[string]lval, bool) {
	l = t.trace(l)
	al, ok := l.v.(*ssa.Alloc)
	if !ok {
		return typeName(l.v.Type()), nil, false
	}
	fields := map[string]lval{}
	for _, r := range *al.Referrers() {
		if fa, ok := r.(*ssa.FieldAddr); ok {
			n, _, _ := fieldName(fa)
			for _, rr := range *fa.Referrers() {
				if st, ok := rr.(*ssa.Store); ok && st.Addr == ssa.Value(fa) {
					fields[n] = t.trace(l.with(st.Val))
				}
			}
		}
	}
	return typeName(al.Type()), fields, true
}

// ---- guarded alternatives ----

type gcond struct {
	cond lval
	want bool
}

type galt struct {
	conds []gcond
	leaf  lval
}

func isLoopHeader(b *ssa.BasicBlock) bool {
	for _, p := range b.Preds {
		if b.Dominates(p) {
			return true
		}
	}
	return false
}

// mkcond builds a guard, looking through negations.
func mkcond(l lval, cond ssa.Value, side bool) gcond {
	for {
		u, ok := cond.(*ssa.UnOp)
		if !ok || u.Op != token.NOT {
			break
		}
		cond, side = u.X, !side
	}
	return gcond{l.with(cond), side}
}

// guards of a block: the branch outcomes that are known whenever the block executes.
func guardsOf(b *ssa.BasicBlock, l lval) []gcond {
	var out []gcond
	for _, pc := range pathConds(b) {
		out = append(out, mkcond(l, pc.cond, pc.side))
	}
	return out
}

// alts expands a located value into guarded alternatives: a phi that merges the arms of a branch yields one
// alternative per edge with the branch outcome, a helper with several returns one alternative per return.
func (t *tracer) alts(l lval, depth int) []galt {
	l = t.trace(l)
	if depth > 4 {
		return []galt{{nil, l}}
	}
	switch x := l.v.(type) {
	case *ssa.Phi:
		if isLoopHeader(x.Block()) {
			return []galt{{nil, l}}
		}
		var out []galt
		for i, e := range x.Edges {
			pred := x.Block().Preds[i]
			conds := guardsOf(pred, l)
			if iff, ok := pred.Instrs[len(pred.Instrs)-1].(*ssa.If); ok && pred.Succs[0] != pred.Succs[1] {
				conds = append(conds, mkcond(l, iff.Cond, pred.Succs[0] == x.Block()))
			}
			for _, a := range t.alts(l.with(e), depth+1) {
				out = append(out, galt{append(append([]gcond{}, conds...), a.conds...), a.leaf})
			}
		}
		return out
	case *ssa.Call:
		callee := staticCallee(&x.Call)
		if callee != nil && t.followable(l.fn, callee) && callee.Signature.Results().Len() == 1 && len(l.chain) < 6 && callee != l.fn {
			loops := false
			for _, b := range callee.Blocks {
				if inLoop(b) {
					loops = true
				}
			}
			rets := returnsOf(callee)
			if !loops && len(rets) > 1 {
				var out []galt
				inner := lval{nil, callee, append(append([]ssa.CallInstruction{}, l.chain...), x)}
				for _, r := range rets {
					conds := guardsOf(r.Block(), inner)
					for _, a := range t.alts(inner.with(retVal(r, 0)), depth+1) {
						out = append(out, galt{append(append([]gcond{}, conds...), a.conds...), a.leaf})
					}
				}
				return out
			}
		}
	}
	return []galt{{nil, l}}
}

// zeroTest classifies a condition as a test of `idx == 0` (with the polarity under which idx is 0).
// ok is false when the condition is about something else.
func (t *tracer) zeroTest(g gcond, idx lval) (isZero bool, ok bool) {
	cl := t.trace(g.cond)
	b, isBin := cl.v.(*ssa.BinOp)
	if !isBin {
		return false, false
	}
	x := t.trace(cl.with(b.X))
	y := t.trace(cl.with(b.Y))
	op := b.Op
	if _, isK := constInt(x.v); isK {
		// constant on the left: mirror the comparison
		x, y = y, x
		switch op {
		case token.LSS:
			op = token.GTR
		case token.GTR:
			op = token.LSS
		case token.LEQ:
			op = token.GEQ
		case token.GEQ:
			op = token.LEQ
		}
	}
	k, isK := constInt(y.v)
	if !isK || !x.same(idx) {
		return false, false
	}
	switch {
	case op == token.EQL && k == 0:
		return g.want, true
	case op == token.NEQ && k == 0:
		return !g.want, true
	case op == token.GTR && k == 0: // idx > 0 (the index is never negative)
		return !g.want, true
	case op == token.LSS && k == 1:
		return g.want, true
	case op == token.GEQ && k == 1:
		return !g.want, true
	case op == token.LEQ && k == 0:
		return g.want, true
	}
	return false, false
}

// ---- the writer's roles and emissions ----

type writerModel struct {
	c        *Ctx
	tr       *tracer
	pkg      *ssa.Package
	typ      *types.TypeName
	pending  string                 // name of the pending-delta field
	take     map[*ssa.Function]bool // return the pending delta and clear it
	accum    map[*ssa.Function]bool // pending += parameter
	conv     map[*ssa.Function]bool // value -> ticks
	methods  []*ssa.Function        // all methods with bodies
	problems []string
}

type emission struct {
	sink    linstr
	kind    string // "one" (TrackSetController.Add) or "all" (Distribute)
	delta   lval
	typKind string // "midix.MetaTrack" / "midix.FixedTrack" / other
	track   lval   // FixedTrack.TrackNo
	opType  string
	fields  map[string]lval
	opOK    bool
}

func isFieldOfRecv(fn *ssa.Function, v ssa.Value) (string, bool) {
	n, base, ok := fieldName(v)
	if !ok || len(fn.Params) == 0 {
		return "", false
	}
	b := stripThroughLocal(base)
	if b == ssa.Value(fn.Params[0]) {
		return n, true
	}
	// value receiver spilled to a local: &local.field
	if al, ok := base.(*ssa.Alloc); ok {
		for _, r := range *al.Referrers() {
			if st, ok := r.(*ssa.Store); ok && st.Addr == ssa.Value(al) && st.Val == ssa.Value(fn.Params[0]) {
				return n, true
			}
		}
	}
	return "", false
}

func (c *Ctx) writerModel() *writerModel {
	if c.wm != nil {
		return c.wm
	}
	m := &writerModel{c: c, take: map[*ssa.Function]bool{}, accum: map[*ssa.Function]bool{}, conv: map[*ssa.Function]bool{}}
	c.wm = m
	sp := c.ssapkg("midix")
	if sp == nil {
		m.problems = append(m.problems, "package midix not found")
		return m
	}
	m.pkg = sp
	tn, _ := sp.Pkg.Scope().Lookup("MIDIWriter").(*types.TypeName)
	if tn == nil {
		m.problems = append(m.problems, "type midix.MIDIWriter not found")
		return m
	}
	m.typ = tn
	named := tn.Type().(*types.Named)
	for i := 0; i < named.NumMethods(); i++ {
		fn := c.Prog.FuncValue(named.Method(i))
		if fn != nil && len(fn.Blocks) > 0 {
			m.methods = append(m.methods, fn)
		}
	}
	// roles
	for _, fn := range m.methods {
		ncalls := len(callsIn(fn))
		var stores []*ssa.Store
		allInstrs(fn, func(in ssa.Instruction) {
			if st, ok := in.(*ssa.Store); ok {
				if _, isField := isFieldOfRecv(fn, st.Addr); isField {
					stores = append(stores, st)
				}
			}
		})
		sig := fn.Signature
		switch {
		case ncalls == 0 && len(stores) == 1 && sig.Results().Len() == 1 && sig.Params().Len() == 0:
			f, _ := isFieldOfRecv(fn, stores[0].Addr)
			k, isK := constInt(stores[0].Val)
			rets := returnsOf(fn)
			if isK && k == 0 && len(rets) == 1 {
				rv := stripThroughLocal(retVal(rets[0], 0))
				if ld, ok := rv.(*ssa.UnOp); ok && ld.Op == token.MUL {
					if rf, ok := isFieldOfRecv(fn, ld.X); ok && rf == f && dominatesInstr(ld, stores[0]) {
						m.take[fn] = true
						if m.pending != "" && m.pending != f {
							m.problems = append(m.problems, "two different pending-delta fields: "+m.pending+" and "+f)
						}
						m.pending = f
					}
				}
			}
		}
	}
	for _, fn := range m.methods {
		if m.pending == "" {
			break
		}
		sig := fn.Signature
		if len(callsIn(fn)) == 0 && sig.Results().Len() == 0 && sig.Params().Len() == 1 {
			n := 0
			good := false
			allInstrs(fn, func(in ssa.Instruction) {
				if st, ok := in.(*ssa.Store); ok {
					n++
					if f, isField := isFieldOfRecv(fn, st.Addr); isField && f == m.pending {
						af := c.affine(fn, st.Val)
						good = af.equal(map[string]int64{"p0." + m.pending: 1, "p1": 1}, 0)
					}
				}
			})
			if n == 1 && good {
				m.accum[fn] = true
			}
		}
		// value -> ticks: (float64) uint32 without side effects on the writer
		if sig.Params().Len() == 1 && sig.Results().Len() == 1 && isFloat(sig.Params().At(0).Type()) && !fn.Object().Exported() {
			if b, ok := sig.Results().At(0).Type().Underlying().(*types.Basic); ok && b.Info()&types.IsInteger != 0 {
				writes := false
				allInstrs(fn, func(in ssa.Instruction) {
					if st, ok := in.(*ssa.Store); ok {
						if fa, isField := st.Addr.(*ssa.FieldAddr); isField {
							if _, isLocal := fa.X.(*ssa.Alloc); !isLocal {
								writes = true
							}
						}
					}
				})
				if !writes {
					m.conv[fn] = true
				}
			}
		}
	}
	m.tr = &tracer{c: c, stop: func(f *ssa.Function) bool { return m.take[f] || m.accum[f] || m.conv[f] }}
	return m
}

func (m *writerModel) isRole(set map[*ssa.Function]bool, v ssa.Value) bool {
	call, ok := v.(*ssa.Call)
	if !ok {
		return false
	}
	callee := staticCallee(&call.Call)
	return callee != nil && set[unbound(callee)]
}

// follow: which callees of the writer's methods belong to the writer layer (its own methods and package-level helpers).
func (m *writerModel) follow(f *ssa.Function) bool {
	if m.take[f] || m.accum[f] || m.conv[f] {
		return false
	}
	if f.Signature.Recv() == nil {
		return f.Pkg == m.pkg
	}
	rt := f.Signature.Recv().Type()
	if p, ok := rt.(*types.Pointer); ok {
		rt = p.Elem()
	}
	if n, ok := rt.(*types.Named); ok {
		return n.Obj() == m.typ
	}
	return false
}

func (m *writerModel) region(root *ssa.Function) []rcall {
	return m.c.regionCalls(root, m.follow)
}

// roleCalls lists the located calls of a role in the region.
func (m *writerModel) roleCalls(calls []rcall, set map[*ssa.Function]bool) []rcall {
	return findRegion(calls, func(ci ssa.CallInstruction) bool {
		callee := staticCallee(ci.Common())
		return callee != nil && set[unbound(callee)]
	})
}

// emissions resolves every op handed to the track set in the region of root.
func (m *writerModel) emissions(root *ssa.Function) ([]*emission, []string) {
	var out []*emission
	var problems []string
	for _, rc := range m.region(root) {
		n := calleeName(rc.call.Common())
		kind := ""
		switch n {
		case "midix.TrackSetController.Add":
			kind = "one"
		case "midix.TrackSetController.Distribute":
			kind = "all"
		case "midix.TrackSet.Add", "midix.Track.Add":
			problems = append(problems, "an op is added through "+strings.TrimPrefix(n, "midix.")+" directly, bypassing track selection")
			continue
		default:
			continue
		}
		args := rc.call.Common().Args
		e := &emission{sink: linstr{rc.call, rc.chain}, kind: kind}
		at := lval{args[len(args)-1], rc.fn, rc.chain}
		tn, fields, ok := m.tr.literal(at)
		if !ok || tn != "midix.TrackOp" {
			problems = append(problems, "the op handed to the track set is not a freshly built TrackOp ("+tn+")")
			out = append(out, e)
			continue
		}
		e.delta = fields["TickDelta"]
		if tl, ok := fields["Type"]; ok {
			tk, tf, _ := m.tr.literal(tl)
			e.typKind = tk
			e.track = tf["TrackNo"]
		}
		if fl, ok := fields["Func"]; ok {
			e.opType, e.fields, e.opOK = m.tr.literal(fl)
		}
		out = append(out, e)
	}
	return out, problems
}

// paramName: the located value is a parameter of the root function (chain empty): its name.
func paramName(l lval) (string, bool) {
	if len(l.chain) != 0 || l.v == nil {
		return "", false
	}
	p, ok := l.v.(*ssa.Parameter)
	if !ok {
		return "", false
	}
	return p.Name(), true
}

// eqTest classifies a guard as a comparison `a == b` where a is the given located value and b satisfies isB;
// equal is the outcome that is known to hold when the guard holds.
func (t *tracer) eqTest(g gcond, a lval, isB func(lval) bool) (equal bool, ok bool) {
	cl := t.trace(g.cond)
	b, isBin := cl.v.(*ssa.BinOp)
	if !isBin || (b.Op != token.EQL && b.Op != token.NEQ) {
		return false, false
	}
	x := t.trace(cl.with(b.X))
	y := t.trace(cl.with(b.Y))
	if !(x.same(a) && isB(y)) && !(y.same(a) && isB(x)) {
		return false, false
	}
	if b.Op == token.EQL {
		return g.want, true
	}
	return !g.want, true
}

// guardsAlong: the guards of a located instruction at every call depth from level down to the instruction itself.
func guardsAlong(li linstr, level int) []gcond {
	var out []gcond
	for k := level; k <= len(li.chain); k++ {
		in := li.at(k)
		out = append(out, guardsOf(in.Block(), lval{nil, in.Parent(), li.chain[:k]})...)
	}
	return out
}

// loopAround: the innermost counted loop around the located instruction, searched from the deepest call level upwards.
func loopAround(li linstr) (*loopInfo, int) {
	for k := len(li.chain); k >= 0; k-- {
		if l := enclosingRangeLoop(li.at(k).Block()); l != nil {
			return l, k
		}
	}
	return nil, -1
}

func (c *Ctx) plainTracer() *tracer { return &tracer{c: c} }

// principalResult: result i of callee when exactly one of its returns yields something other than nil / a zero constant
// / an unwritten local for it, and the result is not the error.
func principalResult(callee *ssa.Function, i int) (ssa.Value, bool) {
	if i >= callee.Signature.Results().Len() || isErrorType(callee.Signature.Results().At(i).Type()) {
		return nil, false
	}
	var principal ssa.Value
	n := 0
	for _, r := range returnsOf(callee) {
		v := retVal(r, i)
		if isNilConst(v) || isUnwrittenLocal(v) {
			continue
		}
		if k, ok := v.(*ssa.Const); ok && k.Value != nil && (k.Value.ExactString() == "0" || k.Value.ExactString() == "false" || k.Value.ExactString() == `""`) {
			continue
		}
		principal = v
		n++
	}
	return principal, n == 1
}

// overwrittenUnless: a store into a field that a later store of the same iteration may overwrite (`x.f = default` followed
// by `if c { x.f = other }`) is the field's final value only when that later store does not run. For a later store with
// exactly one guard beyond the first store's own, the negated guard is returned; nil when nothing overwrites the store,
// ok=false when the overwriting is more involved than that.
func overwrittenUnless(st *ssa.Store, l lval) ([]gcond, bool) {
	fa, ok := st.Addr.(*ssa.FieldAddr)
	if !ok {
		return nil, true
	}
	fn := st.Parent()
	own := guardsOf(st.Block(), l)
	has := func(gs []gcond, g gcond) bool {
		for _, o := range gs {
			if o.cond.v == g.cond.v && o.want == g.want {
				return true
			}
		}
		return false
	}
	loop := innermostLoop(st.Block())
	var out []gcond
	okAll := true
	allInstrs(fn, func(in ssa.Instruction) {
		s2, isSt := in.(*ssa.Store)
		if !isSt || s2 == st {
			return
		}
		fb, isF := s2.Addr.(*ssa.FieldAddr)
		if !isF || fb.Field != fa.Field || !(fb.X == fa.X || sameFieldValue(fb.X, fa.X)) {
			return
		}
		// later in the same iteration: the first store's block strictly dominates the second's and both sit in the same loop
		if s2.Block() == st.Block() {
			after := false
			for _, i2 := range st.Block().Instrs {
				if i2 == ssa.Instruction(st) {
					after = true
				}
				if i2 == ssa.Instruction(s2) && after {
					okAll = false // overwritten unconditionally: the first store is dead
				}
			}
			return
		}
		if !st.Block().Dominates(s2.Block()) {
			return
		}
		if l2 := innermostLoop(s2.Block()); len(l2) != len(loop) || (loop != nil && !loop[s2.Block()]) {
			okAll = false
			return
		}
		var extra []gcond
		for _, g := range guardsOf(s2.Block(), l) {
			if !has(own, g) {
				extra = append(extra, g)
			}
		}
		if len(extra) != 1 {
			okAll = false
			return
		}
		out = append(out, gcond{extra[0].cond, !extra[0].want})
	})
	return out, okAll
}

// bypassReturn: a return of fn that can be reached from its entry without passing through block `must` and without
// taking any of the branch edges `cut` allows to be taken (cut gives, for a branch, the index of the successor edge that
// is a legitimate way round - the event's own text is empty, an earlier step failed - or -1). nil when there is none.
func bypassReturn(fn *ssa.Function, must *ssa.BasicBlock, cut func(iff *ssa.If) int) *ssa.BasicBlock {
	seen := map[*ssa.BasicBlock]bool{must: true}
	var found *ssa.BasicBlock
	var walk func(b *ssa.BasicBlock)
	walk = func(b *ssa.BasicBlock) {
		if seen[b] || found != nil {
			return
		}
		seen[b] = true
		last := b.Instrs[len(b.Instrs)-1]
		if _, isRet := last.(*ssa.Return); isRet {
			found = b
			return
		}
		skip := -1
		if iff, ok := last.(*ssa.If); ok {
			skip = cut(iff)
		}
		for i, s := range b.Succs {
			if i != skip {
				walk(s)
			}
		}
	}
	if len(fn.Blocks) > 0 && fn.Blocks[0] != must {
		walk(fn.Blocks[0])
	}
	return found
}
