package main

// The lexer folded end to end: LexScanner.ScanFunc is driven the way ybase's lexer drives it (one call per token, the
// text read with Next since the last token is the token's text) over a reader modelled here - an array of runes with a
// position - on a corpus of texts, and the token sequence is compared with the checker's own reading of the notation.
// How ScanFunc is written (one function, stages, a table) does not matter to this decision.

import (
	"fmt"
	"go/constant"
	"go/types"
	"os"
	"strings"
	"unicode"

	"golang.org/x/tools/go/ssa"
)

type specToken struct {
	typ  string
	text string
}

// specLex: the notation's tokens, read from the documentation of the text language: white space separates; `;` starts
// a comment to the end of the line; inside `{...}` everything up to one of `{}=,` is one METADATA token; after `_` a
// SYMBOL must follow (a run up to white space or one of `/[_;=`); otherwise single runes C D E F G A B R / [ ] { } = , #
// ♯ b ♭ _ are tokens of their own, a run of ASCII digits is a NUMBER and any other run is a SYMBOL. err reports that the
// scan ended in the `expect symbol` failure.
func specLex(text string) (toks []specToken, failed bool) {
	rs := []rune(text)
	pos := 0
	meta, sym := false, false
	isSym := func(r rune) bool { return !strings.ContainsRune("/[_;=", r) && !unicode.IsSpace(r) }
	isMeta := func(r rune) bool { return !strings.ContainsRune("{}=,", r) }
	run := func(pred func(rune) bool) string {
		start := pos
		for pos < len(rs) && pred(rs[pos]) {
			pos++
		}
		return string(rs[start:pos])
	}
	single := map[rune]string{'C': "SYLLABLE", 'D': "SYLLABLE", 'E': "SYLLABLE", 'F': "SYLLABLE", 'G': "SYLLABLE", 'A': "SYLLABLE", 'B': "SYLLABLE",
		'R': "REST", '/': "SLASH", '[': "LBRA", ']': "RBRA", '{': "LCBRA", '}': "RCBRA", '=': "EQUAL", ',': "COMMA", '#': "SHARP", '♯': "SHARP", 'b': "FLAT", '♭': "FLAT", '_': "UNDERSCORE"}
	for {
		for pos < len(rs) && unicode.IsSpace(rs[pos]) {
			pos++
		}
		if meta && pos < len(rs) && isMeta(rs[pos]) {
			toks = append(toks, specToken{"METADATA", run(isMeta)})
			continue
		}
		if sym {
			if pos < len(rs) && isSym(rs[pos]) {
				toks = append(toks, specToken{"SYMBOL", run(isSym)})
				sym = false
				continue
			}
			return toks, true
		}
		if pos >= len(rs) {
			return toks, false
		}
		r := rs[pos]
		if r == ';' {
			for pos < len(rs) && rs[pos] != '\n' {
				pos++
			}
			continue
		}
		if t, ok := single[r]; ok {
			pos++
			switch r {
			case '{':
				meta = true
			case '}':
				meta = false
			case '_':
				sym = true
			}
			toks = append(toks, specToken{t, string(r)})
			continue
		}
		if r >= '0' && r <= '9' {
			toks = append(toks, specToken{"NUMBER", run(func(x rune) bool { return x >= '0' && x <= '9' })})
			continue
		}
		if isSym(r) {
			toks = append(toks, specToken{"SYMBOL", run(isSym)})
			continue
		}
		return toks, false // a rune no token starts with ends the scan
	}
}

// lexCorpus: texts that between them use every token, both modes, comments in every position, white space of every
// kind, and the runes next to the classes' borders.
func lexCorpus() []string {
	return []string{
		"", " ", "\n\t ", "C", "1[1]", "C[1] D[1/2] R[1,1/4]", "G_7/B[1]", "5_7[1]", "1_7sus4[2]", "Ab_m7b5/Eb[1,1/2]", "C#_dim7[1] D♭_maj7[1] F♯[1] B♭[1]",
		"2m7[1]", "4sus4[1]", "Cm[1]", "Caug/E[1]", "1/3b[1]", "b3_7[1]", "#4dim[1]", "C{key=Am}[1]", "R[1]{key=Am,bpm=120}", "C[1]{txt=hello world, lic=la la}",
		"C[1]{ a = b , c=d }", "C[1]{}", "C[1]{a=}", "C[1]{=b}", "C[1]{a=b}D[1]", "C[1]{a=b=c}", "C[1]{a={b}}", "C[1]{x=1/2[3]_;#}", "{", "}", "{a", "{a=b", "= ,", "C = D",
		"; only a comment", "; a\n; b\nC[1]", "C[1] ; tail", "C[1] ; tail\nD[1]", "C[1];x\n;y\n\n;z\nD[1];", "C_;7[1]", "C_ 7[1]", "C_", "C_/", "C_[1]", "C__7", "C_=", "_7",
		"C{a;b=c}[1]", "C{a=b ; not a comment\n}[1]", "C[1]{a=b}; c\nD[1]", "123", "007[1]", "1٣[1]", "１[1]", "²[1]", "12ab[1]", "ab12[1]", "Cmaj7[1]", "Hm[1]", "c[1]", "r[1]",
		"C\r\nD", "C D", "C D", "C\fD", "C\vD", "C\u0085D", "C​D", "C,D", "[1,1/2,1/4]", "//", "[[]]", "C♮[1]", "C##[1]", "Cbb[1]", "CbbB", "bb", "b", "#",
		"C_;x\n7[1]", "C{;a\nb=c}[1]", "C{a=;b\n}[1]", "C{a=b,;c\nd=e}[1]", "C{a=b};c\n[1]", "C;{\n{a=b}", "C_7;[\n[1]", "_;\n", "{;\n", "{ ; }", "C{a= ;b\n=c}",
		"C[1] \ufffd D[1]", "C\ufffd[1]", "\ufffd", "C_\ufffd[1]", "C{\ufffd=\ufffd}", "C[1] \u00ff D[1]",
		"1[1]]", "C[1]\n", "C[1] x y z", "x/y[z]", "sus4_sus4", "A_7_9", "C_7;c\n_9", "C{a=b}_7", "C_7{a=b}", "R", "RR", "Rx", "xR", "CR", "é[1]", "C_é[1]", "C{é=ü}",
	}
}

func (c *Ctx) lexVerdict() (string, int, bool) {
	if c.lexFold == nil {
		p, n, ok := c.lexByFolding()
		c.lexFold = &foldVerdict{p, n, ok}
	}
	return c.lexFold.problem, c.lexFold.n, c.lexFold.ok
}

// lexByFolding: see the head of this file. ok=false when something does not fold.
func (c *Ctx) lexByFolding() (string, int, bool) {
	fn := c.fn("input/ast", "LexScanner.ScanFunc")
	g, err := c.grammar()
	if fn == nil || err != nil || len(fn.Params) != 2 {
		return "", 0, false
	}
	_, byVal := c.tokenConsts(g)
	debug := os.Getenv("CRDCHECK_DEBUG") != ""
	runeT := types.Typ[types.Rune]
	n := 0
	for _, text := range lexCorpus() {
		want, wantFail := specLex(text)
		rs := []rune(text)
		pos := 0
		var buf []rune
		failed := false // the scanner published an error
		undecided := ""
		fd := c.newFolder()
		fd.maxDepth = 12
		heap := map[*ssa.Alloc]fval{}
		fd.heap = heap
		cell := new(ssa.Alloc)
		publish := fval{native: func(as []fval) (fval, bool) {
			failed = true
			return fval{tuple: []fval{}}, true
		}}
		// the scanner as &LexScanner{} leaves it: every field zero, whatever the fields are; the error callback stands in
		recvFields := map[string]fval{}
		if pt, ok := fn.Params[0].Type().Underlying().(*types.Pointer); ok {
			if st, ok := pt.Elem().Underlying().(*types.Struct); ok {
				for i := 0; i < st.NumFields(); i++ {
					fld := st.Field(i)
					if _, isFunc := fld.Type().Underlying().(*types.Signature); isFunc {
						recvFields[fld.Name()] = publish
						continue
					}
					z := zeroFval(fld.Type())
					if !z.known() {
						return "", 0, false
					}
					recvFields[fld.Name()] = z
				}
			}
		}
		heap[cell] = fval{fields: recvFields}
		recv := fval{addr: &faddr{base: cell}}
		if _, isPtr := fn.Params[0].Type().Underlying().(*types.Pointer); !isPtr {
			return "", 0, false
		}
		peek := func() rune {
			if pos >= len(rs) {
				return -1
			}
			return rs[pos]
		}
		runeV := func(r rune) fval { return fval{k: constant.MakeInt64(int64(r)), t: runeT} }
		unit := fval{tuple: []fval{}}
		fd.invoke = func(call *ssa.Call, args []fval) (fval, bool) {
			switch call.Call.Method.Name() {
			case "Peek":
				return runeV(peek()), true
			case "Next", "Discard":
				r := peek()
				if r >= 0 {
					pos++
					if call.Call.Method.Name() == "Next" {
						buf = append(buf, r)
					}
				}
				return runeV(r), true
			case "NextWhile", "DiscardWhile":
				if len(args) != 1 {
					return top, false
				}
				for steps := 0; ; steps++ {
					r := peek()
					b, err := fd.callValue(args[0], []fval{runeV(r)})
					if err != nil || b.k == nil || b.k.Kind() != constant.Bool || steps > len(rs)+2 {
						undecided = fmt.Sprintf("the run predicate does not fold on %q: %v", r, err)
						return top, false
					}
					if !constant.BoolVal(b.k) {
						break
					}
					if r < 0 {
						undecided = "the run predicate accepts the end of input: the scan never ends"
						return top, false
					}
					pos++
					if call.Call.Method.Name() == "NextWhile" {
						buf = append(buf, r)
					}
				}
				return unit, true
			case "Buffer":
				return fval{k: constant.MakeString(string(buf)), t: types.Typ[types.String]}, true
			case "ResetBuffer":
				buf = nil
				return unit, true
			case "Debugf":
				return unit, true
			case "Err":
				return fval{isNil: true}, true
			case "Errorf":
				failed = true
				return unit, true
			}
			return top, false
		}
		var got []specToken
		for round := 0; round <= len(rs)+2; round++ {
			buf = nil
			fd.steps = 0
			fd.failedCalls = nil
			r, err := fd.foldCallEnv(fn, []fval{recv, top}, nil, heap)
			if err != nil || r.k == nil || r.k.Kind() != constant.Int || undecided != "" || len(fd.failedCalls) > 0 {
				if debug {
					fmt.Fprintf(os.Stderr, "lexByFolding: %q does not fold at rune %d: %v %s %s %v\n", text, pos, err, r.String(), undecided, fd.failedCalls)
				}
				return "", 0, false
			}
			t, _ := constant.Int64Val(r.k)
			if t == -1 || failed {
				break
			}
			name, known := byVal[t]
			if !known {
				name = fmt.Sprint(t)
			}
			got = append(got, specToken{name, string(buf)})
			if known {
				if c.lexProduced == nil {
					c.lexProduced = map[string]bool{}
				}
				c.lexProduced[name] = true
			}
		}
		n++
		show := func(ts []specToken, f bool) string {
			var ss []string
			for _, t := range ts {
				ss = append(ss, fmt.Sprintf("%s(%q)", t.typ, t.text))
			}
			s := strings.Join(ss, " ")
			if f {
				s += " <expect symbol failure>"
			}
			return "[" + s + "]"
		}
		if show(got, failed) != show(want, wantFail) {
			return fmt.Sprintf("the text %q is tokenised as %s, the notation says %s", text, show(got, failed), show(want, wantFail)), n, true
		}
	}
	return "", n, true
}

// callValue calls a function value held in the fold (a function, a closure with its captured values, a bound method).
func (f *folder) callValue(fv fval, args []fval) (fval, error) {
	if fv.native != nil {
		if r, ok := fv.native(args); ok {
			return r, nil
		}
		return top, fmt.Errorf("native function value fails")
	}
	if fv.fn == nil {
		return top, fmt.Errorf("not a known function value")
	}
	target, bind, as := fv.fn, fv.bind, args
	if strings.HasSuffix(target.Name(), "$bound") {
		recv := top
		if len(bind) == 1 {
			recv = bind[0]
		}
		target = unbound(target)
		as = append([]fval{recv}, args...)
		bind = nil
	}
	shared := f.heap
	if bind != nil && fv.heap != nil {
		shared = fv.heap
	}
	return f.foldCallEnv(target, as, bind, shared)
}
