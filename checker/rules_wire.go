package main

// WIRE: data-flow facts of small wiring functions, in a canonical form that is insensitive to identifier
// names, formatting and statement order: parameters are p0, p1, ... (p0 = receiver), locals are var<T>,
// loop indices are i, callees are fully qualified, arithmetic is normalised to affine form. A fact is one
// call / store / map update / return of the function (closures included) rendered that way; the rule
// requires (or forbids) facts. It decides "who is connected to whom", not computed values.

import (
	"fmt"
	"go/constant"
	"go/token"
	"go/types"
	"os"
	"regexp"
	"sort"
	"strings"

	"golang.org/x/tools/go/ssa"
)

func init() {
	register("WIRE", "the small wiring functions connect what the properties say: right operand order, right field, right reference note, right metadata key, every element in order", 40, ruleWire)
	register("NAMEDEGREE", "letter distance: ring C D E F G A B, the second search continues from the first, result = index(y) - index(x) + 1", 2, ruleNameDegree)
}

var wireVocab map[string]bool

// wireVocabulary: the function names the WIRE facts are written in (the functions with a spec of their own and every
// repo function mentioned in a required fact). They stay opaque in descriptions; any other unexported same-package
// helper is looked through, so extracting code into a new helper does not change the facts.
func wireVocabulary() map[string]bool {
	if wireVocab != nil {
		return wireVocab
	}
	wireVocab = map[string]bool{}
	nameRe := regexp.MustCompile(`[A-Za-z0-9_/.]+\.[A-Za-z0-9_]+\(`)
	for _, sp := range wireSpecs {
		wireVocab[sp.pkg+"."+sp.fn] = true
		for _, f := range sp.need {
			for _, h := range f.has {
				for _, m := range nameRe.FindAllString(h, -1) {
					wireVocab[strings.TrimSuffix(m, "(")] = true
				}
			}
		}
	}
	for _, n := range []string{"cmd.getRootNote", "cmd.getScale", "cmd.newChordMap", "cmd.parseTextOneChordSymbol", "cmd.writeYamlOutput"} {
		wireVocab[n] = true
	}
	return wireVocab
}

// facts renders the calls, stores, map updates and returns of fn, its closures and the helpers it looks through.
func (c *Ctx) facts(fn *ssa.Function) []string {
	var out []string
	for _, f := range withClosures(fn) {
		ac := &affCtx{c: c, fn: f, alias: map[ssa.Value]string{}}
		out = append(out, c.factsIn(ac, f)...)
	}
	return out
}

func (c *Ctx) factsIn(ac *affCtx, f *ssa.Function) []string {
	var out []string
	{
		allInstrs(f, func(in ssa.Instruction) {
			switch x := in.(type) {
			case ssa.CallInstruction:
				// a helper that is looked through contributes its own facts, rendered in terms of this function
				if call, ok := x.(*ssa.Call); ok {
					if callee, ok := ac.transparentLoops(call, true); ok {
						out = append(out, c.factsIn(ac.child(callee, call), callee)...)
					}
				}
				var as []string
				if x.Common().IsInvoke() {
					as = append(as, ac.describe(x.Common().Value))
				}
				for _, a := range x.Common().Args {
					as = append(as, ac.argString(a))
				}
				name := calleeName(x.Common())
				if name == "" {
					name, as = renderFuncValueCall(ac.describe(x.Common().Value), as)
				}
				out = append(out, "call "+name+"("+strings.Join(as, ",")+")")
			case *ssa.Store:
				out = append(out, "store "+ac.describe(x.Addr)+" <- "+ac.argString(x.Val))
			case *ssa.MapUpdate:
				out = append(out, "mapupdate ["+ac.describe(x.Key)+"] <- "+ac.describe(x.Value))
			case *ssa.Return:
				if isRecoverBlock(x.Block()) || ac.inlining > 0 {
					return
				}
				var rs []string
				for i := range x.Results {
					rs = append(rs, ac.argString(retVal(x, i)))
				}
				out = append(out, "return "+strings.Join(rs, ";"))
			}
		})
	}
	return out
}

type wireSpec struct {
	pkg, fn string
	need    []wireFact
}

type wireFact struct {
	label string
	has   []string // every string must occur in one and the same fact
	why   string   // what breaks when the fact is missing
}

// wireAlt: an equivalent formulation of the same connection (e.g. append in loop order instead of an indexed store), by obligation key.
var wireAlt = map[string][][]string{
	"desc.Chord.Describe|order": {
		{"call builtin.append(phi", ",[desc.Attribute.Describe(p0.attr,chord.Mapper.GetChordAttributes(p0.mapper,p1)#0[i].Name,p2,p3)#0])"},
		// the resolved attribute handed on as it is instead of being looked up by its name again
		{"[i] <- desc.Attribute.", "(p0.attr,chord.Mapper.GetChordAttributes(p0.mapper,p1)#0[i],p2,p3)#0"},
		// (looked through: the description built in round i - from attribute i, see `each` - is stored at i)
		{"[i] <- var<desc.AttributeInfo>"},
	},
	// ... in which case root and preference reach the spelling of each attribute directly
	"desc.Chord.Describe|each": {{"call note.Note.AddDegree(p2,chord.Mapper.GetChordAttributes(p0.mapper,p1)#0[i].Degree,p3)"}},
	// the generated name: prefix then the number in decimal, by formatting or by concatenation
	"chord.GenerateAttributes|name": {{"store var<chord.Attribute>.Name <- ", "#0++strconv.FormatUint(p0.Value,10)"}},
	// the bass of the cmt text: the bass's own interval, printed by its own printer
	"input.ChordMetaTextMotifier.Modify|bass":   {{"p0.slashSep++note.Degree.String(p1.Chord.Base)"}, {"call note.Degree.String(p1.Chord.Base)"}},
	"astconv.ValuesConverterImpl.Convert|order": {{"call builtin.append(phi", ",[astconv.ValuesConverterImpl.convertValue(p0,p1.Values[i])#0])"}},
	// the scale handed on is what NewScale answered, whichever way the key got there
	"cmd.getScale|scale": {{"return op.NewScale(", ")#0;"}},
}

// wireCount: fact keys that must hold that many times (once for the chord clause, once for the rest clause).
var wireCount = map[string]int{
	"astconv.ASTConverter.Convert|meta":   2,
	"astconv.ASTConverter.Convert|values": 2,
}

// wireOnly: fact keys whose destination may only be written by the stated fact (the prefix selects the stores in question).
var wireOnly = map[string]string{
	"astconv.SyllableChordConverter.convertChordDegree|root-store": "store p1.Degree <- ",
	"astconv.SyllableChordConverter.convertChordDegree|bass-store": "store p1.Base <- ",
	"cmd.newWriteCmdArgsFromInputInstances|chord-store":            "store *.Chord <- ",
}

// syllableConvertSubsumes: the functions whose data-flow facts are implied when Convert is decided on its whole domain.
var syllableConvertSubsumes = map[string]bool{
	"SyllableChordConverter.Convert":            true,
	"SyllableChordConverter.convertChordDegree": true,
	"SyllableChordConverter.getTendency":        true,
	"SyllableChordConverter.newScaleNote":       true,
}

const tokVal = "github.com/berquerant/ybase.Token.Value"

var wireSpecs = []wireSpec{
	// ---- text -> instances
	{"astconv", "ValuesConverterImpl.convertValue", []wireFact{
		{"num", []string{"call note.NewValue(util.ParseUint(" + tokVal + "(p1.Num))#0,"}, "the numerator of a duration is not the number before the slash"},
		{"denom", []string{"call util.ParseUint(" + tokVal + "(p1.Denom))"}, "the denominator of a duration is not the number after the slash"},
	}},
	{"astconv", "ValuesConverterImpl.Convert", []wireFact{
		{"each", []string{"call astconv.ValuesConverterImpl.convertValue(p0,p1.Values[i])"}, "not every duration fraction is converted"},
		{"order", []string{"[i] <- astconv.ValuesConverterImpl.convertValue(p0,p1.Values[i])#0"}, "duration fractions are not stored in their written order"},
	}},
	{"astconv", "MetaConverterImpl.Convert", []wireFact{
		{"pairs", []string{"mapupdate [" + tokVal + "(p1.Data[i].Key)] <- " + tokVal + "(p1.Data[i].Value)"}, "metadata keys and values are swapped or taken from different pairs"},
	}},
	{"astconv", "MetaInstanceModifierImpl.Modify", []wireFact{
		{"bpm", []string{"store p1.BPM <- astconv.MetaInstanceModifierImpl.convertBPM(p0,p2)#0"}, "{bpm=...} does not set the instance's tempo"},
		{"vel", []string{"store p1.Velocity <- astconv.MetaInstanceModifierImpl.convertVelocity(p0,p2)#0"}, "{vel=...} does not set the instance's dynamic"},
		{"mtr", []string{"store p1.Meter <- astconv.MetaInstanceModifierImpl.convertMeter(p0,p2)#0"}, "{mtr=...} does not set the instance's meter"},
		{"key", []string{"store p1.Key <- astconv.MetaInstanceModifierImpl.convertKey(p0,p2)#0"}, "{key=...} does not set the instance's key"},
	}},
	{"astconv", "MetaInstanceModifierImpl.convertBPM", []wireFact{
		{"key", []string{"call op.Meta.Get(p1,\"bpm\")"}, "tempo is not read from the bpm key"},
		{"ctor", []string{"call op.NewBPM(util.ParseUint(op.Meta.Get(p1,\"bpm\"))#0)"}, "the tempo text does not go through the validating constructor"},
	}},
	{"astconv", "MetaInstanceModifierImpl.convertVelocity", []wireFact{
		{"key", []string{"call op.NewDynamicSign(op.Meta.Get(p1,\"vel\"))"}, "the dynamic is not read from the vel key"},
	}},
	{"astconv", "MetaInstanceModifierImpl.convertMeter", []wireFact{
		{"key", []string{"call util.ParseRat(op.Meta.Get(p1,\"mtr\"))"}, "the meter is not read from the mtr key"},
		{"ctor", []string{"call op.NewMeter(util.ParseRat(op.Meta.Get(p1,\"mtr\"))#0.Num,util.ParseRat(op.Meta.Get(p1,\"mtr\"))#0.Denom)"}, "numerator and denominator of {mtr=...} are swapped or not validated"},
	}},
	{"astconv", "MetaInstanceModifierImpl.convertKey", []wireFact{
		{"key", []string{"call op.ParseKey(op.Meta.Get(p1,\"key\"))"}, "the key is not read from the key key"},
	}},
	{"astconv", "SyllableChordConverter.convertChordDegree", []wireFact{
		{"root-ref", []string{"call op.ScaleNote.GetDegree(op.Scale.Tonic(p0.scale),astconv.SyllableChordConverter.newScaleNote(p0,p2)#0,"}, "the root's interval is not measured from the current scale's tonic to the written root"},
		{"root-store", []string{"store p1.Degree <- op.ScaleNote.GetDegree(op.Scale.Tonic(p0.scale),astconv.SyllableChordConverter.newScaleNote(p0,p2)#0,"}, "the root interval is not stored as the chord's degree"},
		{"bass-ref", []string{"call op.ScaleNote.GetDegree(astconv.SyllableChordConverter.newScaleNote(p0,p2)#0,astconv.SyllableChordConverter.newScaleNote(p0,p3.Degree)#0,"}, "the bass interval is not measured from the chord root to the written bass"},
		{"bass-store", []string{"store p1.Base <- op.ScaleNote.GetDegree(astconv.SyllableChordConverter.newScaleNote(p0,p2)#0,astconv.SyllableChordConverter.newScaleNote(p0,p3.Degree)#0,"}, "the bass interval is not stored as the chord's base"},
		{"root-tendency", []string{"(astconv.SyllableChordConverter.getTendency(p0,astconv.SyllableChordConverter.newScaleNote(p0,p2)#0)#0==2))"}, "the root's search order is not chosen by the root's own accidental tendency (sharp)"},
		{"bass-tendency", []string{"(astconv.SyllableChordConverter.getTendency(p0,astconv.SyllableChordConverter.newScaleNote(p0,p3.Degree)#0)#0==2))"}, "the bass's search order is not chosen by the bass's own accidental tendency (sharp)"},
	}},
	{"astconv", "SyllableChordConverter.getTendency", []wireFact{
		{"tendency", []string{"call op.Accidental.Tendency(p0.scale.Notes[op.Scale.GetNoteIndexByName(p0.scale,p1.Name)#0].Accidental,p1.Accidental)"}, "the tendency is not computed from the scale's accidental of that letter (receiver) and the written accidental (argument)"},
	}},
	{"astconv", "SyllableChordConverter.newScaleNote", []wireFact{
		{"letter", []string{"store var<op.ScaleNote>.Name <- note.NewName(" + tokVal + "(p1.Degree))"}, "the note letter is not the written letter"},
		{"accidental", []string{"call op.NewAccidental(input/ast.AccidentalValue(p1.Accidental))"}, "the accidental is not the written accidental"},
	}},
	{"astconv", "SyllableChordConverter.Convert", []wireFact{
		{"symbol", []string{"store var<input.Chord>.Chord <- " + tokVal + "(p1.Symbol.Symbol)"}, "the chord symbol is not the written symbol"},
		{"parts", []string{"call astconv.SyllableChordConverter.convertChordDegree(p0,var<input.Chord>,p1.Degree,p1.Base)"}, "root and bass are not taken from the chord's degree and base"},
	}},
	{"astconv", "DegreeChordConverter.Convert", []wireFact{
		{"degree", []string{"store var<input.Chord>.Degree <- astconv.DegreeChordConverter.convertDegree(p0,p1.Degree)#0"}, "the degree is not converted from the written degree"},
		{"symbol", []string{"store var<input.Chord>.Chord <- " + tokVal + "(p1.Symbol.Symbol)"}, "the chord symbol is not the written symbol"},
		{"base", []string{"store var<input.Chord>.Base <- astconv.DegreeChordConverter.convertDegree(p0,p1.Base.Degree)#0"}, "the bass is not converted from the written bass"},
	}},
	{"astconv", "DegreeChordConverter.convertDegree", []wireFact{
		{"number", []string{"call " + tokVal + "(p1.Degree)"}, "the interval number is not the written number"},
		{"mark", []string{"call input/ast.AccidentalValue(p1.Accidental)"}, "the written accidental is not part of the interval"},
	}},
	{"astconv", "ASTConverter.Convert", []wireFact{
		{"meta", []string{"store var<input.Instance>.Meta <- astconv.MetaConverter.Convert(p0.metaConverter,"}, "the metadata block is not kept in the instance (txt/lic/mrk are lost)"},
		{"values", []string{"store var<input.Instance>.Values <- astconv.ValuesConverter.Convert(p0.valuesConverter,"}, "the durations are not stored in the instance"},
		{"chord", []string{"store var<input.Instance>.Chord <- astconv.ChordConverter.Convert(p0.chordConverter,"}, "the converted chord is not stored in the instance"},
	}},
	// (phrased on Modify, with whatever helper builds the text looked through: generateText today)
	{"input", "ChordMetaTextMotifier.Modify", []wireFact{
		{"root", []string{"[p1.Chord.Degree.Value,note.DegreeName.Coerce(p1.Chord.Degree.Name)"}, "the root is not written as its own number followed by its own mark"},
		{"bass", []string{"p1.Chord.Base])"}, "the bass is not written with its own interval (number and mark of the bass, not of the root)"},
	}},
	{"input/ast", "NewToken", []wireFact{
		{"type", []string{"store var<input/ast.Token>.VType <- github.com/berquerant/ybase.Token.Type(p0)"}, "a tree token loses the lexer's token type: consumers that dispatch on the type (the accidental canonicaliser) see type 0"},
		{"value", []string{"store var<input/ast.Token>.VValue <- github.com/berquerant/ybase.Token.Value(p0)"}, "a tree token does not carry the lexer token's text"},
	}},
	// ---- scale degree search
	{"op", "ScaleNote.GetDegree", []wireFact{
		{"distance", []string{"<- -op.ScaleNote.Semitone(p0)+op.ScaleNote.Semitone(p1)"}, "the pitch distance is not (argument) - (receiver)"},
		{"wrap", []string{"<- var<note.Semitone>+12"}, "a negative pitch distance is not raised by one octave"},
		{"letters", []string{"call note.Name.GetDegree(p0.Name,p1.Name)"}, "the interval number is not the letter distance from the receiver to the argument"},
		{"candidate", []string{"call note.CoerceDegreeName.Degree(p0[i],"}, "candidates are not built from the searched qualities in order"},
		{"hit", []string{"return note.CoerceDegreeName.Degree(p0[i],", "#0;true"}, "the search does not return the candidate whose size matched"},
	}},
	{"op", "ScaleNote.Semitone", []wireFact{{"sum", []string{"return note.Name.Semitone(p0.Name)+op.Accidental.Semitone(p0.Accidental)"}, "a scale note's pitch is not letter + accidental"}}},
	{"op", "Key.Semitone", []wireFact{{"sum", []string{"return note.Accidental.Semitone(op.Accidental.AsNoteAccidental(p0.Accidental))+note.Name.Semitone(p0.Name)"}, "a key's tonic pitch is not letter + accidental"}}},
	{"note", "Note.Semitone", []wireFact{{"sum", []string{"return note.Accidental.Semitone(p0.Accidental)+note.Name.Semitone(p0.Name)"}, "a note's pitch is not letter + accidental"}}},
	{"op", "Scale.Tonic", []wireFact{{"first", []string{"return p0.Notes[0]"}, "the tonic is not the first scale note"}}},
	{"op", "Scale.GetNoteIndexByName", []wireFact{{"index", []string{"return i;nil"}, "the index returned is not the index of the matching letter"}}},
	{"chord", "Attribute.Semitone", []wireFact{
		{"degree", []string{"call note.Degree.Semitone(p0.Degree)"}, "an attribute's size is not its degree's size"},
		{"as-it-is", []string{"return note.Degree.Semitone(p0.Degree)#0;note.Degree.Semitone(p0.Degree)#1"}, "an attribute's size is not handed on as the degree's size (clamped, shifted or replaced on the way: the diminished unison is -1)"},
	}},
	{"op", "AllScales", []wireFact{{"keys", []string{"maps.Keys(op.keySignatures)"}, "the list of scales is not made from the keys of the signature table (every supported key, each once)"}}},
	{"note", "NewDegree", []wireFact{
		{"value", []string{"store var<note.Degree>.Value <- p0"}, "the interval number is not stored"},
		{"name", []string{"store var<note.Degree>.Name <- p1"}, "the interval quality is not stored"},
		{"valid", []string{"call note.Degree.Semitone(var<note.Degree>)"}, "validity is not decided by the size function"},
	}},
	// ---- interval notation
	{"note", "ParseDegree", []wireFact{
		{"contains", []string{"call strings.Contains(p0,p1)"}, "a mark is tried although the text does not contain it"},
		{"trim", []string{"call util.ParseUint(strings.Trim(p0,p1))"}, "the number is not what remains after removing the mark from either end (the degree converter writes the mark after the number: `1#`)"},
		{"bare", []string{"call util.ParseUint(p0)"}, "a text without a mark is not read as a plain number"},
		{"build", []string{"call note.CoerceDegreeName.Degree(phi"}, "the interval is not built from the matched mark's quality and the number"},
		{"invalid", []string{"return nil;note.ErrInvalidDegree"}, "an impossible combination is not an error"},
	}},
	// ---- dictionary
	{"chord", "Map.GetChord", []wireFact{{"lookup", []string{"return p0.chords[p1]#0;p0.chords[p1]#1"}, "chords are not looked up in the chord table"}}},
	{"chord", "Map.GetAttribute", []wireFact{{"lookup", []string{"return p0.attributes[p1]#0;p0.attributes[p1]#1"}, "attributes are not looked up in the attribute table"}}},
	{"chord", "Builder.Build", []wireFact{{"attrs", []string{"mapupdate [p0.attrs[i].Name] <- p0.attrs[i]"}, "attributes are not indexed by their name"}}},
	{"chord", "GenerateAttributes", []wireFact{
		{"name", []string{"call fmt.Sprintf(\"%s%d\""}, "generated attribute names are not <Quality><number>"},
		{"degree", []string{"store var<chord.Attribute>.Degree <- p0"}, "a generated attribute does not carry the generated degree"},
	}},
	// ---- describe
	{"desc", "Attribute.Describe", []wireFact{
		{"lookup", []string{"call chord.Mapper.GetAttribute(p0.mapper,p1)"}, "the attribute is not looked up by the given name"},
		{"apply", []string{"call note.Note.AddDegree(p2,chord.Mapper.GetAttribute(p0.mapper,p1)#0.Degree,p3)"}, "the described note is not root + the attribute's interval with the requested accidental preference"},
		{"applied", []string{".Applied <- note.Note.AddDegree(p2,chord.Mapper.GetAttribute(p0.mapper,p1)#0.Degree,p3)#0"}, "the resulting note is not reported as `applied`"},
		{"octave", []string{".OctaveDiff <- note.Note.AddDegree(p2,chord.Mapper.GetAttribute(p0.mapper,p1)#0.Degree,p3)#1"}, "the octave offset is not reported"},
		{"semitone", []string{".Semitone <- chord.Attribute.Semitone(chord.Mapper.GetAttribute(p0.mapper,p1)#0)#0"}, "the interval size is not reported"},
		{"root", []string{".Root <- p2"}, "the root is not reported"},
	}},
	{"desc", "Chord.Describe", []wireFact{
		{"attrs", []string{"call chord.Mapper.GetChordAttributes(p0.mapper,p1)"}, "the chord's attributes are not resolved for the given symbol"},
		{"each", []string{"call desc.Attribute.Describe(p0.attr,chord.Mapper.GetChordAttributes(p0.mapper,p1)#0[i].Name,p2,p3)"}, "not every attribute is described on the given root with the given preference"},
		{"order", []string{"[i] <- desc.Attribute.Describe(p0.attr,chord.Mapper.GetChordAttributes(p0.mapper,p1)#0[i].Name,p2,p3)#0"}, "attribute descriptions are not listed in the chord's order"},
	}},
	{"desc", "Key.Describe", []wireFact{
		{"scale", []string{".Scale <- p1"}, "the key's scale is not reported"},
		{"triads", []string{".Triads <- op.DiatonicChorderImpl.Triads(op.NewDiatonicChorder(p1))"}, "triads are not the scale's triads"},
		{"sevenths", []string{".Sevenths <- op.DiatonicChorderImpl.Sevenths(op.NewDiatonicChorder(p1))"}, "sevenths are not the scale's seventh chords"},
	}},
	{"op", "DiatonicChorderImpl.Triads", []wireFact{{"names", []string{"call op.DiatonicChorderImpl.generate(p0,op.DiatonicChorderImpl.triadNames(p0))"}, "triads are not generated from the triad name table"}}},
	{"op", "DiatonicChorderImpl.Sevenths", []wireFact{{"names", []string{"call op.DiatonicChorderImpl.generate(p0,op.DiatonicChorderImpl.seventhNames(p0))"}, "sevenths are not generated from the seventh name table"}}},
	// ---- midix controller
	{"midix", "TrackSetController.Add", []wireFact{
		{"route", []string{"call midix.TrackSet.Add(p0.set,midix.TrackNoSelector.Select(p0.selector,p1.Type),p1)"}, "an op is not delivered to the track its own type selects"},
	}},
	{"midix", "NewTrackOp", []wireFact{
		{"delta", []string{".TickDelta <- p0"}, "the op does not carry the given delta"},
		{"type", []string{".Type <- p1"}, "the op does not carry the given routing type"},
		{"func", []string{".Func <- p2"}, "the op does not carry the given event"},
	}},
	{"midix", "NewFixedTrack", []wireFact{{"no", []string{".TrackNo <- p0"}, "the note index is not stored"}}},
	// ---- cmd plumbing
	{"cmd", "getScale", []wireFact{
		{"flag", []string{"call cmd.getKey(p0)"}, "the scale is not taken from --key"},
		{"default", []string{"call op.MustParseKey(\"C\")"}, "the default key is not C"},
		{"scale", []string{"return op.NewScale(phi0<op.Key>)#0;nil"}, "the scale handed on is not the one NewScale builds for the key (a scale looked up somewhere else can be the enharmonic twin's)"},
	}},
	{"cmd", "writeCmdArgs.writeToPlay", []wireFact{
		{"writer", []string{"call midix.NewWriter(960,p0.trackSet,p0.instrument,p0.program)"}, "the MIDI writer is not built from the resolution constant, the track set and the instrument/program flags"},
		{"play", []string{",midix.NewWriter(960,p0.trackSet,p0.instrument,p0.program),p0.instances)"}, "the instances are not played into that writer"},
	}},
	{"cmd", "newWriteCmdArgsFromInputInstances", []wireFact{
		{"chord", []string{"call op.NewChord(p1[i].Chord.Degree,chord.Mapper.GetChord(cmd.newChordMap(p0)#0,p1[i].Chord.Chord)#0,p1[i].Chord.Base)"}, "the played chord is not built from the instance's own degree, looked-up symbol and base"},
		{"chord-store", []string{"store ", ".Chord <- op.NewChord(p1[i].Chord.Degree,chord.Mapper.GetChord(cmd.newChordMap(p0)#0,p1[i].Chord.Chord)#0,p1[i].Chord.Base)"}, "the chord played for an instance is not the one built from that instance's own degree, symbol and base (e.g. it is taken over from the instance before)"},
		{"values", []string{"store ", ".Values <- p1[i].Values"}, "the durations of an instance are not taken over from the input instance"},
		{"bpm", []string{"store ", ".BPM <- p1[i].BPM"}, "the tempo of an instance is not taken over from the input instance"},
		{"velocity", []string{"store ", ".Velocity <- p1[i].Velocity"}, "the dynamic of an instance is not taken over from the input instance"},
		{"meter", []string{"store ", ".Meter <- p1[i].Meter"}, "the meter of an instance is not taken over from the input instance"},
		{"key", []string{"store ", ".Key <- p1[i].Key"}, "the key of an instance is not taken over from the input instance"},
		{"meta", []string{"store ", ".Meta <- p1[i].Meta"}, "the metadata of an instance is not taken over from the input instance"},
	}},
	{"op", "Circle.At", []wireFact{{"member", []string{"return util.Ring.At(p0.r,p1)"}, "a slot of the circle is not handed out as it stands in the ring (a rebuilt member can lose the enharmonic spellings of the slot)"}}},
	{"op", "Circle.All", []wireFact{{"members", []string{"return util.Ring.All(p0.r)"}, "the circle's members are not listed as they stand in the ring"}}},
	{"op", "Circle.Index", []wireFact{{"by-key", []string{"call util.Set.In(op.CircleMember.Keys(util.Ring.At(p0.r,i)),p1)"}, "a key's slot is not found by looking for the key among every spelling of every slot"}}},
	{"cmd", "readFileOrStdinFromArgs", []wireFact{
		{"argument", []string{"call os.Open(p0[0])"}, "the FILE argument is not opened under the name it was given (rewriting it first - making it absolute, cleaning it - also rewrites `-`, which then no longer means standard input)"},
		{"stdin", []string{"call call:p1(os.Stdin)"}, "no argument does not read standard input"},
	}},
	{"input/ast", "NewLexer", []wireFact{
		{"reader", []string{"call github.com/berquerant/ybase.NewReader(p0,"}, "the scanner does not read the text it was given as it is (something rewrites or filters the input before it is tokenised: what a symbol or a metadata text says is no longer what was written)"},
		{"scan", []string{"bound:input/ast.LexScanner.ScanFunc(var<input/ast.LexScanner>)"}, "the scanner is not driven by LexScanner.ScanFunc"},
	}},
	{"cmd", "getKey", []wireFact{{"as-given", []string{"call op.ParseKey(github.com/spf13/pflag.FlagSet.GetString(github.com/spf13/cobra.Command.Flags(p0),\"key\")#0)"}, "--key is not parsed as it was given (re-cased, trimmed or rewritten first: a spelling the parser accepts may not survive that)"}}},
	{"cmd", "getRootNote", []wireFact{{"flag", []string{"call note.ParseNote(github.com/spf13/pflag.FlagSet.GetString(github.com/spf13/cobra.Command.Flags(p0),\"root\")#0)"}, "the --root value is not parsed as it was given (re-cased or rewritten first: `Bb` upper-cased is no note)"}}},
	{"cmd", "newChordMap", []wireFact{{"build", []string{"call chord.Builder.Build("}, "the dictionary is not built (and validated) from the builder"}}},
}

func ruleWire(c *Ctx) {
	// the degree search, decided on its whole domain by folding when it folds
	if fn := c.fn("op", "ScaleNote.GetDegree"); fn != nil {
		if problem, n, ok := c.scaleDegreeByFolding(fn); ok {
			c.site(1)
			c.check(problem == "", "op.ScaleNote.GetDegree|domain", c.pos(fn.Pos()), fname(fn), fmt.Sprintf("%d calls (21 x 21 spellings x both orders) folded: number = letter distance, size = pitch distance, every searched class found", n), fname(fn)+": "+problem)
			c.degreeSearchFolded = true
		}
	}
	// the interval reader, decided on all marks x numbers 1..15 x both positions by folding when it folds
	if fn := c.fn("note", "ParseDegree"); fn != nil {
		if problem, n, ok := c.parseDegreeByFolding(fn); ok {
			c.site(1)
			c.check(problem == "", "note.ParseDegree|domain", c.pos(fn.Pos()), fname(fn), fmt.Sprintf("%d spellings (6 marks x numbers 1..15 x mark first / last) folded: each is read as the interval the notation names, impossible ones are refused", n), fname(fn)+": "+problem)
			c.parseDegreeFolded = true
		}
	}
	// the note-name reader, decided on the property's whole domain (28 keys x 21 roots x 22 basses) by folding when it folds
	if fn := c.fn("astconv", "SyllableChordConverter.Convert"); fn != nil && (c.wants == nil || c.wants("WIRE", "astconv.SyllableChordConverter|domain")) {
		if problem, n, ok := c.syllableConvertByFolding(); ok {
			c.site(1)
			c.check(problem == "", "astconv.SyllableChordConverter|domain", c.pos(fn.Pos()), fname(fn), fmt.Sprintf("%d single chords (28 keys x 21 root spellings x no bass + 21 bass spellings) folded through NewScale and Convert: number = letter distance, size = pitch distance from the tonic (the bass: from the root); the scale's own notes accepted; a written bass never dropped; the symbol kept; the scale left as it was", n), fname(fn)+": "+problem)
			c.syllableConvertFolded = true
		}
	}
	// the degree reader, decided on numbers 1..15 x five accidental spellings x five basses by folding when it folds
	if fn := c.fn("astconv", "DegreeChordConverter.Convert"); fn != nil {
		if problem, n, ok := c.degreeConvertByFolding(); ok {
			c.site(1)
			c.check(problem == "", "astconv.DegreeChordConverter.Convert|domain", c.pos(fn.Pos()), fname(fn), fmt.Sprintf("%d single chords (numbers 1..15 x no mark, #, U+266F, b, U+266D x no bass + 4 basses) folded: the degree and the base are the intervals the notation names, the symbol is kept", n), fname(fn)+": "+problem)
			c.degreeConvertFolded = true
		}
	}
	for _, ws := range wireSpecs {
		fn := c.fn(ws.pkg, ws.fn)
		if (c.syllableConvertFolded && ws.pkg == "astconv" && syllableConvertSubsumes[ws.fn]) || (c.degreeConvertFolded && ws.pkg == "astconv" && (ws.fn == "DegreeChordConverter.Convert" || ws.fn == "DegreeChordConverter.convertDegree")) {
			// how the converter is put together is subsumed by the decision on the whole domain
			for _, nf := range ws.need {
				c.site(1)
				pos, name := "", ws.pkg+"."+ws.fn
				if fn != nil {
					pos, name = c.pos(fn.Pos()), fname(fn)
				}
				c.ok(ws.pkg+"."+ws.fn+"|"+nf.label, pos, name, "decided by the |domain fold of the converter")
			}
			continue
		}
		if fn == nil {
			c.missing(ws.pkg + "." + ws.fn)
			continue
		}
		facts := c.facts(fn)
		for _, nf := range ws.need {
			c.site(1)
			key := ws.pkg + "." + ws.fn + "|" + nf.label
			if ws.pkg == "astconv" && ws.fn == "MetaConverterImpl.Convert" {
				if problem, n, ok := c.metaConvertByFolding(); ok {
					c.check(problem == "", key, c.pos(fn.Pos()), fname(fn), fmt.Sprintf("%d metadata blocks folded: every written key with its own (last) value, nothing else", n), fname(fn)+": "+problem)
					continue
				}
			}
			if ws.pkg == "desc" && (ws.fn == "Attribute.Describe" || ws.fn == "Chord.Describe") {
				if problem, n, ok := c.descPipelineByFolding(); ok {
					c.check(problem == "", key, c.pos(fn.Pos()), fname(fn), fmt.Sprintf("%d descriptions folded from the built-in dictionary to the report (every attribute on 21 roots with both preferences, every chord symbol by name and by display on three roots): size, root, resulting note, octave offset, attributes parent first", n), "info attr / chord describe, folded from the dictionary to the report: "+problem)
					continue
				}
			}
			if ws.pkg == "desc" && ws.fn == "Key.Describe" {
				if problem, n, ok := c.descKeyByFolding(); ok {
					c.check(problem == "", key, c.pos(fn.Pos()), fname(fn), fmt.Sprintf("%d keys folded from NewScale to the report: the scale itself, and the triads and sevenths NewDiatonicChorder answers for it", n), "info key describe, folded from the scale to the report: "+problem)
					continue
				}
			}
			if ws.pkg == "chord" && ws.fn == "Builder.Build" && nf.label == "attrs" && !hasFact(facts, nf.has...) {
				if p, n, ok := c.chordPipelineVerdict(); ok && p == "" {
					c.ok(key, c.pos(fn.Pos()), fname(fn), fmt.Sprintf("decided by APPLY play.Key.Apply|pipeline: %d chords folded through the builder, every attribute found under its name", n))
					continue
				}
			}
			if ws.pkg == "cmd" && ws.fn == "readFileOrStdinFromArgs" {
				if problem, n, ok := c.readArgsByFolding(); ok {
					c.check(problem == "", key, c.pos(fn.Pos()), fname(fn), fmt.Sprintf("%d argument lists folded: a FILE is opened under exactly the name given and handed to the reader, `-`, an empty name and no argument read standard input", n), fname(fn)+": "+problem)
					continue
				}
			}
			if ws.pkg == "op" && strings.HasPrefix(ws.fn, "Circle.") {
				if problem, _, ok := c.circleVerdict(); ok && problem == "" {
					c.ok(key, c.pos(fn.Pos()), fname(fn), "decided by CIRCLEWIRE op.KeyConversionChain.Convert|domain (the conversions folded on the real circle for every key)")
					continue
				}
			}
			if ws.pkg == "chord" && ws.fn == "GenerateAttributes" && c.generateAttributesDecided() {
				c.ok(key, c.pos(fn.Pos()), fname(fn), "decided by TAB-ATTRS chord.GenerateAttributes|folded")
				continue
			}
			if c.parseDegreeFolded && ws.pkg == "note" && ws.fn == "ParseDegree" && (nf.label == "contains" || nf.label == "trim" || nf.label == "bare" || nf.label == "build") {
				c.ok(key, c.pos(fn.Pos()), fname(fn), "decided by note.ParseDegree|domain")
				continue
			}
			if c.degreeSearchFolded && ws.fn == "ScaleNote.GetDegree" && nf.label != "letters" {
				// shape facts of the search are subsumed by the decision on the whole domain
				c.ok(key, c.pos(fn.Pos()), fname(fn), "decided by op.ScaleNote.GetDegree|domain")
				continue
			}
			found := hasFact(facts, nf.has...)
			for _, alt := range wireAlt[key] {
				found = found || hasFact(facts, alt...)
			}
			// some facts hold once per clause of a type switch (chords and rests): counted
			if n, ok := wireCount[key]; ok && found {
				m := 0
				for _, f := range facts {
					if hasFact([]string{f}, nf.has...) {
						m++
					}
				}
				if m < n {
					found = false
					nf.why += fmt.Sprintf(" in every clause (%d of %d: rests are instances too)", m, n)
				}
			}
			// some destinations have one source only: every store into them is the stated one (a shortcut that stores
			// something else on some path - a cached answer, a constant - is not the measurement)
			if only, ok := wireOnly[key]; ok && found {
				for _, f := range facts {
					match := strings.HasPrefix(f, only)
					if pre, suf, star := strings.Cut(only, "*"); star {
						// any destination that ends in the stated field
						dest, _, isStore := strings.Cut(f, " <- ")
						match = isStore && strings.HasPrefix(dest, pre) && strings.HasSuffix(dest+" <- ", suf)
					}
					if match && !hasFact([]string{f}, nf.has...) {
						found = false
						nf.why += " on every path (another store: " + f + ")"
					}
				}
			}
			if !found && key == "op.Key.Semitone|sum" {
				// by value: folded on all 42 key spellings, the tonic's pitch is the letter's plus the accidental's
				names, accs := c.enumConsts("note", "Name"), c.enumConsts("op", "Accidental")
				problem, n := "", 0
				for _, l := range specLetters {
					for an, d := range map[string]int{"Natural": 0, "Sharp": 1, "Flat": -1} {
						for _, minor := range []bool{false, true} {
							recv := fval{fields: map[string]fval{"Name": {k: constant.MakeInt64(names[l])}, "Accidental": {k: constant.MakeInt64(accs[an])}, "Minor": {k: constant.MakeBool(minor)}}}
							r, err := c.newFolder().foldMethod(fn, recv, nil)
							if err != nil || r.k == nil || r.k.Kind() != constant.Int {
								continue
							}
							n++
							if got, _ := constant.Int64Val(r.k); got != int64(specNatural(l)+d) {
								problem = fmt.Sprintf("the tonic of %s %s is %d semitones above C, want %d", l, an, got, specNatural(l)+d)
							}
						}
					}
				}
				if n == 42 {
					c.check(problem == "", key, c.pos(fn.Pos()), fname(fn), "letter + accidental on all 42 key spellings (folded)", fname(fn)+": "+problem)
					continue
				}
			}
			if !found && ws.pkg == "op" && nf.label == "names" && (ws.fn == "DiatonicChorderImpl.Triads" || ws.fn == "DiatonicChorderImpl.Sevenths") {
				// the names the method hands out were read off the method itself (folded for a major and a minor scale)
				tn := map[string]string{"DiatonicChorderImpl.Triads": "triadNames", "DiatonicChorderImpl.Sevenths": "seventhNames"}[ws.fn]
				if _, _, _, err := c.diatonicTables(tn); err == nil && c.diatonicViaAPI[tn] {
					c.ok(key, c.pos(fn.Pos()), fname(fn), "decided by TAB-DIATONIC on the names "+ws.fn+" itself returns")
					continue
				}
			}
			c.check(found, key, c.pos(fn.Pos()), fname(fn), "wired as stated", fmt.Sprintf("%s: %s (expected data-flow fact containing %q not found)", fname(fn), nf.why, strings.Join(nf.has, " ... ")))
		}
	}
	// number readers: a duration / interval text is refused only when the number parser or the validating constructor
	// refuses it (no extra test on the text, which would treat spellings of the same number differently)
	for _, spec := range []struct{ pkg, fn string }{{"astconv", "ValuesConverterImpl.convertValue"}, {"astconv", "DegreeChordConverter.convertDegree"}} {
		fn := c.fn(spec.pkg, spec.fn)
		if fn == nil {
			c.missing(spec.pkg + "." + spec.fn)
			continue
		}
		c.site(1)
		isCalleeError := func(v ssa.Value) bool {
			switch x := v.(type) {
			case *ssa.Extract:
				call, ok := x.Tuple.(*ssa.Call)
				return ok && isErrorType(x.Type()) && c.isRepoCallOrInvoke(call)
			case *ssa.Call:
				return isErrorType(x.Type()) && c.isRepoCallOrInvoke(x) && !strings.HasPrefix(calleeName(&x.Call), "errorx.")
			}
			return false
		}
		problem := ""
		for _, r := range returnsOf(fn) {
			e := retVal(r, len(r.Results)-1)
			if isNilConst(e) {
				continue
			}
			if !dataDependsOn(e, isCalleeError) {
				problem = "an error is returned that does not come from the number parser or a validating constructor (at " + c.pos(r.Pos()) + ")"
			}
		}
		c.check(problem == "", spec.pkg+"."+spec.fn+"|refusals", c.pos(fn.Pos()), fname(fn), "every refusal comes from a callee's verdict", fname(fn)+": "+problem+": the text is refused by an extra test of its own, so two spellings of the same number (leading zeros) are no longer treated alike")
	}
	// the degree search: a degree is only ever returned as found by the search, never made up on a shortcut
	if fn := c.fn("op", "ScaleNote.GetDegree"); fn != nil {
		c.site(1)
		isLetterDistance := func(v ssa.Value) bool {
			call, ok := v.(*ssa.Call)
			return ok && calleeName(&call.Call) == "note.Name.GetDegree"
		}
		isPitch := func(v ssa.Value) bool {
			call, ok := v.(*ssa.Call)
			return ok && calleeName(&call.Call) == "op.ScaleNote.Semitone"
		}
		problem := ""
		n := 0
		for _, r := range returnsOf(fn) {
			if !isNilConst(retVal(r, 1)) {
				continue
			}
			n++
			v := retVal(r, 0)
			if !dataDependsOn(v, isLetterDistance) {
				problem = "a degree is returned that does not depend on the letter distance between the two notes (its number is made up)"
			} else if !dataDependsOn(v, isPitch) {
				problem = "a degree is returned that does not depend on the pitch distance between the two notes (its size is made up)"
			}
		}
		if n == 0 {
			problem = "no successful return"
		}
		c.check(problem == "", "op.ScaleNote.GetDegree|found-only", c.pos(fn.Pos()), fname(fn), fmt.Sprintf("%d successful return(s), each depending on letter distance and pitch distance", n), fname(fn)+": "+problem)
	}
	// adding an interval to a note: the result is always searched from root pitch + interval size
	if fn := c.fn("note", "Note.AddDegree"); fn != nil {
		c.site(1)
		isSize := func(v ssa.Value) bool {
			call, ok := v.(*ssa.Call)
			return ok && calleeName(&call.Call) == "note.Degree.Semitone"
		}
		isRootPitch := func(v ssa.Value) bool {
			call, ok := v.(*ssa.Call)
			return ok && calleeName(&call.Call) == "note.Note.Semitone"
		}
		problem := ""
		n := 0
		for _, r := range returnsOf(fn) {
			// a return that can succeed: nil error, or the verdict of the search it delegates to
			e := retVal(r, len(r.Results)-1)
			if call, isCall := e.(*ssa.Call); isCall && !isNilConst(e) {
				if n := calleeName(&call.Call); strings.HasPrefix(n, "errorx.") || n == "fmt.Errorf" {
					continue
				}
			}
			n++
			v := retVal(r, 0)
			if !dataDependsOn(v, isSize) || !dataDependsOn(v, isRootPitch) {
				problem = "a note is returned that does not depend on root pitch + interval size (a shortcut hands back something else than the searched spelling)"
			}
		}
		if n == 0 {
			problem = "no successful return"
		}
		c.check(problem == "", "note.Note.AddDegree|found-only", c.pos(fn.Pos()), fname(fn), fmt.Sprintf("%d successful return(s), each depending on root pitch and interval size", n), fname(fn)+": "+problem)
	}
	// every setting of a metadata block is looked at whatever else the block holds: in Modify no return is reached past
	// one of the four conversions other than through `no metadata` and a failed conversion
	if fn := c.fn("astconv", "MetaInstanceModifierImpl.Modify"); fn != nil {
		for _, step := range []string{"convertBPM", "convertVelocity", "convertMeter", "convertKey"} {
			for _, rc := range c.regionCalls(fn, nil) {
				if calleeName(rc.call.Common()) != "astconv.MetaInstanceModifierImpl."+step {
					continue
				}
				c.site(1)
				problem := ""
				li := rc.li()
				for k := 0; k <= len(rc.chain); k++ {
					at := li.at(k)
					f := at.Parent()
					if b := bypassReturn(f, at.Block(), func(iff *ssa.If) int {
						if e := errEdgeCut(iff); e >= 0 {
							return e
						}
						// `there is no metadata block`
						cmp, ok := iff.Cond.(*ssa.BinOp)
						if !ok || (cmp.Op != token.EQL && cmp.Op != token.NEQ) || !(isNilConst(cmp.X) || isNilConst(cmp.Y)) {
							return -1
						}
						x := cmp.X
						if isNilConst(x) {
							x = cmp.Y
						}
						if typeName(x.Type()) != "op.Meta" {
							return -1
						}
						if cmp.Op == token.EQL {
							return 0
						}
						return 1
					}); b != nil {
						problem = "a return is reached without " + step + " although there is a metadata block and nothing failed: that setting is dropped when the block also holds something else"
					}
				}
				c.check(problem == "", fname(fn)+"|"+step+"|always", c.pos(rc.call.Pos()), fname(fn), step+" is applied to every metadata block", fname(fn)+": "+problem)
			}
		}
	}
	// a written bass is always converted: in front of the store of the chord's base stand only `is there a bass` and the
	// error tests of the steps before - nothing that looks at what the bass (or the root) is
	if fn := c.fn("astconv", "SyllableChordConverter.convertChordDegree"); fn != nil && c.syllableConvertFolded {
		c.site(1)
		c.ok(fname(fn)+"|bass-always", c.pos(fn.Pos()), fname(fn), "decided by astconv.SyllableChordConverter|domain")
	} else if fn != nil {
		for _, f := range c.regionFuncChainsList(fn) {
			allInstrs(f, func(in ssa.Instruction) {
				st, ok := in.(*ssa.Store)
				if !ok {
					return
				}
				if n, _, ok := fieldName(st.Addr); !ok || n != "Base" || typeName(st.Addr.(*ssa.FieldAddr).X.Type()) != "input.Chord" {
					return
				}
				c.site(1)
				problem := ""
				for _, pc := range pathConds(st.Block()) {
					cmp, isCmp := pc.cond.(*ssa.BinOp)
					if isCmp && (cmp.Op == token.EQL || cmp.Op == token.NEQ) && (isNilConst(cmp.Y) || isNilConst(cmp.X)) {
						continue // presence of the bass, success of an earlier step
					}
					problem = "the bass is converted only under a further condition (`" + pc.cond.String() + "`): some written basses are dropped without a word"
				}
				c.check(problem == "", fname(fn)+"|bass-always", c.pos(st.Pos()), fname(f), "a written bass is always converted", fname(f)+": "+problem)
			})
		}
	}
	// handlers: describe commands pass target / root / accidental preference through
	for f, a := range funcAlias {
		switch a {
		case "cmd.infoCmdAttrDescribe.RunE":
			facts := c.facts(f)
			c.site(1)
			c.check(hasFact(facts, "call desc.Attribute.Describe(", "pflag.FlagSet.GetString(", "\"target\"", "cmd.getRootNote(p0)#0,github.com/spf13/pflag.FlagSet.GetBool(github.com/spf13/cobra.Command.Flags(p0),\"precedeSharp\")#0)"), a+"|describe", c.pos(f.Pos()), a, "-t, -r and -s reach Attribute.Describe", a+": the attribute name (-t), the root (-r) and the sharp preference (-s) are not passed to Describe in that order")
		case "cmd.writeCmdConv.RunE":
			// what `write conv` prints is what `write` would play: every setting a flag can override is copied back into the printed first instance
			facts := c.facts(f)
			for _, fld := range []string{"BPM", "Velocity", "Meter", "Key"} {
				c.site(1)
				c.check(hasFact(facts, "store ", "[0]."+fld+" <- cmd.newWriteCmdArgsFromInputInstances(", ".instances[0]."+fld), a+"|copy-back|"+fld, c.pos(f.Pos()), a, "the resolved "+fld+" of instance 0 is printed", a+": the "+fld+" resolved from the flags is not copied into the printed first instance: `write conv --flag ... | write` plays something else than `write --flag ...`")
			}
		case "cmd.genCmdAttr.RunE":
			// `crd gen attr -d N` generates exactly what the library generates for N (the embedded list is checked against that)
			facts := c.facts(f)
			c.site(1)
			c.check(hasFact(facts, "call chord.GenerateAttributes(github.com/spf13/pflag.FlagSet.GetUint(github.com/spf13/cobra.Command.Flags(p0),\"maxDegree\")#0)"), a+"|max", c.pos(f.Pos()), a, "GenerateAttributes(--maxDegree)", a+": the generator is not called with the --maxDegree value itself: `crd gen attr -d N` no longer reproduces the embedded attribute list")
		case "cmd.infoCmdChordDescribe.RunE":
			facts := c.facts(f)
			c.site(1)
			c.check(hasFact(facts, "call desc.Chord.Describe(", "github.com/spf13/pflag.FlagSet.GetBool(github.com/spf13/cobra.Command.Flags(p0),\"precedeSharp\")#0)"), a+"|describe", c.pos(f.Pos()), a, "symbol, root and -s reach Chord.Describe", a+": the parsed symbol, the root note and the sharp preference (-s) are not passed to Describe")
			c.check(hasFact(facts, "call note.ParseNote(") && hasFact(facts, "call input/ast.AccidentalValue("), a+"|root", c.pos(f.Pos()), a, "root = written letter + accidental", a+": the root is not parsed from the written letter and accidental")
			// ... whenever an accidental is written: only its presence (and the errors of the steps before) decides whether it
			// is appended, not whether the target also carries a chord symbol
			for _, ci := range callsIn(f) {
				if calleeName(ci.Common()) != "input/ast.AccidentalValue" {
					continue
				}
				c.site(1)
				extra := ""
				for _, pc := range pathConds(ci.Block()) {
					cmp, ok := pc.cond.(*ssa.BinOp)
					if ok && (cmp.Op == token.EQL || cmp.Op == token.NEQ) && (isNilConst(cmp.X) || isNilConst(cmp.Y)) {
						x := cmp.X
						if isNilConst(x) {
							x = cmp.Y
						}
						if isErrorType(x.Type()) {
							continue
						}
						if n, _, ok := loadedField(x); ok && n == "Accidental" {
							continue
						}
					}
					extra = "the written accidental is appended to the root only under a further condition (`" + pc.cond.String() + "`): `Bbm7` is described as B m7"
				}
				c.check(extra == "", a+"|root-accidental", c.pos(ci.Pos()), a, "a written accidental always reaches the root", a+": "+extra)
			}
		case "cmd.textCmdConvSyllable.RunE":
			facts := c.facts(f)
			c.site(1)
			c.check(hasFact(facts, "call astconv.NewSyllableASTConverter(cmd.getScale(p0)#0)") || hasFact(facts, "call astconv.NewSyllableASTConverter(up(cmd.getScale(p0)#0))"), a+"|scale", c.pos(f.Pos()), a, "the converter starts in the --key scale", a+": the syllable converter is not created with the scale of --key")
		case "cmd.infoKeyCmdDescribe.RunE":
			facts := c.facts(f)
			c.site(1)
			c.check(hasFact(facts, "call desc.Key.Describe(", "cmd.getScale(p0)#0)"), a+"|scale", c.pos(f.Pos()), a, "describes the --key scale", a+": the key described is not the --key scale")
		case "cmd.infoKeyCmdConv.RunE":
			facts := c.facts(f)
			c.site(1)
			c.check(hasFact(facts, "call op.KeyConversionChain.Convert(", "cmd.getScale(p0)#0.Key)"), a+"|start", c.pos(f.Pos()), a, "the chain starts from the --key key", a+": the conversion chain does not start from the --key key")
			// every letter of the -c text, in order, becomes one conversion step (no rewriting of the chain text)
			c.site(1)
			flagText := regexp.QuoteMeta("github.com/spf13/pflag.FlagSet.GetString(github.com/spf13/cobra.Command.Flags(p0),\"command\")#0")
			stepRe := regexp.MustCompile(`^store .*\[(next\(range\(` + flagText + `\)\)#1|i)\] <- [^ ]*\((next\(range\(` + flagText + `\)\)#2|` + flagText + `\[i\])\)(#0)?$`)
			found := false
			for _, ft := range facts {
				if stepRe.MatchString(ft) {
					found = true
				}
			}
			// every spelling of the result is printed: the print sits in a loop over the whole sorted list and only a
			// failed write leaves the loop early
			c.site(1)
			printed := false
			for _, ff := range withClosures(f) {
				for _, ci := range callsIn(ff) {
					n := calleeName(ci.Common())
					if n != "fmt.Fprintf" && n != "fmt.Fprintln" && n != "fmt.Fprint" {
						continue
					}
					call, ok := ci.(*ssa.Call)
					if !ok || !inLoop(call.Block()) {
						continue
					}
					if c.loopCoversSlice(call.Block()) && (c.errorReturned(call) || len(nonDebugRefs(call)) == 0) {
						printed = true
					}
				}
			}
			c.check(printed, a+"|print-all", c.pos(f.Pos()), a, "every key of the result is printed", a+": the loop that prints the resulting keys does not print all of them (it leaves early without a write error, or does not cover the list): two-spelling results lose a spelling")
			c.check(found, a+"|letters", c.pos(f.Pos()), a, "step i = conversion of letter i of the -c text", a+": the conversion steps are not the letters of the -c text one by one (the text is rewritten or filtered first): chains that cancel or repeat are not carried out step by step")
		}
	}
}

func hasFact(facts []string, subs ...string) bool {
	for _, f := range facts {
		all := true
		for _, s := range subs {
			if !strings.Contains(f, s) {
				all = false
				break
			}
		}
		if all {
			return true
		}
	}
	return false
}

// ---------------------------------------------------------------------------
// NAMEDEGREE

// nameDegreeByFolding decides Name.GetDegree on all 8 x 8 letter pairs by constant folding (works when the letters
// come from an immutable table literal, e.g. slices.Index over a package-level []Name); ok=false when it does not fold.
func (c *Ctx) nameDegreeByFolding(fn *ssa.Function) (problem string, ok bool) {
	enum := c.enumConsts("note", "Name")
	order := []string{"C", "D", "E", "F", "G", "A", "B"}
	pos := map[string]int{}
	for i, n := range order {
		if _, has := enum[n]; !has {
			return "", false
		}
		pos[n] = i
	}
	all := append([]string{"UnknownName"}, order...)
	for _, xn := range all {
		for _, yn := range all {
			r, err := c.newFolder().foldCall(fn, []fval{{k: constant.MakeInt64(enum[xn]), t: fn.Params[0].Type()}, {k: constant.MakeInt64(enum[yn]), t: fn.Params[1].Type()}})
			if err != nil || len(r.tuple) != 2 || r.tuple[0].k == nil || r.tuple[1].k == nil {
				return "", false
			}
			got, _ := constant.Int64Val(r.tuple[0].k)
			gok := constant.BoolVal(r.tuple[1].k)
			wantOK := xn != "UnknownName" && yn != "UnknownName"
			want := int64(0)
			if wantOK {
				want = int64((pos[yn]-pos[xn]+7)%7 + 1)
			}
			if gok != wantOK || (wantOK && got != want) {
				return fmt.Sprintf("GetDegree(%s, %s) folds to (%d, %v), want (%d, %v)", xn, yn, got, gok, want, wantOK), true
			}
		}
	}
	return "", true
}

func ruleNameDegree(c *Ctx) {
	if fn := c.fn("note", "Name.GetDegree"); fn != nil {
		if problem, ok := c.nameDegreeByFolding(fn); ok {
			c.site(2)
			c.ok("note.nameRing", c.pos(fn.Pos()), "", "letter order decided by folding GetDegree on all letter pairs")
			c.check(problem == "", fname(fn), c.pos(fn.Pos()), fname(fn), "letter distance = ((index(y) - index(x)) mod 7) + 1 on all 64 letter pairs (folded)", fname(fn)+": "+problem)
			return
		}
	}
	// ring order
	c.site(1)
	if _, _, names, pos, ok := c.initCall("note", "nameRing"); ok {
		c.check(strings.Join(names, "") == "CDEFGAB", "note.nameRing", c.pos(pos), "", "letter ring C D E F G A B", fmt.Sprintf("the letter ring is %v: letter distances (interval numbers) are wrong", names))
	} else {
		c.undec("note.nameRing", "", "", "initialiser is not MustNewRing(C, D, E, F, G, A, B)")
	}
	fn := c.fn("note", "Name.GetDegree")
	if fn == nil {
		c.missing("note.Name.GetDegree")
		return
	}
	c.site(1)
	name := fname(fn)
	x, y := fn.Params[0], fn.Params[1]
	// which phi is "the index where the ring holds p"?
	searched := func(phi *ssa.Phi) *ssa.Parameter {
		for i, ed := range phi.Edges {
			pred := phi.Block().Preds[i]
			// pred (or its single-predecessor chain) is the true side of `At(ring, ed) == p`
			for _, p := range []*ssa.Parameter{x, y} {
				side, ok := c.branchSide(pred, func(v ssa.Value) bool {
					b, ok := v.(*ssa.BinOp)
					if !ok || b.Op != 39 { // token.EQL
						return false
					}
					call, ok := b.X.(*ssa.Call)
					if !ok || calleeName(&call.Call) != "util.Ring.At" {
						return false
					}
					return b.Y == ssa.Value(p) && call.Call.Args[len(call.Call.Args)-1] == ed
				})
				if ok && side {
					return p
				}
			}
		}
		return nil
	}
	problem := "no return of the form index(y) - index(x) + 1"
	for _, r := range returnsOf(fn) {
		add, ok := stripConv(r.Results[0]).(*ssa.BinOp)
		if !ok || add.Op.String() != "+" {
			continue
		}
		one, okc := constInt(add.Y)
		sub, oks := add.X.(*ssa.BinOp)
		if !okc || one != 1 || !oks || sub.Op.String() != "-" {
			continue
		}
		py, ok1 := sub.X.(*ssa.Phi)
		px, ok2 := sub.Y.(*ssa.Phi)
		if !ok1 || !ok2 {
			continue
		}
		sy, sx := searched(py), searched(px)
		switch {
		case sy == y && sx == x:
			problem = ""
		case sy == x && sx == y:
			problem = "the result is index(x) - index(y) + 1 (operands swapped): descending instead of ascending letter distance"
		default:
			problem = "the subtracted indices are not the ring positions of the two letters"
		}
	}
	// equal letters -> 1; unknown -> false
	if problem == "" {
		facts := c.facts(fn)
		if !hasFact(facts, "return 1;true") || !hasFact(facts, "return 0;false") {
			problem = "equal letters must give 1 and unknown letters must be refused"
		}
	}
	c.check(problem == "", name, c.pos(fn.Pos()), name, "letter distance = index(y) - index(x) + 1, searching y onwards from x", name+": "+problem)
}

// dataDependsOn: some value satisfying pred is among the transitive operands of v (through locals, closures' captured
// variables and the bodies of the closures that are called).
func dataDependsOn(v ssa.Value, pred func(ssa.Value) bool) bool {
	seen := map[ssa.Value]bool{}
	var walk func(x ssa.Value, depth int) bool
	walk = func(x ssa.Value, depth int) bool {
		if x == nil || seen[x] || depth > 40 {
			return false
		}
		seen[x] = true
		if pred(x) {
			return true
		}
		switch y := x.(type) {
		case *ssa.Alloc:
			for _, r := range *y.Referrers() {
				if st, ok := r.(*ssa.Store); ok && st.Addr == ssa.Value(y) && walk(st.Val, depth+1) {
					return true
				}
				// elements / fields written through an address derived from the local (variadic argument lists, struct literals)
				if av, ok := r.(ssa.Value); ok {
					switch r.(type) {
					case *ssa.IndexAddr, *ssa.FieldAddr:
						for _, rr := range *av.Referrers() {
							if st, ok := rr.(*ssa.Store); ok && st.Addr == av && walk(st.Val, depth+1) {
								return true
							}
						}
					}
				}
			}
			return false
		case *ssa.FreeVar:
			// the captured variable: find the binding at the closure's creation
			fn := y.Parent()
			idx := -1
			for i, fv := range fn.FreeVars {
				if fv == y {
					idx = i
				}
			}
			if p := fn.Parent(); p != nil && idx >= 0 {
				found := false
				allInstrs(p, func(in ssa.Instruction) {
					if mc, ok := in.(*ssa.MakeClosure); ok && mc.Fn == ssa.Value(fn) && idx < len(mc.Bindings) {
						if walk(mc.Bindings[idx], depth+1) {
							found = true
						}
					}
				})
				return found
			}
			return false
		case *ssa.Call:
			// the result of a closure depends on what its returns depend on
			if f := funcOfValue(y.Call.Value); f != nil && f.Parent() != nil {
				for _, r := range returnsOf(f) {
					for i := range r.Results {
						if walk(retVal(r, i), depth+1) {
							return true
						}
					}
				}
			}
		}
		if in, ok := x.(ssa.Instruction); ok {
			for _, op := range in.Operands(nil) {
				if *op != nil && walk(*op, depth+1) {
					return true
				}
			}
		}
		return false
	}
	return walk(v, 0)
}

// isRepoCallOrInvoke: the call goes to a function or interface method of the repository.
func (c *Ctx) isRepoCallOrInvoke(call *ssa.Call) bool {
	if call.Call.IsInvoke() {
		return c.isRepoPkgPath(pkgPathOfType(call.Call.Value.Type()))
	}
	callee := staticCallee(&call.Call)
	return callee != nil && c.isRepoFunc(callee)
}

// scaleDegreeByFolding decides op.ScaleNote.GetDegree on its whole input domain - 21 spellings (7 letters x natural,
// sharp, flat) for the reference note and for the written note, both search orders: 882 calls - by folding:
//   - soundness: a degree is returned only with the number given by the letter distance and the size given by the
//     pitch distance (as the code defines it: written minus reference, raised by an octave when negative);
//   - completeness for what the search covers: when one of the searched notation classes (major/perfect, minor or -
//     on perfect numbers - diminished, augmented, doubly augmented, doubly diminished) has that size, it is found.
//
// ok=false when the function does not fold; the facts-based checks then stand alone.
func (c *Ctx) scaleDegreeByFolding(fn *ssa.Function) (string, int, bool) {
	if c.scaleDegreeFold != nil {
		return c.scaleDegreeFold.problem, c.scaleDegreeFold.n, c.scaleDegreeFold.ok
	}
	p, n, ok := c.scaleDegreeByFoldingUncached(fn)
	c.scaleDegreeFold = &foldVerdict{p, n, ok}
	return p, n, ok
}

type foldVerdict struct {
	problem string
	n       int
	ok      bool
}

func (c *Ctx) scaleDegreeByFoldingUncached(fn *ssa.Function) (string, int, bool) {
	names := c.enumConsts("note", "Name")
	accs := c.enumConsts("op", "Accidental")
	dnames := c.enumConsts("note", "DegreeName")
	dnameOf := map[int64]string{}
	for k, v := range dnames {
		dnameOf[v] = k
	}
	accSemi := map[string]int{"Natural": 0, "Sharp": 1, "Flat": -1}
	type sp struct {
		letter, acc string
		li, semi    int
	}
	var all []sp
	for li, l := range specLetters {
		for a, d := range accSemi {
			all = append(all, sp{l, a, li, specNatural(l) + d})
		}
	}
	sort.Slice(all, func(i, j int) bool {
		if all[i].li != all[j].li {
			return all[i].li < all[j].li
		}
		return all[i].acc < all[j].acc
	})
	noteT := func(s sp) map[string]Val {
		return map[string]Val{
			"Name":       &CVal{V: constant.MakeInt64(names[s.letter])},
			"Accidental": &CVal{V: constant.MakeInt64(accs[s.acc])},
		}
	}
	searched := func(number int) []Quality {
		simple := (number-1)%7 + 1
		if simple == 1 || simple == 4 || simple == 5 {
			return []Quality{QPerfect, QDiminished, QAugmented, QDoublyAugmented, QDoublyDiminished}
		}
		return []Quality{QMajor, QMinor, QAugmented, QDoublyAugmented, QDoublyDiminished}
	}
	n := 0
	for _, ref := range all {
		for _, wr := range all {
			for _, sharp := range []bool{false, true} {
				recv := fval{fields: map[string]fval{"Name": {k: constant.MakeInt64(names[ref.letter])}, "Accidental": {k: constant.MakeInt64(accs[ref.acc])}}}
				x := fval{cvptr: &StructV{Fields: noteT(wr)}}
				r, err := c.newFolder().foldCall(fn, []fval{recv, x, {k: constant.MakeBool(sharp)}})
				if err != nil || len(r.tuple) != 2 {
					if os.Getenv("CRDCHECK_DEBUG") != "" {
						fmt.Fprintf(os.Stderr, "scaleDegreeByFolding: %v %v does not fold: %v\n", ref, wr, err)
					}
					return "", 0, false
				}
				n++
				number := (wr.li-ref.li+7)%7 + 1
				size := wr.semi - ref.semi
				if size < 0 {
					size += 12
				}
				var want *Quality
				for _, q := range searched(number) {
					if s, ok := specSize(number, q); ok && s == size {
						qq := q
						want = &qq
					}
				}
				succeeded := r.tuple[1].isNil
				what := fmt.Sprintf("from %s%s to %s%s (sharp order=%v)", ref.letter, accSemi2(ref.acc), wr.letter, accSemi2(wr.acc), sharp)
				if !succeeded {
					if want != nil {
						return fmt.Sprintf("%s: refused, although the %s %d has exactly %d semitones", what, qualityNames[*want], number, size), n, true
					}
					continue
				}
				d := r.tuple[0]
				if d.fields == nil || d.fields["Value"].k == nil || d.fields["Name"].k == nil {
					return "", 0, false
				}
				gv, _ := constant.Int64Val(d.fields["Value"].k)
				gn, _ := constant.Int64Val(d.fields["Name"].k)
				gq, known := degreeNameQuality[dnameOf[gn]]
				gs, valid := 0, false
				if known {
					gs, valid = specSize(int(gv), gq)
				}
				if int(gv) != number || !valid || gs != size {
					return fmt.Sprintf("%s: yields %s %d (%d semitones), but the letters are a %d apart and the pitches %d semitones", what, dnameOf[gn], gv, gs, number, size), n, true
				}
			}
		}
	}
	return "", n, true
}

func accSemi2(a string) string {
	switch a {
	case "Sharp":
		return "#"
	case "Flat":
		return "b"
	}
	return ""
}

// parseDegreeByFolding folds note.ParseDegree on every spelling mark x number (1..15) x position (mark first / mark last)
// and compares the interval read with the notation: "" major/perfect, b minor (diminished on perfect numbers), bb
// diminished, bbb doubly diminished, # augmented, ## doubly augmented; impossible combinations are errors.
// ok=false when the function does not fold.
func (c *Ctx) parseDegreeByFolding(fn *ssa.Function) (string, int, bool) {
	dnames := c.enumConsts("note", "DegreeName")
	dnameOf := map[int64]string{}
	for k, v := range dnames {
		dnameOf[v] = k
	}
	quality := func(mark string, n int) (Quality, bool) {
		simple := (n-1)%7 + 1
		perfect := simple == 1 || simple == 4 || simple == 5
		switch mark {
		case "":
			if perfect {
				return QPerfect, true
			}
			return QMajor, true
		case "b":
			if perfect {
				return QDiminished, true
			}
			return QMinor, true
		case "bb":
			return QDiminished, true
		case "bbb":
			return QDoublyDiminished, true
		case "#":
			return QAugmented, true
		case "##":
			return QDoublyAugmented, true
		}
		return 0, false
	}
	count := 0
	for _, mark := range []string{"", "b", "bb", "bbb", "#", "##"} {
		for n := 1; n <= 15; n++ {
			for _, first := range []bool{true, false} {
				text := fmt.Sprintf("%d%s", n, mark)
				if first {
					text = fmt.Sprintf("%s%d", mark, n)
				}
				r, err := c.newFolder().foldCall(fn, []fval{{k: constant.MakeString(text), t: types.Typ[types.String]}})
				if err != nil || len(r.tuple) != 2 || !(r.tuple[1].isNil || r.tuple[1].nonNil || r.tuple[1].known() == false) {
					if os.Getenv("CRDCHECK_DEBUG") != "" {
						fmt.Fprintf(os.Stderr, "parseDegreeByFolding: %q does not fold: %v %v\n", text, err, r)
					}
					return "", 0, false
				}
				succeeded := r.tuple[1].isNil
				if !succeeded && !r.tuple[1].nonNil && r.tuple[1].known() {
					return "", 0, false
				}
				count++
				q, _ := quality(mark, n)
				_, valid := specSize(n, q)
				if !succeeded {
					// an unknown error value (a package-level sentinel) counts as a refusal
					if valid {
						return fmt.Sprintf("%q is refused, but it denotes the %s %d", text, qualityNames[q], n), count, true
					}
					continue
				}
				d := r.tuple[0]
				if d.fields == nil || d.fields["Value"].k == nil || d.fields["Name"].k == nil {
					return "", 0, false
				}
				gv, _ := constant.Int64Val(d.fields["Value"].k)
				gn, _ := constant.Int64Val(d.fields["Name"].k)
				gq, known := degreeNameQuality[dnameOf[gn]]
				if !valid {
					return fmt.Sprintf("%q is read as %s %d, but that interval does not exist", text, dnameOf[gn], gv), count, true
				}
				if !known || gq != q || int(gv) != n {
					return fmt.Sprintf("%q is read as %s %d, the notation says %s %d", text, dnameOf[gn], gv, qualityNames[q], n), count, true
				}
			}
		}
	}
	return "", count, true
}

// readArgsByFolding decides cmd.readFileOrStdinFromArgs by folding it on argument lists, with os.Open and the reader
// callback standing in: one FILE argument that is not `-` or empty is opened once, under exactly the name given, and what
// was opened is handed to the callback; `-`, an empty name and no argument hand something else (standard input) to the
// callback without opening anything; two arguments are refused without opening anything.
func (c *Ctx) readArgsByFolding() (string, int, bool) {
	if c.readArgsFold != nil {
		return c.readArgsFold.problem, c.readArgsFold.n, c.readArgsFold.ok
	}
	p, n, ok := c.readArgsByFoldingUncached()
	c.readArgsFold = &foldVerdict{p, n, ok}
	return p, n, ok
}

func (c *Ctx) readArgsByFoldingUncached() (string, int, bool) {
	var fn *ssa.Function
	for _, f := range c.srcFuncs() {
		if fname(f) == "cmd.readFileOrStdinFromArgs" {
			fn = f
		}
	}
	if fn == nil || len(fn.Params) != 2 {
		return "", 0, false
	}
	debug := os.Getenv("CRDCHECK_DEBUG") != ""
	strT := types.Typ[types.String]
	n := 0
	for _, args := range [][]string{{"piece.txt"}, {"./a/../b c.TXT"}, {"/abs/Name"}, {"-"}, {""}, {}, {"a", "b"}, {"-", "b"}} {
		fd := c.newFolder()
		fd.maxSteps = 20000
		fd.maxDepth = 10
		var opened []string
		var handed []fval
		const mark = "opened:"
		fd.lib = func(f *ssa.Function, as []fval) (fval, bool) {
			if fname(f) == "os.Open" && len(as) == 1 {
				if as[0].k == nil || as[0].k.Kind() != constant.String {
					opened = append(opened, "?")
				} else {
					opened = append(opened, constant.StringVal(as[0].k))
				}
				name := "?"
				if as[0].k != nil && as[0].k.Kind() == constant.String {
					name = constant.StringVal(as[0].k)
				}
				return fval{tuple: []fval{{k: constant.MakeString(mark + name), t: strT, nonNil: true}, {isNil: true}}}, true
			}
			return top, false
		}
		fd.dyn = func(call *ssa.Call, as []fval) (fval, bool) {
			if len(as) == 1 {
				handed = append(handed, as[0])
				return fval{isNil: true}, true
			}
			return top, false
		}
		l := &ListV{T: types.NewSlice(strT)}
		for _, a := range args {
			l.Elems = append(l.Elems, &CVal{V: constant.MakeString(a), T: strT})
		}
		av := fval{cv: l, t: l.T}
		if len(args) == 0 {
			av = fval{isNil: true, t: l.T}
		}
		r, err := fd.foldCall(fn, []fval{av, top})
		if err != nil || !(r.isNil || r.nonNil) || len(fd.failedCalls) > 0 {
			if debug {
				fmt.Fprintf(os.Stderr, "readArgsByFolding: %q does not fold: %v %s failed=%v\n", args, err, r.String(), fd.failedCalls)
			}
			return "", 0, false
		}
		n++
		what := fmt.Sprintf("with the arguments %q", args)
		switch {
		case len(args) > 1:
			if !r.nonNil || len(opened) > 0 || len(handed) > 0 {
				return what + " the command is not refused before anything is read", n, true
			}
		case len(args) == 1 && args[0] != "-" && args[0] != "":
			if len(opened) != 1 || opened[0] != args[0] {
				return fmt.Sprintf("%s the file opened is %q, not the name given (rewriting it first - making it absolute, cleaning it - also rewrites `-`, which then no longer means standard input)", what, opened), n, true
			}
			if len(handed) != 1 || handed[0].k == nil || handed[0].k.Kind() != constant.String || constant.StringVal(handed[0].k) != mark+args[0] {
				return what + " the opened file is not what the reader is handed", n, true
			}
			if !r.isNil {
				return what + " an error is returned although opening and reading succeeded", n, true
			}
		default:
			if len(opened) != 0 {
				return fmt.Sprintf("%s a file is opened (%q) instead of reading standard input", what, opened), n, true
			}
			if len(handed) != 1 || (handed[0].k != nil && handed[0].k.Kind() == constant.String) {
				return what + " standard input is not what the reader is handed", n, true
			}
		}
	}
	return "", n, true
}
