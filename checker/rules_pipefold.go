package main

import (
	"fmt"
	"go/constant"
	"go/types"
	"math"
	"os"
	"sort"
	"strings"

	"golang.org/x/tools/go/ssa"
)

// pipeEvent: one thing the script asks the writer for, with the time it must land at (ticks from the start of the
// piece), where it must go (the meta track, the fixed track of chord tone i, every track) and what it must be.
type pipeEvent struct {
	abs    int64
	route  string // "meta", "fixed", "all"
	tone   int
	typ    string
	fields map[string]string
}

// writerPipelineByFolding folds a scripted history of writer calls - constructor, set-up events, a tempo, chords of one,
// three and four tones, single and consecutive rests, a key change right after a rest, a text right after a note, a
// trailing rest, Close - for a track count N through NewTrackSetControllerFromTrackNum, NewWriter and MIDIWriter's
// methods (all the repository's own code: the selector, TrackSet.Add, Track.Add, Distribute), reads the ops each track
// holds at the end out of the fold's memory and compares them, track by track and op by op (delta and contents), with a
// model written from the properties: an event lands at its instance's start, meta events live on track 0, tone i of a
// chord on track 0 (one track) or i mod (N-1) + 1, strike and release of a tone on the same track, every track ends at
// the end of the piece, and nothing else is written.
//
// This is one history per track count - it does not replace the path rules (NOTE, PENDING, TRACKADD, SELECT), which speak
// about every history - but it is the behaviour itself, end to end, and does not care how the writer is put together.
func (c *Ctx) writerPipelineByFolding(N int) (string, int, bool) {
	debug := os.Getenv("CRDCHECK_DEBUG") != ""
	fail := func(what string, err error, v fval) (string, int, bool) {
		if debug {
			fmt.Fprintf(os.Stderr, "writerPipelineByFolding(N=%d): %s does not fold: %v %s\n", N, what, err, v.String())
		}
		return "", 0, false
	}
	ctor, nw := c.fn("midix", "NewTrackSetControllerFromTrackNum"), c.fn("midix", "NewWriter")
	if ctor == nil || nw == nil || len(nw.Params) != 4 {
		return "", 0, false
	}
	fd := c.newFolder()
	fd.maxSteps = 400000
	fd.maxDepth = 16
	intV := func(n int64, t types.Type) fval { return fval{k: constant.MakeInt64(n), t: t} }
	cr, err := fd.foldCall(ctor, []fval{intV(int64(N), types.Typ[types.Int])})
	if err != nil || len(cr.tuple) != 2 || !cr.tuple[1].isNil || cr.tuple[0].addr == nil {
		return fail("NewTrackSetControllerFromTrackNum", err, cr)
	}
	heap := fd.heap
	ctl := cr.tuple[0]
	if debug {
		fmt.Fprintf(os.Stderr, "writerPipelineByFolding(N=%d): controller = %s\n", N, fd.describeDeep(ctl, 0))
	}
	fd.steps = 0
	w, err := fd.foldCallEnv(nw, []fval{intV(960, nw.Params[0].Type()), ctl, {k: constant.MakeString("Piano"), t: types.Typ[types.String]}, intV(0, nw.Params[3].Type())}, nil, heap)
	if err != nil || w.addr == nil {
		return fail("NewWriter", err, w)
	}
	// the model
	var want []pipeEvent
	now := int64(0)
	ticks := func(v float64) int64 { return int64(math.Round(960 * v)) }
	meta := func(typ string, fields map[string]string) {
		want = append(want, pipeEvent{abs: now, route: "meta", typ: typ, fields: fields})
	}
	meta("midix.MetaTrackSequenceName", map[string]string{"Text": `"crd"`})
	meta("midix.MetaInstrument", map[string]string{"Text": `"Piano"`})
	meta("midix.ProgramChange", map[string]string{"Channel": "0", "Program": "0"})
	call := func(name string, args ...fval) (fval, bool) {
		m := c.fn("midix", "MIDIWriter."+name)
		if m == nil {
			return top, false
		}
		recv := w
		if _, isPtr := m.Params[0].Type().Underlying().(*types.Pointer); !isPtr {
			recv = fd.deref(w)
		}
		fd.steps = 0
		r, err := fd.foldCallEnv(m, append([]fval{recv}, args...), nil, heap)
		if err != nil {
			if debug {
				fmt.Fprintf(os.Stderr, "writerPipelineByFolding(N=%d): %s does not fold: %v\n", N, name, err)
			}
			return top, false
		}
		return r, true
	}
	u8 := types.Typ[types.Uint8]
	f64 := func(v float64) fval { return fval{k: constant.MakeFloat64(v), t: types.Typ[types.Float64]} }
	refused := ""
	note := func(value float64, vel int64, keys ...int64) bool {
		l := &ListV{T: types.NewSlice(u8)}
		for _, k := range keys {
			l.Elems = append(l.Elems, &CVal{V: constant.MakeInt64(k), T: u8})
		}
		r, ok := call("Note", f64(value), intV(vel, u8), fval{cv: l, t: l.T})
		if ok && r.nonNil {
			if refused == "" {
				refused = fmt.Sprintf("--track %d: Note(%v, %d, %v) is refused: every key from 0 to 127 and every duration is a note", N, value, vel, keys)
			}
			return true
		}
		if !ok || !r.isNil {
			if debug {
				fmt.Fprintf(os.Stderr, "writerPipelineByFolding(N=%d): Note(%v, %v) answers %s (incomplete: %v)\n", N, value, keys, r.String(), fd.incomplete)
			}
			return false
		}
		for i, k := range keys {
			want = append(want, pipeEvent{abs: now, route: "fixed", tone: i, typ: "midix.NoteOn", fields: map[string]string{"Channel": "0", "Key": fmt.Sprint(k), "Velocity": fmt.Sprint(vel)}})
		}
		now += ticks(value)
		for i, k := range keys {
			want = append(want, pipeEvent{abs: now, route: "fixed", tone: i, typ: "midix.NoteOff", fields: map[string]string{"Channel": "0", "Key": fmt.Sprint(k)}})
		}
		return true
	}
	rest := func(value float64) bool {
		_, ok := call("Rest", f64(value))
		now += ticks(value)
		return ok
	}
	okAll := true
	step := func(b bool) { okAll = okAll && b }
	_, ok := call("Tempo", intV(100, types.Typ[types.Int]))
	step(ok)
	meta("midix.MetaTempo", map[string]string{"BPM": "100"})
	step(note(1, 64, 60, 64, 67))
	step(rest(0.5))
	step(rest(0.5))
	_, ok = call("Key", intV(2, u8), fval{k: constant.MakeBool(true), t: types.Typ[types.Bool]}, intV(2, u8), fval{k: constant.MakeBool(false), t: types.Typ[types.Bool]})
	step(ok)
	meta("midix.MetaKey", map[string]string{"Key": "2", "IsMajor": "true", "Num": "2", "IsFlat": "false"})
	step(note(0.5, 80, 62))
	_, ok = call("Text", fval{k: constant.MakeString("x"), t: types.Typ[types.String]})
	step(ok)
	meta("midix.MetaText", map[string]string{"Text": `"x"`})
	_, ok = call("Meter", intV(3, u8), intV(4, u8))
	step(ok)
	meta("midix.MetaMeter", map[string]string{"Num": "3", "Denom": "4"})
	step(note(2, 64, 60, 64, 67, 71))
	step(note(1.0/3, 43, 72, 76))
	step(rest(1.0 / 1200))
	_, ok = call("Lyric", fval{k: constant.MakeString("la"), t: types.Typ[types.String]})
	step(ok)
	meta("midix.MetaLyric", map[string]string{"Text": `"la"`})
	_, ok = call("Marker", fval{k: constant.MakeString("B"), t: types.Typ[types.String]})
	step(ok)
	meta("midix.MetaMarker", map[string]string{"Text": `"B"`})
	step(note(0.25, 106, 48, 60, 64, 67, 70, 74))
	step(rest(0.75))
	_, ok = call("Tempo", intV(57, types.Typ[types.Int]))
	step(ok)
	meta("midix.MetaTempo", map[string]string{"BPM": "57"})
	step(note(1, 64, 65))
	step(note(1.0/4096, 64, 96, 100, 127))
	step(note(0.5, 22, 0, 12))
	step(rest(1))
	_, ok = call("Close")
	step(ok)
	want = append(want, pipeEvent{abs: now, route: "all", typ: "midix.Close", fields: map[string]string{}})
	if !okAll {
		return "", 0, false
	}
	if refused != "" && len(fd.incomplete) == 0 {
		return refused, 0, true
	}
	return c.compareTracks(fd, heap, ctl, N, want, fail)
}

// compareTracks reads the ops every track of the controller holds out of the fold's memory (found by type, not by field
// name) and compares them, track by track and op by op, with the model's events routed to their tracks.
func (c *Ctx) compareTracks(fd *folder, heap map[*ssa.Alloc]fval, ctl fval, N int, want []pipeEvent, fail func(string, error, fval) (string, int, bool)) (string, int, bool) {
	if len(fd.incomplete) > 0 {
		// some call on the way was not followed to its end: what it did to the tracks is not known, nothing is claimed
		return fail("the history (incomplete: "+fd.incomplete[0]+")", nil, top)
	}
	// expected ops per track
	type op struct {
		delta int64
		desc  string
	}
	descOf := func(typ string, fields map[string]string) string {
		var ks []string
		for k := range fields {
			// the tonic byte of a key signature op is not part of the event (smf.MetaKey writes the count and the mode only)
			if k == "Key" && strings.HasSuffix(typ, "MetaKey") {
				continue
			}
			ks = append(ks, k)
		}
		sort.Strings(ks)
		var ss []string
		for _, k := range ks {
			ss = append(ss, k+"="+fields[k])
		}
		return strings.TrimPrefix(typ, "midix.") + "{" + strings.Join(ss, " ") + "}"
	}
	expect := make([][]op, N)
	last := make([]int64, N)
	put := func(tr int, e pipeEvent) {
		expect[tr] = append(expect[tr], op{e.abs - last[tr], descOf(e.typ, e.fields)})
		last[tr] = e.abs
	}
	for _, e := range want {
		switch e.route {
		case "meta":
			put(0, e)
		case "fixed":
			tr := 0
			if N > 1 {
				tr = e.tone%(N-1) + 1
			}
			put(tr, e)
		case "all":
			for tr := 0; tr < N; tr++ {
				put(tr, e)
			}
		}
	}
	// what the tracks hold: found by type, not by field name
	elemsOfType := func(v fval, typeName string) ([]fval, bool) {
		// a field of v (a struct) that is a slice of pointers to typeName
		if v.fields == nil {
			return nil, false
		}
		for _, fv := range v.fields {
			es, ok := fd.sliceElems(fv, heap)
			if !ok || len(es) == 0 {
				continue
			}
			if dt := fd.dynType(es[0]); dt != nil && typeName == typeName && strings.HasSuffix(types.TypeString(dt, nil), typeName) {
				return es, true
			}
		}
		return nil, false
	}
	ptrFieldOfType := func(v fval, typeName string) (fval, bool) {
		for _, fv := range v.fields {
			if dt := fd.dynType(fv); dt != nil && strings.HasSuffix(types.TypeString(dt, nil), typeName) {
				return fv, true
			}
		}
		return top, false
	}
	cv := fd.deref(ctl)
	setPtr, ok := ptrFieldOfType(cv, "midix.TrackSet")
	if !ok {
		return fail("reading the controller's track set", nil, cv)
	}
	tracks, ok := elemsOfType(fd.deref(setPtr), "midix.Track")
	if !ok || len(tracks) != N {
		if ok {
			return fmt.Sprintf("--track %d: the track set holds %d tracks", N, len(tracks)), 0, true
		}
		return fail("reading the track list", nil, fd.deref(setPtr))
	}
	total := 0
	for ti, tp := range tracks {
		tv := fd.deref(tp)
		ops, ok := elemsOfType(tv, "midix.TrackOp")
		if !ok && len(expect[ti]) > 0 {
			return fail(fmt.Sprintf("reading the ops of track %d", ti), nil, tv)
		}
		var got []op
		for _, opp := range ops {
			ov := fd.deref(opp)
			if ov.fields == nil {
				return fail("reading an op", nil, ov)
			}
			var delta int64 = -1
			desc := ""
			for _, fv := range ov.fields {
				if fv.k != nil && fv.k.Kind() == constant.Int && delta < 0 {
					delta, _ = constant.Int64Val(fv.k)
					continue
				}
				if dt := fd.dynType(fv); dt != nil {
					tn := types.TypeString(dt, func(p *types.Package) string { return p.Name() })
					tn = strings.TrimPrefix(tn, "*")
					if tn == "midix.MetaTrack" || tn == "midix.FixedTrack" {
						continue
					}
					fields := map[string]string{}
					for k, x := range fd.deref(fv).fields {
						switch {
						case x.k != nil && x.k.Kind() == constant.Float:
							f, _ := constant.Float64Val(x.k)
							fields[k] = fmt.Sprint(f)
						case x.k != nil:
							fields[k] = x.k.ExactString()
						default:
							fields[k] = x.String()
						}
					}
					desc = descOf(tn, fields)
				}
			}
			if delta < 0 || desc == "" {
				return fail("reading an op", nil, ov)
			}
			got = append(got, op{delta, desc})
		}
		total += len(got)
		for i := 0; i < len(got) || i < len(expect[ti]); i++ {
			switch {
			case i >= len(got):
				return fmt.Sprintf("--track %d, track %d: op %d is missing: want %s after %d ticks", N, ti, i, expect[ti][i].desc, expect[ti][i].delta), total, true
			case i >= len(expect[ti]):
				return fmt.Sprintf("--track %d, track %d: an op too many: %s after %d ticks", N, ti, got[i].desc, got[i].delta), total, true
			case got[i] != expect[ti][i]:
				return fmt.Sprintf("--track %d, track %d, op %d: %s after %d ticks, want %s after %d ticks", N, ti, i, got[i].desc, got[i].delta, expect[ti][i].desc, expect[ti][i].delta), total, true
			}
		}
	}
	return "", total, true
}

// checkWriterPipeline: the scripted history for 1, 2, 3, 4, 5 and 8 tracks.
func (c *Ctx) checkWriterPipeline() {
	if c.pipelineChecked {
		return
	}
	c.pipelineChecked = true
	fn := c.fn("midix", "NewWriter")
	for _, n := range []int{1, 2, 3, 4, 5, 8} {
		problem, events, ok := c.writerPipelineByFolding(n)
		if !ok {
			// the writer does not fold (a construct the folder has no transfer for): nothing is claimed here, the path rules stand
			continue
		}
		c.site(1)
		pos := ""
		if fn != nil {
			pos = c.pos(fn.Pos())
		}
		c.check(problem == "", fmt.Sprintf("midix|pipeline|tracks=%d", n), pos, "midix.MIDIWriter", fmt.Sprintf("a scripted history folded end to end: %d ops on %d track(s), each at its tick, on its track, with its contents", events, n), "the scripted history of writer calls, folded end to end: "+problem)
	}
}

var _ = ssa.Value(nil)

// chordPipelineByFolding folds the way a chord becomes pitches, end to end, on the built-in dictionary: the attributes and
// chords the checker reads from the embedded YAML files are handed to chord.NewBuilder / Attribute / Chord / Build
// (which validates), then for every built-in symbol - by name and by display - play.NewKey(C, map).Apply(op.NewChord(P1,
// chord, nil)) is folded and the note numbers compared with the checker's own resolution of the symbol (parent first,
// sizes from the notation): bass = 48, tones = 60 + size. For four symbols the same is done in all 28 keys on four roots
// with four basses (pitch = 60 + tonic + root + interval, bass an octave lower). ok=false when something does not fold.
func (c *Ctx) chordPipelineVerdict() (string, int, bool) {
	if c.chordPipeFold == nil {
		p, n, ok := c.chordPipelineByFolding()
		c.chordPipeFold = &foldVerdict{p, n, ok}
	}
	return c.chordPipeFold.problem, c.chordPipeFold.n, c.chordPipeFold.ok
}

func (c *Ctx) chordPipelineByFolding() (string, int, bool) {
	debug := os.Getenv("CRDCHECK_DEBUG") != ""
	chords, attrs, okD := c.loadDictionaries()
	nb, addA, addC, build := c.fn("chord", "NewBuilder"), c.fn("chord", "Builder.Attribute"), c.fn("chord", "Builder.Chord"), c.fn("chord", "Builder.Build")
	newKey, apply, newChord := c.fn("play", "NewKey"), c.fn("play", "Key.Apply"), c.fn("op", "NewChord")
	if !okD || nb == nil || addA == nil || addC == nil || build == nil || newKey == nil || apply == nil || newChord == nil {
		return "", 0, false
	}
	fail := func(what string, err error, v fval) (string, int, bool) {
		if debug {
			fmt.Fprintf(os.Stderr, "chordPipelineByFolding: %s does not fold: %v %s\n", what, err, v.String())
		}
		return "", 0, false
	}
	dnames := c.enumConsts("note", "DegreeName")
	nameOfQuality := map[Quality]string{}
	for dn, q := range degreeNameQuality {
		nameOfQuality[q] = dn
	}
	degreeV := func(n int, q Quality) fval {
		return fval{fields: map[string]fval{"Value": {k: constant.MakeInt64(int64(n)), t: types.Typ[types.Uint]}, "Name": {k: constant.MakeInt64(dnames[nameOfQuality[q]])}}}
	}
	strV := func(s string) fval { return fval{k: constant.MakeString(s), t: types.Typ[types.String]} }
	fd := c.newFolder()
	fd.maxSteps = 4000000
	fd.maxDepth = 16
	b, err := fd.foldCall(nb, nil)
	if err != nil || b.addr == nil {
		return fail("NewBuilder", err, b)
	}
	heap := fd.heap
	attrSize := map[string]int{}
	for _, a := range attrs {
		n, q, ok := specParseInterval(a.Degree)
		if !ok {
			return "", 0, false // the dictionary rules report that
		}
		if s, valid := specSize(n, q); valid {
			attrSize[a.Name] = s
		}
		fd.steps = 0
		if _, err := fd.foldCallEnv(addA, []fval{b, {fields: map[string]fval{"Name": strV(a.Name), "Degree": degreeV(n, q)}}}, nil, heap); err != nil {
			return fail("Builder.Attribute", err, top)
		}
	}
	byName := map[string]*yChord{}
	chordV := func(ch *yChord) fval {
		l := &ListV{T: types.NewSlice(types.Typ[types.String])}
		for _, a := range ch.Attributes {
			l.Elems = append(l.Elems, &CVal{V: constant.MakeString(a), T: types.Typ[types.String]})
		}
		at := fval{cv: l, t: l.T}
		if len(ch.Attributes) == 0 {
			at = fval{isNil: true, t: l.T}
		}
		return fval{fields: map[string]fval{"Name": strV(ch.Name), "Meta": {fields: map[string]fval{"Display": strV(ch.Meta.Display)}}, "Attributes": at, "Extends": strV(ch.Extends)}}
	}
	for i := range chords {
		ch := &chords[i]
		byName[ch.Name] = ch
		fd.steps = 0
		if _, err := fd.foldCallEnv(addC, []fval{b, chordV(ch)}, nil, heap); err != nil {
			return fail("Builder.Chord", err, top)
		}
	}
	recvB := b
	if _, isPtr := build.Params[0].Type().Underlying().(*types.Pointer); !isPtr {
		recvB = fd.deref(b)
	}
	fd.steps = 0
	mr, err := fd.foldCallEnv(build, []fval{recvB}, nil, heap)
	if err != nil || len(mr.tuple) != 2 || !(mr.tuple[1].isNil || mr.tuple[1].nonNil) {
		return fail("Builder.Build", err, mr)
	}
	if mr.tuple[1].nonNil {
		return "Builder.Build refuses the built-in dictionary", 0, true
	}
	cmap := mr.tuple[0]
	names := c.enumConsts("note", "Name")
	accs := c.enumConsts("op", "Accidental")
	keyV := func(k SpecKey) fval {
		return fval{fields: map[string]fval{"Name": {k: constant.MakeInt64(names[k.Letter])}, "Accidental": {k: constant.MakeInt64(accs[map[int]string{0: "Natural", 1: "Sharp", -1: "Flat"}[k.Acc]])}, "Minor": {k: constant.MakeBool(k.Minor)}}}
	}
	n := 0
	play := func(k SpecKey, rootN int, rootQ Quality, ch *yChord, lookup string, base *[2]int) (string, bool) {
		fd.steps = 0
		kv, err := fd.foldCallEnv(newKey, []fval{keyV(k), cmap}, nil, heap)
		if err != nil || kv.fields == nil {
			_, _, _ = fail("NewKey", err, kv)
			return "", false
		}
		cv := chordV(ch)
		cv.fields["Name"] = strV(lookup)
		baseArg := fval{isNil: true}
		wantBase := 0
		if base != nil {
			cell := new(ssa.Alloc)
			heap[cell] = degreeV(base[0], Quality(base[1]))
			baseArg = fval{addr: &faddr{base: cell}}
			wantBase, _ = specSize(base[0], Quality(base[1]))
		}
		fd.steps = 0
		oc, err := fd.foldCallEnv(newChord, []fval{degreeV(rootN, rootQ), cv, baseArg}, nil, heap)
		if err != nil || oc.fields == nil {
			_, _, _ = fail("NewChord", err, oc)
			return "", false
		}
		fd.steps = 0
		r, err := fd.foldCallEnv(apply, []fval{kv, oc}, nil, heap)
		if err != nil || len(r.tuple) != 2 || !(r.tuple[1].isNil || r.tuple[1].nonNil) {
			_, _, _ = fail("Key.Apply for "+lookup, err, r)
			return "", false
		}
		if len(fd.incomplete) > 0 {
			_, _, _ = fail("Key.Apply for "+lookup+" (incomplete: "+fd.incomplete[0]+")", nil, top)
			return "", false
		}
		n++
		what := fmt.Sprintf("the chord %q on the %s %d in %s", lookup, qualityNames[rootQ], rootN, k)
		if base != nil {
			what += fmt.Sprintf(" over the %s %d", qualityNames[Quality(base[1])], base[0])
		}
		if r.tuple[1].nonNil {
			return what + " is refused", true
		}
		es, ok := fd.sliceElems(r.tuple[0], heap)
		if !ok {
			_, _, _ = fail("reading the pitches of "+lookup, nil, r.tuple[0])
			return "", false
		}
		sizes, rerr := resolveChord(ch.Name, byName, attrSize, map[string]bool{})
		if rerr != nil {
			return "", false // the dictionary rules report that
		}
		rootSize, _ := specSize(rootN, rootQ)
		tonic := specNatural(k.Letter) + k.Acc
		want := []int64{int64(60 + tonic + rootSize + wantBase - 12)}
		for _, s := range sizes {
			want = append(want, int64(60+tonic+rootSize+s))
		}
		var got []int64
		for _, e := range es {
			if e.k == nil {
				return "", false
			}
			v, _ := constant.Int64Val(e.k)
			got = append(got, v)
		}
		if fmt.Sprint(got) != fmt.Sprint(want) {
			return fmt.Sprintf("%s sounds %v, want %v (bass an octave below the root, then the chord's intervals parent first)", what, got, want), true
		}
		return "", true
	}
	cKey := SpecKey{Letter: "C"}
	for i := range chords {
		ch := &chords[i]
		for _, lookup := range []string{ch.Name, ch.Meta.Display} {
			if lookup == "" && ch.Name != "MajorTriad" {
				continue
			}
			p, ok := play(cKey, 1, QPerfect, ch, lookup, nil)
			if !ok {
				return "", 0, false
			}
			if p != "" {
				return p, n, true
			}
		}
	}
	roots := [][2]int{{1, int(QPerfect)}, {3, int(QMinor)}, {5, int(QPerfect)}, {7, int(QMajor)}}
	basses := []*[2]int{nil, {3, int(QMajor)}, {7, int(QMinor)}, {10, int(QMajor)}}
	for _, ks := range requiredKeys() {
		k := SpecKey{Letter: ks[:1]}
		rest := ks[1:]
		if len(rest) > 0 && rest[len(rest)-1] == 'm' {
			k.Minor = true
			rest = rest[:len(rest)-1]
		}
		switch rest {
		case "#":
			k.Acc = 1
		case "b":
			k.Acc = -1
		}
		for si, sym := range []string{"MajorTriad", "MinorSeventh", "DiminishedSeventh", "DominantThirteenth"} {
			ch, ok := byName[sym]
			if !ok {
				continue
			}
			r, bs := roots[si%len(roots)], basses[si%len(basses)]
			p, ok := play(k, r[0], Quality(r[1]), ch, ch.Name, bs)
			if !ok {
				return "", 0, false
			}
			if p != "" {
				return p, n, true
			}
		}
	}
	return "", n, true
}

// playPipelineByFolding folds `crd write` from the point where the instances and the dictionary are in hand to the ops in
// the tracks: cmd.writeCmdArgs.writeToPlay - midix.NewWriter, play.NewWriter with the command's key factory, the play
// loop (update, writeWhenUpdated, value sum, Key.Apply, Note / Rest, Close), the chord dictionary built and validated by
// the repository's builder, the MIDI writer and its tracks - on a piece of five instances for 1, 2 and 3 tracks: an
// opening chord that carries tempo, meter, key and a text; a rest of two fractions; a chord that changes the key (a slash
// chord on an altered root); a chord with a dynamic, a lyric and a marker; a closing rest. What the tracks hold at the
// end is compared, op by op, with a model written from the properties (C01 pitches, C02 times, C05 the key applies from
// the chord that carries it, C06 the same music for every track count, C07 settings at their instance's start with their
// values, C08 meta events on track 0 and every track closed at the end).
func (c *Ctx) playPipelineVerdict(N int) (string, int, bool) {
	if c.playPipeFold == nil {
		c.playPipeFold = map[int]*foldVerdict{}
	}
	if v, ok := c.playPipeFold[N]; ok {
		return v.problem, v.n, v.ok
	}
	p, n, ok := c.playPipelineByFolding(N)
	c.playPipeFold[N] = &foldVerdict{p, n, ok}
	return p, n, ok
}

func (c *Ctx) playPipelineByFolding(N int) (string, int, bool) {
	debug := os.Getenv("CRDCHECK_DEBUG") != ""
	fail := func(what string, err error, v fval) (string, int, bool) {
		if debug {
			fmt.Fprintf(os.Stderr, "playPipelineByFolding(N=%d): %s does not fold: %v %s\n", N, what, err, v.String())
		}
		return "", 0, false
	}
	var wtp *ssa.Function
	for _, f := range c.srcFuncs() {
		if fname(f) == "cmd.writeCmdArgs.writeToPlay" {
			wtp = f
		}
	}
	ctor := c.fn("midix", "NewTrackSetControllerFromTrackNum")
	chords, attrs, okD := c.loadDictionaries()
	nb, addA, addC, build := c.fn("chord", "NewBuilder"), c.fn("chord", "Builder.Attribute"), c.fn("chord", "Builder.Chord"), c.fn("chord", "Builder.Build")
	if wtp == nil || ctor == nil || !okD || nb == nil || addA == nil || addC == nil || build == nil || len(wtp.Params) != 1 {
		return "", 0, false
	}
	dnames := c.enumConsts("note", "DegreeName")
	names := c.enumConsts("note", "Name")
	accs := c.enumConsts("op", "Accidental")
	dyn := c.enumConsts("op", "DynamicSign")
	nameOfQuality := map[Quality]string{}
	for dn, q := range degreeNameQuality {
		nameOfQuality[q] = dn
	}
	intV := func(n int64, t types.Type) fval { return fval{k: constant.MakeInt64(n), t: t} }
	strV := func(s string) fval { return fval{k: constant.MakeString(s), t: types.Typ[types.String]} }
	degreeV := func(n int, q Quality) fval {
		return fval{fields: map[string]fval{"Value": intV(int64(n), types.Typ[types.Uint]), "Name": {k: constant.MakeInt64(dnames[nameOfQuality[q]])}}}
	}
	fd := c.newFolder()
	fd.maxSteps = 4000000
	fd.maxDepth = 20
	b, err := fd.foldCall(nb, nil)
	if err != nil || b.addr == nil {
		return fail("NewBuilder", err, b)
	}
	heap := fd.heap
	cellOf := func(v fval) fval {
		cell := new(ssa.Alloc)
		heap[cell] = v
		return fval{addr: &faddr{base: cell}}
	}
	attrSize := map[string]int{}
	for _, a := range attrs {
		n, q, ok := specParseInterval(a.Degree)
		if !ok {
			return "", 0, false
		}
		if s, valid := specSize(n, q); valid {
			attrSize[a.Name] = s
		}
		fd.steps = 0
		if _, err := fd.foldCallEnv(addA, []fval{b, {fields: map[string]fval{"Name": strV(a.Name), "Degree": degreeV(n, q)}}}, nil, heap); err != nil {
			return fail("Builder.Attribute", err, top)
		}
	}
	byName := map[string]*yChord{}
	chordV := func(ch *yChord) fval {
		l := &ListV{T: types.NewSlice(types.Typ[types.String])}
		for _, a := range ch.Attributes {
			l.Elems = append(l.Elems, &CVal{V: constant.MakeString(a), T: types.Typ[types.String]})
		}
		at := fval{cv: l, t: l.T}
		if len(ch.Attributes) == 0 {
			at = fval{isNil: true, t: l.T}
		}
		return fval{fields: map[string]fval{"Name": strV(ch.Name), "Meta": {fields: map[string]fval{"Display": strV(ch.Meta.Display)}}, "Attributes": at, "Extends": strV(ch.Extends)}}
	}
	for i := range chords {
		ch := &chords[i]
		byName[ch.Name] = ch
		fd.steps = 0
		if _, err := fd.foldCallEnv(addC, []fval{b, chordV(ch)}, nil, heap); err != nil {
			return fail("Builder.Chord", err, top)
		}
	}
	recvB := b
	if _, isPtr := build.Params[0].Type().Underlying().(*types.Pointer); !isPtr {
		recvB = fd.deref(b)
	}
	fd.steps = 0
	mr, err := fd.foldCallEnv(build, []fval{recvB}, nil, heap)
	if err != nil || len(mr.tuple) != 2 || !mr.tuple[1].isNil {
		return fail("Builder.Build", err, mr)
	}
	cmap := mr.tuple[0]
	fd.steps = 0
	cr, err := fd.foldCallEnv(ctor, []fval{intV(int64(N), types.Typ[types.Int])}, nil, heap)
	if err != nil || len(cr.tuple) != 2 || !cr.tuple[1].isNil || cr.tuple[0].addr == nil {
		return fail("NewTrackSetControllerFromTrackNum", err, cr)
	}
	ctl := cr.tuple[0]
	// the piece
	type inst struct {
		values   [][2]int64
		bpm      int64
		meter    *[2]int64
		key      *SpecKey
		velocity string
		meta     [][2]string
		symbol   string // "" with root 0: a rest
		root     [2]int
		base     *[2]int
	}
	piece := []inst{
		{values: [][2]int64{{1, 1}}, bpm: 90, meter: &[2]int64{3, 4}, key: &SpecKey{Letter: "D"}, meta: [][2]string{{"txt", "intro"}}, symbol: "MajorTriad", root: [2]int{1, int(QPerfect)}},
		{values: [][2]int64{{1, 2}, {1, 2}}},
		{values: [][2]int64{{2, 1}}, key: &SpecKey{Letter: "E", Acc: -1}, symbol: "DominantSeventh", root: [2]int{5, int(QPerfect)}, base: &[2]int{3, int(QMajor)}},
		{values: [][2]int64{{1, 1}, {1, 3}}, velocity: "Fortissimo", meta: [][2]string{{"lic", "la"}, {"mrk", "B"}, {"key", "F#m"}, {"bpm", "33"}, {"vel", "pp"}, {"mtr", "7/8"}}, symbol: "MinorSeventh", root: [2]int{2, int(QMajor)}},
		{values: [][2]int64{{3, 4}}, bpm: 57},
		{values: [][2]int64{{1, 1}}, symbol: aliasOr(byName, "MajorSeventhAlias1", "MajorTriad"), root: [2]int{3, int(QMinor)}},
		{values: [][2]int64{{1, 2}}, key: &SpecKey{Letter: "B"}, symbol: "MinorSeventh", root: [2]int{7, int(QMajor)}, base: &[2]int{12, int(QPerfect)}},
		{values: [][2]int64{{1, 4}}, key: &SpecKey{Letter: "C", Acc: -1}, symbol: "MajorTriad", root: [2]int{1, int(QPerfect)}},
		{values: [][2]int64{{1, 4}}, key: &SpecKey{Letter: "E", Acc: -1, Minor: true}, symbol: "MinorSeventh", root: [2]int{1, int(QPerfect)}},
		// back to the key the piece opened in (a signature that was written before is written again), on a rest
		{values: [][2]int64{{1, 1}}, key: &SpecKey{Letter: "D"}},
	}
	keyV := func(k SpecKey) fval {
		return fval{fields: map[string]fval{"Name": {k: constant.MakeInt64(names[k.Letter])}, "Accidental": {k: constant.MakeInt64(accs[map[int]string{0: "Natural", 1: "Sharp", -1: "Flat"}[k.Acc]])}, "Minor": {k: constant.MakeBool(k.Minor)}}}
	}
	uintT := types.Typ[types.Uint]
	instFields := map[string]fval{}
	for i, in := range piece {
		vl := &ListV{}
		for _, v := range in.values {
			vl.Elems = append(vl.Elems, &StructV{Fields: map[string]Val{"Rat": &StructV{Fields: map[string]Val{"Num": &CVal{V: constant.MakeInt64(v[0]), T: uintT}, "Denom": &CVal{V: constant.MakeInt64(v[1]), T: uintT}}, Order: []string{"Num", "Denom"}}}, Order: []string{"Rat"}})
		}
		f := map[string]fval{"Values": {cv: vl}, "BPM": {isNil: true}, "Velocity": {isNil: true}, "Meter": {isNil: true}, "Key": {isNil: true}, "Meta": {isNil: true}, "Chord": {isNil: true}}
		if in.bpm != 0 {
			f["BPM"] = cellOf(intV(in.bpm, uintT))
		}
		if in.meter != nil {
			f["Meter"] = cellOf(fval{fields: map[string]fval{"Rat": {fields: map[string]fval{"Num": intV(in.meter[0], uintT), "Denom": intV(in.meter[1], uintT)}}}})
		}
		if in.key != nil {
			f["Key"] = cellOf(keyV(*in.key))
		}
		if in.velocity != "" {
			f["Velocity"] = cellOf(fval{k: constant.MakeInt64(dyn[in.velocity])})
		}
		if in.meta != nil {
			mv := &MapV{}
			for _, kv := range in.meta {
				mv.Entries = append(mv.Entries, KV{K: &CVal{V: constant.MakeString(kv[0]), T: types.Typ[types.String]}, V: &CVal{V: constant.MakeString(kv[1]), T: types.Typ[types.String]}})
			}
			f["Meta"] = cellOf(fval{cv: mv})
		}
		if in.symbol != "" {
			ch, ok := byName[in.symbol]
			if !ok {
				return "", 0, false
			}
			cf := map[string]fval{"Degree": degreeV(in.root[0], Quality(in.root[1])), "Chord": chordV(ch), "Base": degreeV(1, QPerfect)}
			if in.base != nil {
				cf["Base"] = degreeV(in.base[0], Quality(in.base[1]))
			}
			f["Chord"] = cellOf(fval{fields: cf})
		}
		instFields[fmt.Sprintf("#%d", i)] = fval{fields: f}
	}
	icell := new(ssa.Alloc)
	heap[icell] = fval{fields: instFields}
	recv := fval{fields: map[string]fval{"cmap": cmap, "instances": {sl: &fslice{base: icell, n: len(piece)}}, "trackSet": ctl, "instrument": strV("Piano"), "program": intV(0, types.Typ[types.Uint8])}}
	if _, isPtr := wtp.Params[0].Type().Underlying().(*types.Pointer); isPtr {
		recv = cellOf(recv)
	}
	fd.steps = 0
	wr, err := fd.foldCallEnv(wtp, []fval{recv}, nil, heap)
	if err != nil || len(wr.tuple) != 2 || !(wr.tuple[1].isNil || wr.tuple[1].nonNil) {
		return fail("writeToPlay", err, wr)
	}
	if len(fd.incomplete) > 0 {
		// a call that may have written the fold's memory was not followed: nothing is claimed
		return fail("writeToPlay (incomplete: "+fd.incomplete[0]+")", nil, wr)
	}
	if wr.tuple[1].nonNil {
		return fmt.Sprintf("--track %d: the piece is refused", N), 0, true
	}
	// the model
	var want []pipeEvent
	now := int64(0)
	meta := func(typ string, fields map[string]string) {
		want = append(want, pipeEvent{abs: now, route: "meta", typ: typ, fields: fields})
	}
	meta("midix.MetaTrackSequenceName", map[string]string{"Text": `"crd"`})
	meta("midix.MetaInstrument", map[string]string{"Text": `"Piano"`})
	meta("midix.ProgramChange", map[string]string{"Channel": "0", "Program": "0"})
	velocityOf := map[string]int64{"Pianissimo": 22, "Piano": 43, "MezzoPiano": 64, "MezzoForte": 85, "Forte": 106, "Fortissimo": 127}
	cur := struct {
		bpm      int64
		meter    [2]int64
		key      SpecKey
		velocity string
	}{100, [2]int64{4, 4}, SpecKey{Letter: "C"}, "MezzoPiano"}
	for i, in := range piece {
		first := i == 0
		if in.bpm != 0 {
			cur.bpm = in.bpm
		}
		if in.meter != nil {
			cur.meter = *in.meter
		}
		if in.key != nil {
			cur.key = *in.key
		}
		if in.velocity != "" {
			cur.velocity = in.velocity
		}
		if first || in.bpm != 0 {
			meta("midix.MetaTempo", map[string]string{"BPM": fmt.Sprint(cur.bpm)})
		}
		if first || in.meter != nil {
			meta("midix.MetaMeter", map[string]string{"Num": fmt.Sprint(cur.meter[0]), "Denom": fmt.Sprint(cur.meter[1])})
		}
		if first || in.key != nil {
			sc, err := specScale(cur.key)
			if err != nil {
				return "", 0, false
			}
			n := sc.Sig
			if n < 0 {
				n = -n
			}
			meta("midix.MetaKey", map[string]string{"Key": fmt.Sprint(((specNatural(cur.key.Letter)+cur.key.Acc)%12 + 12) % 12), "IsMajor": fmt.Sprint(!cur.key.Minor), "Num": fmt.Sprint(n), "IsFlat": fmt.Sprint(sc.Sig < 0)})
		}
		for _, kind := range [][2]string{{"txt", "midix.MetaText"}, {"lic", "midix.MetaLyric"}, {"mrk", "midix.MetaMarker"}} {
			for _, kv := range in.meta {
				if kv[0] == kind[0] && kv[1] != "" {
					meta(kind[1], map[string]string{"Text": fmt.Sprintf("%q", kv[1])})
				}
			}
		}
		value := 0.0
		for _, v := range in.values {
			value += float64(v[0]) / float64(v[1])
		}
		dur := int64(math.Round(960 * value))
		if in.symbol == "" {
			now += dur
			continue
		}
		sizes, rerr := resolveChord(in.symbol, byName, attrSize, map[string]bool{})
		if rerr != nil {
			return "", 0, false
		}
		rootSize, _ := specSize(in.root[0], Quality(in.root[1]))
		baseSize := 0
		if in.base != nil {
			baseSize, _ = specSize(in.base[0], Quality(in.base[1]))
		}
		tonic := specNatural(cur.key.Letter) + cur.key.Acc
		keys := []int64{int64(60 + tonic + rootSize + baseSize - 12)}
		for _, s := range sizes {
			keys = append(keys, int64(60+tonic+rootSize+s))
		}
		for ti, k := range keys {
			want = append(want, pipeEvent{abs: now, route: "fixed", tone: ti, typ: "midix.NoteOn", fields: map[string]string{"Channel": "0", "Key": fmt.Sprint(k), "Velocity": fmt.Sprint(velocityOf[cur.velocity])}})
		}
		now += dur
		for ti, k := range keys {
			want = append(want, pipeEvent{abs: now, route: "fixed", tone: ti, typ: "midix.NoteOff", fields: map[string]string{"Channel": "0", "Key": fmt.Sprint(k)}})
		}
	}
	want = append(want, pipeEvent{abs: now, route: "all", typ: "midix.Close", fields: map[string]string{}})
	return c.compareTracks(fd, heap, ctl, N, want, fail)
}

// aliasOr: the name of a built-in chord that has no attributes of its own (everything through extends) when the
// dictionary has it, else the fallback.
func aliasOr(byName map[string]*yChord, alias, fallback string) string {
	if ch, ok := byName[alias]; ok && len(ch.Attributes) == 0 && ch.Extends != "" {
		return alias
	}
	for n, ch := range byName {
		if len(ch.Attributes) == 0 && ch.Extends != "" && n < alias {
			alias = n
		}
	}
	if ch, ok := byName[alias]; ok && len(ch.Attributes) == 0 && ch.Extends != "" {
		return alias
	}
	return fallback
}

// descPipelineByFolding folds `crd info attr describe` and `crd info chord describe` from the dictionary to the report:
// the built-in attributes and chords go through chord.NewBuilder / Attribute / Chord / Build, then desc.NewAttribute(map)
// .Describe(name, root, preference) is folded for every attribute on all 21 root spellings with both preferences, and
// desc.NewChord(map, attr).Describe(symbol, root, preference) for every symbol, by name and by display, on three roots:
// the reported size is the interval's, the reported note is root + interval spelled natural when possible and otherwise
// with the requested accidental, the octave offset is floor((root + size) / 12), the root is reported as given, a chord
// lists its attributes parent first, and an unknown name is refused. ok=false when something does not fold.
func (c *Ctx) descPipelineByFolding() (string, int, bool) {
	if c.descFold != nil {
		return c.descFold.problem, c.descFold.n, c.descFold.ok
	}
	p, n, ok := c.descPipelineByFoldingUncached()
	c.descFold = &foldVerdict{p, n, ok}
	return p, n, ok
}

func (c *Ctx) descPipelineByFoldingUncached() (string, int, bool) {
	debug := os.Getenv("CRDCHECK_DEBUG") != ""
	chords, attrs, okD := c.loadDictionaries()
	nb, addA, addC, build := c.fn("chord", "NewBuilder"), c.fn("chord", "Builder.Attribute"), c.fn("chord", "Builder.Chord"), c.fn("chord", "Builder.Build")
	na, nc, ad, cd := c.fn("desc", "NewAttribute"), c.fn("desc", "NewChord"), c.fn("desc", "Attribute.Describe"), c.fn("desc", "Chord.Describe")
	if !okD || nb == nil || addA == nil || addC == nil || build == nil || na == nil || nc == nil || ad == nil || cd == nil || len(ad.Params) != 4 || len(cd.Params) != 4 {
		return "", 0, false
	}
	fail := func(what string, err error, v fval) (string, int, bool) {
		if debug {
			fmt.Fprintf(os.Stderr, "descPipelineByFolding: %s does not fold: %v %s\n", what, err, v.String())
		}
		return "", 0, false
	}
	dnames := c.enumConsts("note", "DegreeName")
	names := c.enumConsts("note", "Name")
	accs := c.enumConsts("note", "Accidental")
	nameOf, accOf := map[int64]string{}, map[int64]string{}
	for k, v := range names {
		nameOf[v] = k
	}
	for k, v := range accs {
		accOf[v] = k
	}
	nameOfQuality := map[Quality]string{}
	for dn, q := range degreeNameQuality {
		nameOfQuality[q] = dn
	}
	degreeV := func(n int, q Quality) fval {
		return fval{fields: map[string]fval{"Value": {k: constant.MakeInt64(int64(n)), t: types.Typ[types.Uint]}, "Name": {k: constant.MakeInt64(dnames[nameOfQuality[q]])}}}
	}
	strV := func(s string) fval { return fval{k: constant.MakeString(s), t: types.Typ[types.String]} }
	fd := c.newFolder()
	fd.maxSteps = 4000000
	fd.maxDepth = 16
	b, err := fd.foldCall(nb, nil)
	if err != nil || b.addr == nil {
		return fail("NewBuilder", err, b)
	}
	heap := fd.heap
	attrSize := map[string]int{}
	for _, a := range attrs {
		n, q, ok := specParseInterval(a.Degree)
		if !ok {
			return "", 0, false // the dictionary rules report that
		}
		if s, valid := specSize(n, q); valid {
			attrSize[a.Name] = s
		}
		fd.steps = 0
		if _, err := fd.foldCallEnv(addA, []fval{b, {fields: map[string]fval{"Name": strV(a.Name), "Degree": degreeV(n, q)}}}, nil, heap); err != nil {
			return fail("Builder.Attribute", err, top)
		}
	}
	byName := map[string]*yChord{}
	for i := range chords {
		ch := &chords[i]
		byName[ch.Name] = ch
		l := &ListV{T: types.NewSlice(types.Typ[types.String])}
		for _, a := range ch.Attributes {
			l.Elems = append(l.Elems, &CVal{V: constant.MakeString(a), T: types.Typ[types.String]})
		}
		at := fval{cv: l, t: l.T}
		if len(ch.Attributes) == 0 {
			at = fval{isNil: true, t: l.T}
		}
		cv := fval{fields: map[string]fval{"Name": strV(ch.Name), "Meta": {fields: map[string]fval{"Display": strV(ch.Meta.Display)}}, "Attributes": at, "Extends": strV(ch.Extends)}}
		fd.steps = 0
		if _, err := fd.foldCallEnv(addC, []fval{b, cv}, nil, heap); err != nil {
			return fail("Builder.Chord", err, top)
		}
	}
	recvB := b
	if _, isPtr := build.Params[0].Type().Underlying().(*types.Pointer); !isPtr {
		recvB = fd.deref(b)
	}
	fd.steps = 0
	mr, err := fd.foldCallEnv(build, []fval{recvB}, nil, heap)
	if err != nil || len(mr.tuple) != 2 || !mr.tuple[1].isNil {
		return fail("Builder.Build", err, mr)
	}
	cmap := mr.tuple[0]
	fd.steps = 0
	aobj, err := fd.foldCallEnv(na, []fval{cmap}, nil, heap)
	if err != nil || aobj.addr == nil {
		return fail("desc.NewAttribute", err, aobj)
	}
	fd.steps = 0
	cobj, err := fd.foldCallEnv(nc, []fval{cmap, aobj}, nil, heap)
	if err != nil || cobj.addr == nil {
		return fail("desc.NewChord", err, cobj)
	}
	recvOf := func(fn *ssa.Function, obj fval) fval {
		if _, isPtr := fn.Params[0].Type().Underlying().(*types.Pointer); !isPtr {
			return fd.deref(obj)
		}
		return obj
	}
	accSemi := map[string]int{"Natural": 0, "Sharp": 1, "Flat": -1}
	white := map[int]string{}
	for _, l := range specLetters {
		white[specNatural(l)] = l
	}
	noteV := func(l, a string) fval {
		return fval{fields: map[string]fval{"Name": {k: constant.MakeInt64(names[l])}, "Accidental": {k: constant.MakeInt64(accs[a])}}}
	}
	isNote := func(v fval, l, a string) bool {
		if v.fields == nil || v.fields["Name"].k == nil || v.fields["Accidental"].k == nil {
			return false
		}
		gn, _ := constant.Int64Val(v.fields["Name"].k)
		ga, _ := constant.Int64Val(v.fields["Accidental"].k)
		return nameOf[gn] == l && accOf[ga] == a
	}
	intOf := func(v fval) (int64, bool) {
		if v.k == nil || v.k.Kind() != constant.Int {
			return 0, false
		}
		x, _ := constant.Int64Val(v.k)
		return x, true
	}
	// checkInfo compares one *AttributeInfo with the model; "" when it agrees, "?" when it cannot be read
	checkInfo := func(info fval, size int, l, a string, sharp bool) string {
		if info.fields == nil {
			return "?"
		}
		sum := specNatural(l) + accSemi[a] + size
		pc := ((sum % 12) + 12) % 12
		oct := (sum - pc) / 12
		wl, wa := "", "Natural"
		if w, isWhite := white[pc]; isWhite {
			wl = w
		} else if sharp {
			wl, wa = white[pc-1], "Sharp"
		} else {
			wl, wa = white[pc+1], "Flat"
		}
		semi, ok1 := intOf(info.fields["Semitone"])
		semiW, ok2 := intOf(info.fields["SemitoneWithoutOctave"])
		od, ok3 := intOf(info.fields["OctaveDiff"])
		if !ok1 || !ok2 || !ok3 || info.fields["Root"].fields == nil || info.fields["Applied"].fields == nil {
			return "?"
		}
		switch {
		case semi != int64(size):
			return fmt.Sprintf("the size is reported as %d semitones, want %d", semi, size)
		case semiW != int64(((size%12)+12)%12):
			return fmt.Sprintf("the size without octaves is reported as %d, want %d", semiW, ((size%12)+12)%12)
		case !isNote(info.fields["Root"], l, a):
			return "the root is not reported as it was given (" + info.fields["Root"].String() + ")"
		case !isNote(info.fields["Applied"], wl, wa):
			return fmt.Sprintf("the resulting note is reported as %s, want %s %s (root + interval, natural when possible, otherwise the requested accidental)", info.fields["Applied"].String(), wl, wa)
		case od != int64(oct):
			return fmt.Sprintf("the octave offset is reported as %d, want %d", od, oct)
		}
		return ""
	}
	n := 0
	recvA, recvC := recvOf(ad, aobj), recvOf(cd, cobj)
	for _, at := range attrs {
		size, valid := attrSize[at.Name]
		if !valid {
			continue
		}
		for _, l := range specLetters {
			for _, a := range []string{"Natural", "Sharp", "Flat"} {
				for _, sharp := range []bool{false, true} {
					fd.steps = 0
					fd.incomplete, fd.failedCalls = nil, nil
					r, err := fd.foldCallEnv(ad, []fval{recvA, strV(at.Name), noteV(l, a), {k: constant.MakeBool(sharp), t: types.Typ[types.Bool]}}, nil, heap)
					if err != nil || len(r.tuple) != 2 || !(r.tuple[1].isNil || r.tuple[1].nonNil) || len(fd.incomplete) > 0 {
						return fail("Attribute.Describe("+at.Name+")", err, r)
					}
					what := fmt.Sprintf("the attribute %s on %s%s (sharp preferred=%v)", at.Name, l, accSemi2(a), sharp)
					n++
					if r.tuple[1].nonNil {
						return what + " is refused", n, true
					}
					info := fd.deref(r.tuple[0])
					p := checkInfo(info, size, l, a, sharp)
					if p == "?" {
						return fail("reading the description of "+at.Name, nil, info)
					}
					if p == "" && (info.fields["Attribute"].fields == nil || info.fields["Attribute"].fields["Name"].k == nil || constant.StringVal(info.fields["Attribute"].fields["Name"].k) != at.Name) {
						p = "the attribute described is not the one asked for"
					}
					if p != "" {
						return what + ": " + p, n, true
					}
				}
			}
		}
	}
	fd.steps = 0
	if r, err := fd.foldCallEnv(ad, []fval{recvA, strV("NoSuchAttribute"), noteV("C", "Natural"), {k: constant.MakeBool(true), t: types.Typ[types.Bool]}}, nil, heap); err != nil || len(r.tuple) != 2 || !(r.tuple[1].isNil || r.tuple[1].nonNil) {
		return fail("Attribute.Describe(unknown)", err, r)
	} else if r.tuple[1].isNil {
		return "an attribute name that is not in the dictionary is described instead of being refused", n, true
	}
	for i := range chords {
		ch := &chords[i]
		sizes, rerr := resolveChord(ch.Name, byName, attrSize, map[string]bool{})
		if rerr != nil {
			return "", 0, false // the dictionary rules report that
		}
		for _, lookup := range []string{ch.Name, ch.Meta.Display} {
			if lookup == "" && ch.Name != "MajorTriad" {
				continue
			}
			for ri, root := range [][2]string{{"C", "Natural"}, {"F", "Sharp"}, {"B", "Flat"}} {
				sharp := ri%2 == 0
				fd.steps = 0
				fd.incomplete, fd.failedCalls = nil, nil
				r, err := fd.foldCallEnv(cd, []fval{recvC, strV(lookup), noteV(root[0], root[1]), {k: constant.MakeBool(sharp), t: types.Typ[types.Bool]}}, nil, heap)
				if err != nil || len(r.tuple) != 2 || !(r.tuple[1].isNil || r.tuple[1].nonNil) || len(fd.incomplete) > 0 {
					return fail("Chord.Describe("+lookup+")", err, r)
				}
				what := fmt.Sprintf("the chord %q on %s%s (sharp preferred=%v)", lookup, root[0], accSemi2(root[1]), sharp)
				n++
				if r.tuple[1].nonNil {
					return what + " is refused", n, true
				}
				info := fd.deref(r.tuple[0])
				if info.fields == nil || info.fields["Chord"].fields == nil || info.fields["Chord"].fields["Name"].k == nil {
					return fail("reading the description of "+lookup, nil, info)
				}
				if got := constant.StringVal(info.fields["Chord"].fields["Name"].k); got != ch.Name {
					return fmt.Sprintf("%s: the chord described is %s, want %s", what, got, ch.Name), n, true
				}
				if !isNote(info.fields["Root"], root[0], root[1]) {
					return what + ": the root is not reported as it was given", n, true
				}
				es, ok := fd.sliceElems(info.fields["Attributes"], heap)
				if !ok {
					return fail("reading the attributes of "+lookup, nil, info.fields["Attributes"])
				}
				if len(es) != len(sizes) {
					return fmt.Sprintf("%s: %d attributes are described, the chord has %d (inherited ones included)", what, len(es), len(sizes)), n, true
				}
				for j, e := range es {
					ai := fd.deref(e)
					p := checkInfo(ai, sizes[j], root[0], root[1], sharp)
					if p == "?" {
						return fail("reading attribute "+fmt.Sprint(j)+" of "+lookup, nil, ai)
					}
					if p != "" {
						return fmt.Sprintf("%s, attribute %d (parent first): %s", what, j, p), n, true
					}
				}
			}
		}
	}
	fd.steps = 0
	if r, err := fd.foldCallEnv(cd, []fval{recvC, strV("NoSuchChord"), noteV("C", "Natural"), {k: constant.MakeBool(true), t: types.Typ[types.Bool]}}, nil, heap); err != nil || len(r.tuple) != 2 || !(r.tuple[1].isNil || r.tuple[1].nonNil) {
		return fail("Chord.Describe(unknown)", err, r)
	} else if r.tuple[1].isNil {
		return "a chord symbol that is not in the dictionary is described instead of being refused", n, true
	}
	return "", n, true
}

// descKeyByFolding folds `crd info key describe` from the scale to the report for the 28 keys: desc.NewKey().Describe(
// op.NewScale(key)) reports that very scale, and as triads and sevenths what op.NewDiatonicChorder(scale).Triads() and
// .Sevenths() answer for it (those are decided by TAB-DIATONIC). ok=false when something does not fold.
func (c *Ctx) descKeyByFolding() (string, int, bool) {
	if c.descKeyFold != nil {
		return c.descKeyFold.problem, c.descKeyFold.n, c.descKeyFold.ok
	}
	p, n, ok := c.descKeyByFoldingUncached()
	c.descKeyFold = &foldVerdict{p, n, ok}
	return p, n, ok
}

func (c *Ctx) descKeyByFoldingUncached() (string, int, bool) {
	debug := os.Getenv("CRDCHECK_DEBUG") != ""
	newScale, ctor, tri, sev := c.fn("op", "NewScale"), c.fn("op", "NewDiatonicChorder"), c.fn("op", "DiatonicChorderImpl.Triads"), c.fn("op", "DiatonicChorderImpl.Sevenths")
	nk, kd := c.fn("desc", "NewKey"), c.fn("desc", "Key.Describe")
	if newScale == nil || ctor == nil || tri == nil || sev == nil || nk == nil || kd == nil || len(kd.Params) != 2 || len(tri.Params) != 1 || len(sev.Params) != 1 {
		return "", 0, false
	}
	fail := func(what string, err error, v fval) (string, int, bool) {
		if debug {
			fmt.Fprintf(os.Stderr, "descKeyByFolding: %s does not fold: %v %s\n", what, err, v.String())
		}
		return "", 0, false
	}
	names := c.enumConsts("note", "Name")
	accs := c.enumConsts("op", "Accidental")
	n := 0
	for _, key := range requiredKeys() {
		accName := "Natural"
		switch strings.TrimSuffix(key[1:], "m") {
		case "#":
			accName = "Sharp"
		case "b":
			accName = "Flat"
		}
		kv := fval{fields: map[string]fval{"Name": {k: constant.MakeInt64(names[key[:1]])}, "Accidental": {k: constant.MakeInt64(accs[accName])}, "Minor": {k: constant.MakeBool(strings.HasSuffix(key, "m"))}}}
		fd := c.newFolder()
		fd.maxSteps = 200000
		fd.maxDepth = 12
		sr, err := fd.foldCall(newScale, []fval{kv})
		if err != nil || len(sr.tuple) != 2 || !sr.tuple[1].isNil || sr.tuple[0].addr == nil {
			return fail("NewScale("+key+")", err, sr)
		}
		heap := fd.heap
		scale := sr.tuple[0]
		// the reference: the chorder asked directly
		fd.steps = 0
		cr, err := fd.foldCallEnv(ctor, []fval{scale}, nil, heap)
		if err != nil || !cr.known() {
			return fail("NewDiatonicChorder("+key+")", err, cr)
		}
		want := map[string]string{}
		for label, api := range map[string]*ssa.Function{"Triads": tri, "Sevenths": sev} {
			recv := cr
			if _, isPtr := api.Params[0].Type().Underlying().(*types.Pointer); !isPtr {
				recv = fd.deref(cr)
			}
			fd.steps = 0
			r, err := fd.foldCallEnv(api, []fval{recv}, nil, heap)
			if err != nil || r.fields == nil {
				return fail(label+"("+key+")", err, r)
			}
			want[label] = fd.describeDeep(r, 0)
		}
		fd.steps = 0
		ko, err := fd.foldCallEnv(nk, nil, nil, heap)
		if err != nil || ko.addr == nil {
			return fail("desc.NewKey", err, ko)
		}
		recv := ko
		if _, isPtr := kd.Params[0].Type().Underlying().(*types.Pointer); !isPtr {
			recv = fd.deref(ko)
		}
		fd.steps = 0
		fd.incomplete = nil
		r, err := fd.foldCallEnv(kd, []fval{recv, scale}, nil, heap)
		if err != nil || r.fields == nil || r.fields["Diatonic"].fields == nil || len(fd.incomplete) > 0 {
			return fail("desc.Key.Describe("+key+")", err, r)
		}
		n++
		if s := r.fields["Scale"]; s.addr == nil || s.addr.base != scale.addr.base || len(s.addr.path) != len(scale.addr.path) {
			return fmt.Sprintf("in %s the scale reported is not the scale that was described", key), n, true
		}
		for _, label := range []string{"Triads", "Sevenths"} {
			got := fd.describeDeep(r.fields["Diatonic"].fields[label], 0)
			if got != want[label] {
				return fmt.Sprintf("in %s the %s reported are %s, the scale's are %s", key, strings.ToLower(label), got, want[label]), n, true
			}
		}
		if want["Triads"] == want["Sevenths"] {
			return "", 0, false
		}
	}
	return "", n, true
}

// builderLaterWinsByFolding folds a dictionary in which an attribute and a chord are defined twice through
// chord.NewBuilder / Attribute / Chord / Build and asks the map: the later definition is the one in force, for attributes
// as for chords (a --attr / --chord file is registered after the built-ins and overrides them). ok=false when it does not fold.
func (c *Ctx) builderLaterWinsByFolding() (string, bool) {
	nb, addA, addC, build := c.fn("chord", "NewBuilder"), c.fn("chord", "Builder.Attribute"), c.fn("chord", "Builder.Chord"), c.fn("chord", "Builder.Build")
	getA, getCA := c.fn("chord", "Map.GetAttribute"), c.fn("chord", "Map.GetChordAttributes")
	if nb == nil || addA == nil || addC == nil || build == nil || getA == nil || getCA == nil || len(getA.Params) != 2 || len(getCA.Params) != 2 {
		return "", false
	}
	debug := os.Getenv("CRDCHECK_DEBUG") != ""
	fail := func(what string, err error, v fval) (string, bool) {
		if debug {
			fmt.Fprintf(os.Stderr, "builderLaterWinsByFolding: %s does not fold: %v %s\n", what, err, v.String())
		}
		return "", false
	}
	dnames := c.enumConsts("note", "DegreeName")
	nameOfQuality := map[Quality]string{}
	for dn, q := range degreeNameQuality {
		nameOfQuality[q] = dn
	}
	degreeV := func(n int, q Quality) fval {
		return fval{fields: map[string]fval{"Value": {k: constant.MakeInt64(int64(n)), t: types.Typ[types.Uint]}, "Name": {k: constant.MakeInt64(dnames[nameOfQuality[q]])}}}
	}
	strV := func(s string) fval { return fval{k: constant.MakeString(s), t: types.Typ[types.String]} }
	fd := c.newFolder()
	fd.maxSteps, fd.maxDepth = 400000, 16
	b, err := fd.foldCall(nb, nil)
	if err != nil || b.addr == nil {
		return fail("NewBuilder", err, b)
	}
	heap := fd.heap
	attr := func(name string, n int, q Quality) bool {
		fd.steps = 0
		_, err := fd.foldCallEnv(addA, []fval{b, {fields: map[string]fval{"Name": strV(name), "Degree": degreeV(n, q)}}}, nil, heap)
		return err == nil
	}
	chordDef := func(name, display string, attrs ...string) bool {
		l := &ListV{T: types.NewSlice(types.Typ[types.String])}
		for _, a := range attrs {
			l.Elems = append(l.Elems, &CVal{V: constant.MakeString(a), T: types.Typ[types.String]})
		}
		fd.steps = 0
		_, err := fd.foldCallEnv(addC, []fval{b, {fields: map[string]fval{"Name": strV(name), "Meta": {fields: map[string]fval{"Display": strV(display)}}, "Attributes": {cv: l, t: l.T}, "Extends": strV("")}}}, nil, heap)
		return err == nil
	}
	if !attr("Third", 3, QMajor) || !attr("Fifth", 5, QPerfect) || !attr("Seventh", 7, QMinor) || !chordDef("Plain", "pl", "Third", "Fifth") || !chordDef("Other", "ot", "Fifth") ||
		// the redefinitions (what a user's file does to built-ins)
		!attr("Third", 3, QMinor) || !chordDef("Plain", "pl", "Third", "Fifth", "Seventh") {
		return fail("registering", nil, top)
	}
	recvB := b
	if _, isPtr := build.Params[0].Type().Underlying().(*types.Pointer); !isPtr {
		recvB = fd.deref(b)
	}
	fd.steps = 0
	fd.incomplete = nil
	mr, err := fd.foldCallEnv(build, []fval{recvB}, nil, heap)
	if err != nil || len(mr.tuple) != 2 || !(mr.tuple[1].isNil || mr.tuple[1].nonNil) || len(fd.incomplete) > 0 {
		return fail("Builder.Build", err, mr)
	}
	if mr.tuple[1].nonNil {
		return "a dictionary that defines an attribute and a chord twice is refused: a user's file cannot override a built-in", true
	}
	recvOf := func(fn *ssa.Function) fval {
		if _, isPtr := fn.Params[0].Type().Underlying().(*types.Pointer); !isPtr {
			return fd.deref(mr.tuple[0])
		}
		return mr.tuple[0]
	}
	fd.steps = 0
	ar, err := fd.foldCallEnv(getA, []fval{recvOf(getA), strV("Third")}, nil, heap)
	if err != nil || len(ar.tuple) != 2 || ar.tuple[1].k == nil || ar.tuple[0].fields == nil || ar.tuple[0].fields["Degree"].fields == nil || ar.tuple[0].fields["Degree"].fields["Name"].k == nil {
		return fail("GetAttribute", err, ar)
	}
	if !constant.BoolVal(ar.tuple[1].k) {
		return "an attribute that was defined twice is not found", true
	}
	if gq, _ := constant.Int64Val(ar.tuple[0].fields["Degree"].fields["Name"].k); gq != dnames[nameOfQuality[QMinor]] {
		return "an attribute defined twice keeps its first definition: an --attr file that redefines a built-in name is silently ignored (chords take the later definition)", true
	}
	fd.steps = 0
	cr, err := fd.foldCallEnv(getCA, []fval{recvOf(getCA), strV("pl")}, nil, heap)
	if err != nil || len(cr.tuple) != 2 || cr.tuple[1].k == nil {
		return fail("GetChordAttributes", err, cr)
	}
	es, ok := fd.sliceElems(cr.tuple[0], heap)
	if !ok {
		return fail("reading the attributes", nil, cr.tuple[0])
	}
	if !constant.BoolVal(cr.tuple[1].k) || len(es) != 3 {
		return fmt.Sprintf("a chord defined twice resolves to %d attributes, the later definition has 3: a --chord file that redefines a built-in is not what is played", len(es)), true
	}
	return "", true
}

// extendsByFolding folds a made-up user dictionary through the builder and chord.Map.GetChordAttributes: a chain of
// seven chords, each extending the one before (deeper than any built-in), whose own attributes repeat an interval number
// that is already there (m3 beside M3) and double tones at the octave (P8 over P1, P12 over P5, M10 over M3): every
// level, asked by name and by display, lists the parent's notes first and then its own, none dropped. ok=false when it
// does not fold.
func (c *Ctx) extendsByFolding() (string, int, bool) {
	nb, addA, addC, build := c.fn("chord", "NewBuilder"), c.fn("chord", "Builder.Attribute"), c.fn("chord", "Builder.Chord"), c.fn("chord", "Builder.Build")
	getCA := c.fn("chord", "Map.GetChordAttributes")
	if nb == nil || addA == nil || addC == nil || build == nil || getCA == nil || len(getCA.Params) != 2 {
		return "", 0, false
	}
	debug := os.Getenv("CRDCHECK_DEBUG") != ""
	fail := func(what string, err error, v fval) (string, int, bool) {
		if debug {
			fmt.Fprintf(os.Stderr, "extendsByFolding: %s does not fold: %v %s\n", what, err, v.String())
		}
		return "", 0, false
	}
	dnames := c.enumConsts("note", "DegreeName")
	nameOfQuality := map[Quality]string{}
	for dn, q := range degreeNameQuality {
		nameOfQuality[q] = dn
	}
	degreeV := func(n int, q Quality) fval {
		return fval{fields: map[string]fval{"Value": {k: constant.MakeInt64(int64(n)), t: types.Typ[types.Uint]}, "Name": {k: constant.MakeInt64(dnames[nameOfQuality[q]])}}}
	}
	strV := func(s string) fval { return fval{k: constant.MakeString(s), t: types.Typ[types.String]} }
	fd := c.newFolder()
	fd.maxSteps, fd.maxDepth = 400000, 24
	b, err := fd.foldCall(nb, nil)
	if err != nil || b.addr == nil {
		return fail("NewBuilder", err, b)
	}
	heap := fd.heap
	type at struct {
		name string
		n    int
		q    Quality
	}
	attrs := []at{{"aP1", 1, QPerfect}, {"aM3", 3, QMajor}, {"am3", 3, QMinor}, {"aP5", 5, QPerfect}, {"am7", 7, QMinor}, {"aM9", 9, QMajor}, {"aP8", 8, QPerfect}, {"aP12", 12, QPerfect}, {"aM10", 10, QMajor}}
	for _, a := range attrs {
		fd.steps = 0
		if _, err := fd.foldCallEnv(addA, []fval{b, {fields: map[string]fval{"Name": strV(a.name), "Degree": degreeV(a.n, a.q)}}}, nil, heap); err != nil {
			return fail("Builder.Attribute", err, top)
		}
	}
	levels := [][]string{{"aP1", "aM3", "aP5"}, {"am7"}, {"aM9"}, {"am3"}, {"aP8"}, {"aP12"}, {"aM10"}}
	for i, own := range levels {
		l := &ListV{T: types.NewSlice(types.Typ[types.String])}
		for _, a := range own {
			l.Elems = append(l.Elems, &CVal{V: constant.MakeString(a), T: types.Typ[types.String]})
		}
		ext := ""
		if i > 0 {
			ext = fmt.Sprintf("Level%d", i-1)
		}
		fd.steps = 0
		if _, err := fd.foldCallEnv(addC, []fval{b, {fields: map[string]fval{"Name": strV(fmt.Sprintf("Level%d", i)), "Meta": {fields: map[string]fval{"Display": strV(fmt.Sprintf("lv%d", i))}}, "Attributes": {cv: l, t: l.T}, "Extends": strV(ext)}}}, nil, heap); err != nil {
			return fail("Builder.Chord", err, top)
		}
	}
	recvB := b
	if _, isPtr := build.Params[0].Type().Underlying().(*types.Pointer); !isPtr {
		recvB = fd.deref(b)
	}
	fd.steps = 0
	fd.incomplete = nil
	mr, err := fd.foldCallEnv(build, []fval{recvB}, nil, heap)
	if err != nil || len(mr.tuple) != 2 || !(mr.tuple[1].isNil || mr.tuple[1].nonNil) || len(fd.incomplete) > 0 {
		return fail("Builder.Build", err, mr)
	}
	if mr.tuple[1].nonNil {
		return "a dictionary of seven chords that extend one another in a chain is refused", 0, true
	}
	recv := mr.tuple[0]
	if _, isPtr := getCA.Params[0].Type().Underlying().(*types.Pointer); !isPtr {
		recv = fd.deref(recv)
	}
	n := 0
	// twice over: the second round would see what a first round left behind
	for round := 0; round < 2; round++ {
		for i := len(levels) - 1; i >= 0; i-- {
			var want []string
			for j := 0; j <= i; j++ {
				want = append(want, levels[j]...)
			}
			for _, lookup := range []string{fmt.Sprintf("Level%d", i), fmt.Sprintf("lv%d", i)} {
				fd.steps = 0
				fd.incomplete = nil
				r, err := fd.foldCallEnv(getCA, []fval{recv, strV(lookup)}, nil, heap)
				if err != nil || len(r.tuple) != 2 || r.tuple[1].k == nil || len(fd.incomplete) > 0 {
					return fail("GetChordAttributes("+lookup+")", err, r)
				}
				es, ok := fd.sliceElems(r.tuple[0], heap)
				if !ok {
					return fail("reading the attributes of "+lookup, nil, r.tuple[0])
				}
				n++
				var got []string
				for _, e := range es {
					if e.fields == nil || e.fields["Name"].k == nil {
						return fail("reading an attribute of "+lookup, nil, e)
					}
					got = append(got, constant.StringVal(e.fields["Name"].k))
				}
				if !constant.BoolVal(r.tuple[1].k) || strings.Join(got, " ") != strings.Join(want, " ") {
					return fmt.Sprintf("in a user dictionary whose chords extend one another %d deep, %q resolves to [%s], want [%s] (the parent's notes first, then its own; a second third, and tones doubled at the octave, are notes like any other)", i, lookup, strings.Join(got, " "), strings.Join(want, " ")), n, true
				}
			}
		}
	}
	return "", n, true
}

// writesOnlyLocals: the functions of fn's region store into nothing but their own locals (no map of the receiver is
// updated, no field of it assigned): what one call leaves behind cannot reach the next.
func (c *Ctx) writesOnlyLocals(fn *ssa.Function) bool {
	good := true
	for _, f := range c.regionFuncChainsList(fn) {
		allInstrs(f, func(in ssa.Instruction) {
			outside := func(root ssa.Value) bool {
				// memory that was there before the call: reached through a parameter, a captured variable, a global, or a
				// pointer loaded from somewhere
				switch r := root.(type) {
				case *ssa.FreeVar:
					// a variable of the enclosing function assigned from a function literal (the body of a range-over-func loop)
					return f.Parent() == nil
				case *ssa.Parameter, *ssa.Global, *ssa.Field, *ssa.Lookup, *ssa.Extract:
					return true
				case *ssa.UnOp:
					if a, ok := addrRoot(r.X).(*ssa.Alloc); ok && a.Parent() == f {
						return false // a local read back
					}
					return true
				}
				return false
			}
			if os.Getenv("CRDCHECK_DEBUG") != "" {
				switch x := in.(type) {
				case *ssa.MapUpdate:
					if _, made := stripThroughLocal(x.Map).(*ssa.MakeMap); !made {
						fmt.Fprintf(os.Stderr, "writesOnlyLocals(%s): map update %s in %s\n", fname(fn), x.String(), fname(f))
					}
				case *ssa.Store:
					if outside(addrRoot(x.Addr)) {
						fmt.Fprintf(os.Stderr, "writesOnlyLocals(%s): store %s (root %T %s) in %s\n", fname(fn), x.String(), addrRoot(x.Addr), addrRoot(x.Addr).String(), fname(f))
					}
				}
			}
			switch x := in.(type) {
			case *ssa.MapUpdate:
				// a map is a reference: only one made here is the function's own
				if _, made := stripThroughLocal(x.Map).(*ssa.MakeMap); !made {
					good = false
				}
			case *ssa.Store:
				if outside(addrRoot(x.Addr)) {
					good = false
				}
			}
		})
	}
	return good
}
