package main

// PATH rules on package midix: PENDING, OWN, TRACKADD, NOTE, TICKS, SELECT, OPMAP, TRACKCOUNT.

import (
	"fmt"
	"go/constant"
	"go/token"
	"go/types"
	"os"
	"sort"
	"strings"

	"golang.org/x/tools/go/ssa"
)

func init() {
	register("PENDING", "every MIDIWriter method that emits takes its first op's delta from getTickDeltaAndClear() (called before any emission) and gives every other op the constant 0 or newTicks(value); Rest emits nothing and only accumulates; helpers pass delta/track/op through unchanged", 12, rulePending)
	register("OWN", "a *TrackOp is added to one track only: no Add/Distribute call inside a loop receives an op created outside that loop", 3, ruleOwn)
	register("TRACKADD", "TrackSet.Add reads the op's delta before Track.Add rewrites it, delivers to list[trackNo] and adds that delta to every other track; Track.Add folds the pending delay into the op, appends it and clears the delay", 2, ruleTrackAdd)
	register("NOTE", "MIDIWriter.Note: one NoteOn per key in a first loop over the whole key slice, one NoteOff per key in a second loop, same key and channel 0, track = loop index, first op of each phase carries the time and all others 0", 1, ruleNote)
	register("TICKS", "ticks = uint32(Round(quarterTicks * value)); quarterTicks and the header's TimeFormat both come from the constructor's clock; Rat.Float = Num/Denom; the value handed to Note/Rest is the sum over all of the instance's values", 4, ruleTicks)
	register("SELECT", "meta ops go to track 0; the i-th fixed op goes to 0 when there is one track and to i mod (N-1) + 1 otherwise; selector and track set are built from the same N >= 1", 3, ruleSelect)
	register("OPMAP", "each writer method allocates the op type the SMF spec names for it with its own parameters, tempo/meter/key/text ops only through addMeta; each op's Call invokes the matching gomidi constructor with its own fields and the delta parameter", 20, ruleOpMap)
	register("TRACKCOUNT", "the --track value reaches the track-set constructor; WriteTo serialises every track 0..Len()-1, propagates Add's error and uses the writer's clock as the header division", 2, ruleTrackCount)
}

// ---------------------------------------------------------------------------
// PENDING

func (m *writerModel) exportedMethods() []*ssa.Function {
	var out []*ssa.Function
	for _, fn := range m.methods {
		if fn.Object() != nil && fn.Object().Exported() && fn.Synthetic == "" {
			out = append(out, fn)
		}
	}
	sort.Slice(out, func(i, j int) bool { return out[i].Name() < out[j].Name() })
	return out
}

// convOfParam: the located value is value->ticks(conversion role) applied to the root's parameter with the given index.
func (m *writerModel) convOfParam(l lval, root *ssa.Function, idx int) bool {
	l = m.tr.trace(l)
	if !m.isRole(m.conv, l.v) {
		return false
	}
	call := l.v.(*ssa.Call)
	a := m.tr.trace(l.with(call.Call.Args[len(call.Call.Args)-1]))
	return len(a.chain) == 0 && idx < len(root.Params) && a.v == ssa.Value(root.Params[idx])
}

func rulePending(c *Ctx) {
	c.checkWriterPipeline()
	m := c.writerModel()
	if m.typ == nil {
		c.missing("midix.MIDIWriter")
		return
	}
	pos := c.pos(m.typ.Pos())
	c.site(1)
	c.check(len(m.take) >= 1 && len(m.problems) == 0, "midix.MIDIWriter|take-pending", pos, "midix.MIDIWriter", "a method returns the pending delta and clears it ("+strings.Join(roleNames(m.take), ",")+")", "no MIDIWriter method returns the pending delta and resets it to 0 any more: rests are counted twice or never "+strings.Join(m.problems, "; "))
	c.site(1)
	// pending += ticks, in a helper of its own or written out in Rest
	restInline := false
	if rest := c.fn("midix", "MIDIWriter.Rest"); rest != nil && m.pending != "" {
		restInline = m.restAccumulatesInline(rest)
	}
	c.check(len(m.accum) >= 1 || restInline, "midix.MIDIWriter|add-pending", pos, "midix.MIDIWriter", "the pending delta grows by the ticks of a rest ("+strings.Join(roleNames(m.accum), ",")+")", "no MIDIWriter method adds its argument to the pending delta any more (pending += t)")
	roots := m.exportedMethods()
	if nw := c.fn("midix", "NewWriter"); nw != nil {
		roots = append(roots, nw)
	} else {
		c.missing("midix.NewWriter")
	}
	for _, fn := range roots {
		name := fname(fn)
		ems, probs := m.emissions(fn)
		calls := m.region(fn)
		takes := m.roleCalls(calls, m.take)
		accs := m.roleCalls(calls, m.accum)
		if fn.Name() == "Rest" {
			c.site(1)
			good := len(ems) == 0 && len(probs) == 0 && len(takes) == 0 && len(accs) == 1
			if good {
				a := accs[0].call.Common().Args
				good = m.convOfParam(lval{a[len(a)-1], accs[0].fn, accs[0].chain}, fn, 1) && !inLoopAnyLevel(linstr{accs[0].call, accs[0].chain})
				// ... whatever the value: no return is reached without it
				if good && !unconditionalAt(linstr{accs[0].call, accs[0].chain}) {
					c.bad(name, c.pos(fn.Pos()), name, "Rest can return without adding ticks(value) to the pending delta (the addition stands under a condition): some rests take no time and everything after them comes early")
					continue
				}
			} else if len(ems) == 0 && len(probs) == 0 && len(takes) == 0 && len(accs) == 0 {
				good = m.restAccumulatesInline(fn)
			}
			c.check(good, name, c.pos(fn.Pos()), name, "emits nothing, adds ticks(value) to the pending delta", "Rest must emit no event and add exactly ticks(value) to the pending delta; it no longer does (rest time is lost, doubled or turned into events)")
			continue
		}
		if len(ems) == 0 && len(probs) == 0 {
			if len(takes) > 0 {
				c.site(1)
				c.bad(name, c.pos(fn.Pos()), name, "consumes the pending delta without emitting an event: the elapsed rest time is lost")
			}
			continue
		}
		c.site(1)
		if fn.Name() == "NewWriter" {
			// set-up events: all at time 0, none consumes pending time
			problem := strings.Join(probs, "; ")
			for _, e := range ems {
				if k, ok := constInt(e.delta.v); e.delta.v == nil || !ok || k != 0 {
					problem = "a set-up event (track name / instrument / program) does not have delta 0"
				}
			}
			if len(takes) > 0 {
				problem = "the constructor consumes the pending delta"
			}
			c.check(problem == "", name, c.pos(fn.Pos()), name, fmt.Sprintf("%d set-up event(s), all at delta 0", len(ems)), name+": "+problem)
			continue
		}
		problem := strings.Join(probs, "; ")
		if len(takes) != 1 {
			c.bad(name, c.pos(fn.Pos()), name, fmt.Sprintf("emits events but takes the pending delta %d times (want exactly once): the time elapsed since the previous event (pending rests) is not attached to this event, so it and everything after it on the track lands early", len(takes)))
			continue
		}
		take := linstr{takes[0].call, takes[0].chain}
		if inLoopAnyLevel(take) {
			problem = "the pending delta is taken inside a loop"
		}
		usesPending := false
		for _, e := range ems {
			if e.delta.v == nil {
				problem = "an op's delta cannot be resolved"
				break
			}
			if !regionDominates(take, e.sink) {
				problem = "an event is emitted before the pending delta is consumed"
				break
			}
			var leaves []lval
			for _, a := range m.tr.alts(e.delta, 0) {
				if phi, ok := a.leaf.v.(*ssa.Phi); ok && isLoopHeader(phi.Block()) {
					for _, ed := range phi.Edges {
						leaves = append(leaves, m.tr.trace(a.leaf.with(ed)))
					}
					continue
				}
				leaves = append(leaves, a.leaf)
			}
			for _, leaf := range leaves {
				if leaf.v == takes[0].call.Value() && sameChain(leaf.chain, takes[0].chain) {
					usesPending = true
					// the event that carries the pending time is written whenever the time is taken: nothing but the
					// structure of a loop over the keys (its bound, which round it is) stands in front of it
					already := map[ssa.Value]bool{} // decided before the delta was taken: no time is lost on the other side
					for _, g := range guardsAlong(take, 0) {
						already[m.tr.trace(g.cond).v] = true
					}
					for _, g := range guardsAlong(e.sink, 0) {
						gl := m.tr.trace(g.cond)
						if already[gl.v] {
							continue
						}
						cmp, isCmp := gl.v.(*ssa.BinOp)
						if isCmp {
							onIndex := false
							for _, side := range []ssa.Value{cmp.X, cmp.Y} {
								if phi, ok := side.(*ssa.Phi); ok && isLoopHeader(phi.Block()) {
									onIndex = true
								}
								if b, ok := side.(*ssa.BinOp); ok {
									if phi, ok := b.X.(*ssa.Phi); ok && isLoopHeader(phi.Block()) {
										onIndex = true
									}
								}
							}
							if onIndex {
								continue
							}
						}
						problem = "the pending delta is taken, but the event that carries it is written only under a condition (`" + gl.v.String() + "`): when it is not, the elapsed rest is lost"
					}
					continue
				}
				if k, ok := constInt(leaf.v); ok && k == 0 {
					continue
				}
				if m.isRole(m.conv, leaf.v) {
					continue
				}
				problem = "an op's delta is neither the pending delta, 0 nor ticks(value)"
			}
		}
		if problem == "" && !usesPending {
			problem = "no emitted op carries the pending delta"
		}
		c.check(problem == "", name, c.pos(fn.Pos()), name, fmt.Sprintf("%d emission(s); first carries the pending delta", len(ems)), name+": "+problem+" — events no longer land at the instance start / the track clock drifts")
	}
}

func roleNames(set map[*ssa.Function]bool) []string {
	var out []string
	for f := range set {
		out = append(out, f.Name())
	}
	sort.Strings(out)
	return out
}

// inLoopAnyLevel: the located instruction (or a call site leading to it) sits in a loop.
func inLoopAnyLevel(li linstr) bool {
	for k := 0; k <= len(li.chain); k++ {
		if inLoop(li.at(k).Block()) {
			return true
		}
	}
	return false
}

// ---------------------------------------------------------------------------
// OWN

// checkOpsOwned: a track's op list is its own: it only ever grows by appending to itself (or starts as nil / a fresh
// make). A list carved out of a shared array lets one track's append overwrite another track's events.
func (c *Ctx) checkOpsOwned() {
	n := 0
	for _, fn := range c.srcFuncs() {
		allInstrs(fn, func(in ssa.Instruction) {
			st, ok := in.(*ssa.Store)
			if !ok {
				return
			}
			fa, ok := st.Addr.(*ssa.FieldAddr)
			if !ok {
				return
			}
			name, base, _ := fieldName(fa)
			pt, isPtr := fa.X.Type().Underlying().(*types.Pointer)
			if name != "ops" || !isPtr || typeName(pt.Elem()) != "midix.Track" {
				return
			}
			n++
			c.site(1)
			good := false
			switch v := st.Val.(type) {
			case *ssa.Call:
				if calleeName(&v.Call) == "builtin.append" {
					if ln, lb, ok := loadedField(v.Call.Args[0]); ok && ln == "ops" && lb == base {
						good = true
					}
				}
			case *ssa.MakeSlice:
				good = true
			case *ssa.Const:
				good = v.Value == nil
			}
			c.check(good, fname(fn)+"|ops-owned", c.pos(st.Pos()), fname(fn), "the op list grows by appending to itself", fname(fn)+": a track's op list is set to something other than append(own list, ...), a fresh make or nil (e.g. a sub-slice of an array shared between tracks): one track's append can then overwrite another track's events")
		})
	}
	if n == 0 {
		c.site(1)
		c.bad("midix.Track|ops-owned", "", "midix.Track", "no place appends to a track's op list")
	}
}

func ruleOwn(c *Ctx) {
	c.checkOpsOwned()
	adders := map[string]int{"midix.Track.Add": 1, "midix.TrackSet.Add": 2, "midix.TrackSetController.Add": 1, "midix.TrackSetController.Distribute": 1}
	for _, fn := range c.srcFuncs() {
		for _, ci := range callsIn(fn) {
			idx, ok := adders[calleeName(ci.Common())]
			if !ok {
				continue
			}
			c.site(1)
			op := stripConv(ci.Common().Args[idx])
			key := fname(fn) + " -> " + strings.TrimPrefix(calleeName(ci.Common()), "midix.")
			b := ci.Block()
			if !inLoop(b) {
				c.ok(key, c.pos(ci.Pos()), fname(fn), "not in a loop")
				continue
			}
			// op must be created inside the loop (fresh per iteration)
			in, isInstr := op.(ssa.Instruction)
			fresh := isInstr && in.Block() != nil && (in.Block() == b || (reachableBlock(in.Block(), b) && reachableBlock(b, in.Block())))
			if _, isAlloc := op.(*ssa.Alloc); !isAlloc {
				if call, isCall := op.(*ssa.Call); !isCall || calleeName(&call.Call) != "midix.NewTrackOp" {
					fresh = false
				}
			}
			c.check(fresh, key, c.pos(ci.Pos()), fname(fn), "each iteration adds a freshly created op", "the same *TrackOp is added once per loop iteration: Track.Add rewrites op.TickDelta, so the op is shared between tracks and each track's delay leaks into the next (end-of-track drifts with --track N>1)")
			// an event given to every track is at the same global time on each of them: it must be added without
			// pushing its delta onto the other tracks (Track.Add, not TrackSet.Add / controller.Add)
			if l := enclosingRangeLoop(b); l != nil {
				if call, ok := l.bound.(*ssa.Call); ok && strings.HasSuffix(calleeName(&call.Call), "TrackSet.Len") {
					c.check(calleeName(ci.Common()) == "midix.Track.Add", key+"|no-propagation", c.pos(ci.Pos()), fname(fn), "an event for every track is added to each track directly", "inside a loop over all tracks the op is added with "+strings.TrimPrefix(calleeName(ci.Common()), "midix.")+", which also pushes the op's delta onto every other track: the delay is counted once per remaining track and the end-of-track markers drift apart after a trailing rest")
				}
			}
		}
	}
}

// ---------------------------------------------------------------------------
// TRACKADD

func ruleTrackAdd(c *Ctx) {
	fn := c.fn("midix", "TrackSet.Add")
	if fn == nil {
		c.missing("midix.TrackSet.Add")
	} else {
		c.site(1)
		name := fname(fn)
		// the delivery and the propagation may sit in extracted helpers: look at the whole region of TrackSet.Add
		tr := c.plainTracer()
		region := c.regionCalls(fn, nil)
		adds := findRegion(region, func(ci ssa.CallInstruction) bool { return calleeName(ci.Common()) == "midix.Track.Add" })
		prop := findRegion(region, func(ci ssa.CallInstruction) bool { return calleeName(ci.Common()) == "midix.Track.AddTickDelta" })
		problem := ""
		switch {
		case len(adds) != 1:
			problem = "expected exactly one delivery t.Add(op)"
		case len(prop) != 1:
			problem = "expected exactly one propagation x.AddTickDelta(delta)"
		default:
			add, pr := adds[0], prop[0]
			addI, prI := linstr{add.call, add.chain}, linstr{pr.call, pr.chain}
			trackNo, op := fn.Params[1], fn.Params[2]
			isRoot := func(l lval, p *ssa.Parameter) bool {
				l = tr.trace(l)
				return len(l.chain) == 0 && l.v == ssa.Value(p)
			}
			at := func(rc rcall, v ssa.Value) lval { return tr.trace(lval{v, rc.fn, rc.chain}) }
			// delivered op is the parameter, to list[trackNo]
			if !isRoot(at(add, add.call.Common().Args[1]), op) {
				problem = "the delivered op is not the parameter"
			}
			recv := at(add, add.call.Common().Args[0])
			if ia := indexOfLoad(recv.v); ia == nil || !isRoot(recv.with(ia.Index), trackNo) {
				problem = "the op is not delivered to list[trackNo]"
			}
			if inLoopAnyLevel(addI) {
				problem = "the op is delivered inside a loop"
			}
			// propagated delta: a load of op.TickDelta that precedes the delivery
			dl := at(pr, pr.call.Common().Args[1])
			ld, ok := dl.v.(*ssa.UnOp)
			if !ok || ld.Op != token.MUL {
				problem = "the propagated delta is not a plain read of op.TickDelta"
			} else if n, base, ok := fieldName(ld.X); !ok || n != "TickDelta" || !isRoot(dl.with(base), op) {
				problem = "the propagated delta is not op.TickDelta"
			} else if !regionDominates(linstr{ld, dl.chain}, addI) {
				problem = "op.TickDelta is read after t.Add(op) has folded the track's own delay into it: the other tracks receive this track's delay too"
			}
			// propagation inside a loop over the whole list, skipping exactly index == trackNo
			if problem == "" {
				loop, level := loopAround(prI)
				if loop == nil {
					problem = "the delta is not propagated in a loop over the tracks"
				} else {
					loc := lval{nil, prI.at(level).Parent(), prI.chain[:level]}
					rl := at(pr, pr.call.Common().Args[0])
					recvIdx := indexOfLoad(rl.v)
					if recvIdx == nil || !sameChain(rl.chain, loc.chain) {
						problem = "the receiver of AddTickDelta is not an element of the track list"
					} else {
						idx := tr.trace(rl.with(recvIdx.Index))
						known, equal := false, false
						for _, g := range guardsAlong(prI, level) {
							if eq, ok := tr.eqTest(g, idx, func(l lval) bool { return isRoot(l, trackNo) }); ok {
								known, equal = true, eq
							}
						}
						// no further condition decided inside the loop may keep a track from receiving the delta
						extra := false
						for _, g := range guardsAlong(prI, level) {
							if _, ok := tr.eqTest(g, idx, func(l lval) bool { return isRoot(l, trackNo) }); ok {
								continue
							}
							gl := tr.trace(g.cond)
							in, isInstr := gl.v.(ssa.Instruction)
							if !isInstr || len(gl.chain) < level {
								continue
							}
							if len(gl.chain) == level {
								if !loop.blocks[in.Block()] {
									// decided before the loop: harmless when it only asks whether there is a delay to pass on
									// (or more than one track); anything about the op itself (its kind, say) keeps some ops
									// from moving the other tracks' clocks
									if _, isZero := tr.zeroTest(g, dl); isZero {
										continue
									}
									if cmp, ok := gl.v.(*ssa.BinOp); ok {
										if call, ok := cmp.X.(*ssa.Call); ok && calleeName(&call.Call) == "builtin.len" {
											continue
										}
									}
									if dataDependsOn(gl.v, func(v ssa.Value) bool { return v == ssa.Value(op) }) {
										extra = true
									}
									continue
								}
								if cmp, ok := gl.v.(*ssa.BinOp); ok && cmp.Op == token.LSS && cmp.Y == loop.bound {
									continue // the loop's own bound test
								}
							}
							extra = true
						}
						switch {
						case extra:
							problem = "the propagation is subject to a further condition besides index != trackNo: some other track does not receive the delta and its clock falls behind"
						case !known:
							problem = "the propagation is not guarded by index != trackNo"
						case equal:
							problem = "the delta is added to the delivering track instead of the others (condition inverted)"
						}
						if problem == "" && !c.loopCoversSlice(prI.at(level).Block()) {
							problem = "the propagation loop does not range over the whole track list"
						}
					}
				}
			}
		}
		c.check(problem == "", name, c.pos(fn.Pos()), name, "delta read before delivery; every other track receives it", name+": "+problem)
	}
	// Track.Add
	ta := c.fn("midix", "Track.Add")
	if ta == nil {
		c.missing("midix.Track.Add")
		return
	}
	c.site(1)
	name := fname(ta)
	var folded, appended, cleared bool
	allInstrs(ta, func(in ssa.Instruction) {
		st, ok := in.(*ssa.Store)
		if !ok {
			return
		}
		n, base, ok := fieldName(st.Addr)
		if !ok {
			return
		}
		switch {
		case n == "TickDelta" && base == ssa.Value(ta.Params[1]):
			af := c.affine(ta, st.Val)
			folded = af.equal(map[string]int64{"p1.TickDelta": 1, "p0.tickDelta": 1}, 0)
		case n == "tickDelta":
			k, ok := constInt(st.Val)
			cleared = ok && k == 0
		case n == "ops":
			if call, ok := st.Val.(*ssa.Call); ok && calleeName(&call.Call) == "builtin.append" {
				appended = true
			}
		}
	})
	if !cleared {
		// a take-and-clear helper on the same track (`op.TickDelta += t.takeTickDelta()`)
		for _, ci := range callsIn(ta) {
			h := staticCallee(ci.Common())
			if h == nil || !c.isHelper(ta, h) || len(h.Blocks) != 1 || len(ci.Common().Args) == 0 || ci.Common().Args[0] != ssa.Value(ta.Params[0]) {
				continue
			}
			allInstrs(h, func(in ssa.Instruction) {
				if st, ok := in.(*ssa.Store); ok {
					if n, base, ok := fieldName(st.Addr); ok && n == "tickDelta" && base == ssa.Value(h.Params[0]) {
						if k, ok := constInt(st.Val); ok && k == 0 {
							cleared = true
						}
					}
				}
			})
		}
	}
	straight := len(ta.Blocks) == 1
	c.check(folded && appended && cleared && straight, name, c.pos(ta.Pos()), name, "op.TickDelta += pending; append; pending = 0", fmt.Sprintf("%s: folded=%v appended=%v cleared=%v single-path=%v — the track's pending delay is no longer moved into the op exactly once", name, folded, appended, cleared, straight))
	// AddTickDelta accumulates
	if fn := c.fn("midix", "Track.AddTickDelta"); fn != nil {
		good := false
		allInstrs(fn, func(in ssa.Instruction) {
			if st, ok := in.(*ssa.Store); ok {
				if n, _, ok := fieldName(st.Addr); ok && n == "tickDelta" {
					good = c.affine(fn, st.Val).equal(map[string]int64{"p0.tickDelta": 1, "p1": 1}, 0)
				}
			}
		})
		c.check(good, fname(fn), c.pos(fn.Pos()), fname(fn), "pending += delta", "Track.AddTickDelta no longer accumulates")
	}
}

// indexOfLoad: v = *(&x[i]) -> the IndexAddr.
func indexOfLoad(v ssa.Value) *ssa.IndexAddr {
	if u, ok := v.(*ssa.UnOp); ok && u.Op == token.MUL {
		if ia, ok := u.X.(*ssa.IndexAddr); ok {
			return ia
		}
	}
	return nil
}

// ---------------------------------------------------------------------------
// NOTE

type loopInfo struct {
	header *ssa.BasicBlock
	blocks map[*ssa.BasicBlock]bool
	index  ssa.Value // the per-iteration index value: 0, 1, 2, ...
	bound  ssa.Value // the loop runs while index < bound
	start  int64     // the first value of the index (0, or 1 for a loop whose first round was peeled off)
}

// enclosingRangeLoop finds the innermost counted loop containing b, in either SSA shape:
// `for i := range xs` (phi starts at -1, index = phi+1, test at the header) and
// `for i := range n` (rotated: phi starts at 0, index = phi, test at the latch).
func enclosingRangeLoop(b *ssa.BasicBlock) *loopInfo { return enclosingCountedLoop(b, false) }

// enclosingCountedLoop: as enclosingRangeLoop; with from1 also a loop whose index starts at 1 (the first round was
// peeled off and written out in front of the loop). loopInfo.start says where the index starts.
func enclosingCountedLoop(b *ssa.BasicBlock, from1 bool) *loopInfo {
	fn := b.Parent()
	var best *loopInfo
	for _, h := range fn.Blocks {
		blocks := naturalLoop(h)
		if blocks == nil || !blocks[b] {
			continue
		}
		for _, in := range h.Instrs {
			phi, ok := in.(*ssa.Phi)
			if !ok {
				break
			}
			var start int64 = 99
			var next ssa.Value
			okShape := true
			for i, e := range phi.Edges {
				if !blocks[h.Preds[i]] {
					k, isK := constInt(e)
					if !isK {
						okShape = false
					}
					start = k
					continue
				}
				add, isAdd := e.(*ssa.BinOp)
				if !isAdd || add.Op != token.ADD || add.X != ssa.Value(phi) {
					okShape = false
					continue
				}
				if one, isK := constInt(add.Y); !isK || one != 1 {
					okShape = false
				}
				if next != nil && next != e {
					okShape = false
				}
				next = e
			}
			if !okShape || next == nil || (start != -1 && start != 0 && !(from1 && start == 1)) {
				continue
			}
			l := &loopInfo{header: h, blocks: blocks, start: max(start, 0)}
			if start == -1 {
				l.index = next
			} else {
				l.index = phi
			}
			// bound: If(next < N) inside the loop
			for x := range blocks {
				if len(x.Instrs) == 0 {
					continue
				}
				if iff, ok := x.Instrs[len(x.Instrs)-1].(*ssa.If); ok {
					if cmp, ok := iff.Cond.(*ssa.BinOp); ok && cmp.Op == token.LSS && (cmp.X == next || cmp.X == ssa.Value(phi)) {
						l.bound = cmp.Y
					}
				}
			}
			if l.bound == nil {
				continue
			}
			if best == nil || len(l.blocks) < len(best.blocks) {
				best = l
			}
		}
	}
	return best
}

// bodyEntry: the first block of an iteration.
func (l *loopInfo) bodyEntry() *ssa.BasicBlock {
	if iff, ok := l.header.Instrs[len(l.header.Instrs)-1].(*ssa.If); ok {
		if cmp, ok := iff.Cond.(*ssa.BinOp); ok && cmp.Op == token.LSS && cmp.Y == l.bound && l.blocks[l.header.Succs[0]] {
			return l.header.Succs[0]
		}
	}
	return l.header
}

// pathsCount: for every acyclic path from the loop body's entry back to the header, count sites; returns min and max.
func pathsSiteCount(l *loopInfo, siteBlocks map[*ssa.BasicBlock]int) (int, int) {
	minC, maxC := 1<<30, -1
	var walk func(b *ssa.BasicBlock, n int, depth int)
	walk = func(b *ssa.BasicBlock, n int, depth int) {
		if depth > 64 {
			return
		}
		n += siteBlocks[b]
		for _, s := range b.Succs {
			if s == l.header {
				if n < minC {
					minC = n
				}
				if n > maxC {
					maxC = n
				}
				continue
			}
			if !l.blocks[s] {
				// leaves the loop early (return / break): counts as a path too
				if n < minC {
					minC = n
				}
				if n > maxC {
					maxC = n
				}
				continue
			}
			walk(s, n, depth+1)
		}
	}
	walk(l.bodyEntry(), 0, 0)
	return minC, maxC
}

func ruleNote(c *Ctx) {
	m := c.writerModel()
	fn := c.fn("midix", "MIDIWriter.Note")
	if fn == nil || m.typ == nil {
		c.missing("midix.MIDIWriter.Note")
		return
	}
	c.site(1)
	name := fname(fn)
	keyParam := fn.Params[len(fn.Params)-1]
	velParam := fn.Params[2]
	ems, eprobs := m.emissions(fn)
	for _, p := range eprobs {
		c.bad(name+"|other-op", c.pos(fn.Pos()), name, "Note: "+p)
	}
	takes := m.roleCalls(m.region(fn), m.take)
	var ons, offs []*emission
	for _, e := range ems {
		switch e.opType {
		case "midix.NoteOn":
			ons = append(ons, e)
		case "midix.NoteOff":
			offs = append(offs, e)
		default:
			c.bad(name+"|other-op", c.pos(e.sink.in.Pos()), name, "Note emits something that is neither NoteOn nor NoteOff ("+e.opType+")")
		}
	}
	if len(ons) == 0 || len(offs) == 0 {
		c.bad(name+"|pairing", c.pos(fn.Pos()), name, fmt.Sprintf("Note emits %d NoteOn and %d NoteOff sites: notes are not struck or never released", len(ons), len(offs)))
		return
	}
	isRootParam := func(l lval, p *ssa.Parameter) bool {
		l = m.tr.trace(l)
		return len(l.chain) == 0 && l.v == ssa.Value(p)
	}
	firstName := map[string]string{"NoteOn": "the pending delta", "NoteOff": "ticks(value)"}
	type phase struct {
		loop  *loopInfo
		level int
		sink  linstr
	}
	checkPhase := func(label string, ss []*emission) *phase {
		var ph *phase
		siteBlocks := map[*ssa.BasicBlock]int{}
		problems := []string{}
		isFirst := func(l lval) bool {
			if label == "NoteOn" {
				return len(takes) == 1 && l.v == takes[0].call.Value() && sameChain(l.chain, takes[0].chain)
			}
			return m.convOfParam(l, fn, 1)
		}
		// the first round may be peeled off: one emission for key[0] on track 0 with the time, written out in front of a
		// loop that starts at 1 and gives every other key delta 0
		var peeled []*emission
		for _, e := range ss {
			inAny := false
			for k := len(e.sink.chain); k >= 0; k-- {
				if enclosingCountedLoop(e.sink.at(k).Block(), true) != nil {
					inAny = true
				}
			}
			if !inAny {
				peeled = append(peeled, e)
			}
		}
		if len(peeled) != 1 || len(ss) < 2 {
			peeled = nil
		}
		for _, e := range ss {
			if len(peeled) == 1 && e == peeled[0] {
				continue
			}
			var loop *loopInfo
			level := -1
			for k := len(e.sink.chain); k >= 0; k-- {
				if l := enclosingCountedLoop(e.sink.at(k).Block(), len(peeled) == 1); l != nil {
					loop, level = l, k
					break
				}
			}
			if loop == nil {
				problems = append(problems, label+" is emitted outside a loop over the keys")
				continue
			}
			if (loop.start == 1) != (len(peeled) == 1) {
				problems = append(problems, label+": the loop over the keys does not start at the first key that has no emission of its own")
				continue
			}
			loc := lval{nil, e.sink.at(level).Parent(), e.sink.chain[:level]}
			if ph == nil {
				ph = &phase{loop, level, e.sink}
			} else if ph.loop.header != loop.header || !sameChain(loc.chain, ph.sink.chain[:ph.level]) {
				problems = append(problems, label+" sites are spread over two loops")
			}
			siteBlocks[e.sink.at(level).Block()]++
			if e.kind != "one" || e.typKind != "midix.FixedTrack" {
				problems = append(problems, label+" is not a fixed-track op handed to TrackSetController.Add (it would land on the meta track or on every track)")
			}
			// key field: element of the key parameter at the loop index
			kv, hasKey := e.fields["Key"]
			var ia *ssa.IndexAddr
			if hasKey {
				ia = indexOfLoad(kv.v)
			}
			switch {
			case ia == nil:
				problems = append(problems, label+".Key is not an element of the key slice")
			case !isRootParam(kv.with(ia.X), keyParam):
				problems = append(problems, label+" ranges over something other than the whole key parameter (e.g. a sub-slice): some notes get no "+label)
			case ia.Index != loop.index || !sameChain(kv.chain, loc.chain):
				problems = append(problems, label+".Key is not key[loop index]")
			}
			if chv, ok := e.fields["Channel"]; !ok {
				problems = append(problems, label+".Channel is not the constant 0")
			} else if ch, ok := constInt(chv.v); !ok || ch != 0 {
				problems = append(problems, label+".Channel is not the constant 0")
			}
			if label == "NoteOn" {
				if vv, ok := e.fields["Velocity"]; !ok || !isRootParam(vv, velParam) {
					problems = append(problems, "NoteOn.Velocity is not the velocity parameter")
				}
			}
			if e.track.v != loop.index || !sameChain(e.track.chain, loc.chain) {
				problems = append(problems, label+"'s track argument is not the loop index (on and off of one key could land on different tracks)")
			}
			// delta: the op of iteration 0 carries the time, all others 0
			idx := loc.with(loop.index)
			var siteGuards []gcond
			for k := level; k <= len(e.sink.chain); k++ {
				in := e.sink.at(k)
				siteGuards = append(siteGuards, guardsOf(in.Block(), lval{nil, in.Parent(), e.sink.chain[:k]})...)
			}
			if e.delta.v == nil {
				problems = append(problems, label+" delta cannot be resolved")
				continue
			}
			if loop.start == 1 {
				// every key the loop visits comes after the first: delta 0 whatever the path
				for _, a := range m.tr.alts(e.delta, 0) {
					if k, isConst := constInt(a.leaf.v); !isConst || k != 0 {
						problems = append(problems, fmt.Sprintf("%s delta: the op for key 0 must carry %s and all others 0", label, firstName[label]))
					}
				}
				continue
			}
			for _, a := range m.tr.alts(e.delta, 0) {
				zero, known, feasible := false, false, true
				for _, g := range append(append([]gcond{}, siteGuards...), a.conds...) {
					if z, ok := m.tr.zeroTest(g, idx); ok {
						if known && z != zero {
							feasible = false
						}
						zero, known = z, true
					}
				}
				if !feasible {
					continue
				}
				k, isConst := constInt(a.leaf.v)
				isZeroLeaf := isConst && k == 0
				switch {
				case known && zero && isFirst(a.leaf):
				case known && !zero && isZeroLeaf:
				case !known && m.carriedFirstThenZero(a.leaf, loop, loc, isFirst):
				case !known && isFirst(a.leaf):
					problems = append(problems, "every "+label+" carries the time value: chord tones after the first are delayed")
				default:
					problems = append(problems, fmt.Sprintf("%s delta: the op for key 0 must carry %s and all others 0", label, firstName[label]))
				}
			}
		}
		if ph != nil && len(peeled) == 1 {
			// the peeled emission: key[0], channel 0, track 0, the time; in the function of the loop, in front of it, on every path
			e := peeled[0]
			in := e.sink.at(ph.level)
			switch {
			case len(e.sink.chain) < ph.level || !sameChain(e.sink.chain[:ph.level], ph.sink.chain[:ph.level]) || in.Parent() != ph.loop.header.Parent():
				problems = append(problems, label+": the emission for the first key is not in the function of the loop over the others")
			case !in.Block().Dominates(ph.loop.header) || ph.loop.blocks[in.Block()]:
				problems = append(problems, label+": the emission for the first key does not come in front of the loop over the others on every path")
			}
			kv, hasKey := e.fields["Key"]
			var ia *ssa.IndexAddr
			if hasKey {
				ia = indexOfLoad(kv.v)
			}
			if ia == nil || !isRootParam(kv.with(ia.X), keyParam) {
				problems = append(problems, label+".Key of the first emission is not an element of the key parameter")
			} else if k, ok := constInt(ia.Index); !ok || k != 0 {
				problems = append(problems, label+".Key of the first emission is not key[0]")
			}
			if chv, ok := e.fields["Channel"]; !ok {
				problems = append(problems, label+".Channel is not the constant 0")
			} else if ch, ok := constInt(chv.v); !ok || ch != 0 {
				problems = append(problems, label+".Channel is not the constant 0")
			}
			if label == "NoteOn" {
				if vv, ok := e.fields["Velocity"]; !ok || !isRootParam(vv, velParam) {
					problems = append(problems, "NoteOn.Velocity is not the velocity parameter")
				}
			}
			if e.kind != "one" || e.typKind != "midix.FixedTrack" {
				problems = append(problems, label+" is not a fixed-track op handed to TrackSetController.Add")
			}
			if tk, ok := constInt(m.tr.trace(e.track).v); !ok || tk != 0 {
				problems = append(problems, label+"'s track argument for the first key is not 0")
			}
			if e.delta.v == nil {
				problems = append(problems, label+" delta cannot be resolved")
			} else {
				for _, a := range m.tr.alts(e.delta, 0) {
					if !isFirst(a.leaf) {
						problems = append(problems, fmt.Sprintf("%s delta: the op for key 0 must carry %s and all others 0", label, firstName[label]))
					}
				}
			}
		}
		if ph != nil {
			mn, mx := pathsSiteCount(ph.loop, siteBlocks)
			if mn != 1 || mx != 1 {
				problems = append(problems, fmt.Sprintf("an iteration emits between %d and %d %s events (want exactly 1 on every path)", mn, mx, label))
			}
			// loop bound: index < len(key)
			loc := lval{nil, ph.sink.at(ph.level).Parent(), ph.sink.chain[:ph.level]}
			bl := m.tr.trace(loc.with(ph.loop.bound))
			if call, ok := bl.v.(*ssa.Call); !ok || calleeName(&call.Call) != "builtin.len" || !isRootParam(bl.with(call.Call.Args[0]), keyParam) {
				problems = append(problems, label+" loop is not bounded by len(key)")
			}
		}
		sort.Strings(problems)
		c.check(len(problems) == 0, name+"|"+label, c.pos(fn.Pos()), name, fmt.Sprintf("%d %s site(s): one per key, key[i], channel 0, track i, first carries the time", len(ss), label), strings.Join(uniq(problems), "; "))
		return ph
	}
	pon := checkPhase("NoteOn", ons)
	poff := checkPhase("NoteOff", offs)
	if pon != nil && poff != nil {
		good := false
		if pon.level == poff.level && sameChain(pon.sink.chain[:pon.level], poff.sink.chain[:poff.level]) {
			lon, loff := pon.loop, poff.loop
			good = lon.header != loff.header && lon.header.Dominates(loff.header) && !lon.blocks[loff.header] && !loff.blocks[lon.header]
		} else {
			// the loops live in different helpers: compare where the two call chains part
			k := 0
			for k < len(pon.sink.chain) && k < len(poff.sink.chain) && pon.sink.chain[k] == poff.sink.chain[k] {
				k++
			}
			ia, ib := pon.sink.at(k), poff.sink.at(k)
			good = ia != ib && ia.Parent() == ib.Parent() && dominatesInstr(ia, ib) && k <= pon.level && k <= poff.level && !shareLoop(ia.Block(), ib.Block())
		}
		c.check(good, name+"|order", c.pos(fn.Pos()), name, "all NoteOns (first loop) precede all NoteOffs (second loop)", "the NoteOn loop no longer completes before the NoteOff loop starts: strikes and releases interleave")
	}
	// no keys -> error
	hasGuard := false
	for _, f := range m.regionFuncs(fn) {
		allInstrs(f, func(in ssa.Instruction) {
			if b, ok := in.(*ssa.BinOp); ok && (b.Op == token.EQL || b.Op == token.LSS || b.Op == token.LEQ) {
				if call, ok := b.X.(*ssa.Call); ok && calleeName(&call.Call) == "builtin.len" && f == fn && call.Call.Args[0] == ssa.Value(keyParam) {
					hasGuard = true
				}
			}
		})
	}
	c.check(hasGuard, name+"|empty", c.pos(fn.Pos()), name, "a note without keys is an error", "Note no longer refuses an empty key list")
}

// carriedFirstThenZero: the delta is a loop-carried variable that holds the time value in the first iteration and 0 afterwards
// (`d := t; for ... { emit(d); d = 0 }`); sound together with the exactly-one-emission-per-iteration check.
func (m *writerModel) carriedFirstThenZero(l lval, loop *loopInfo, loc lval, isFirst func(lval) bool) bool {
	phi, ok := l.v.(*ssa.Phi)
	if !ok || phi.Block() != loop.header || !sameChain(l.chain, loc.chain) {
		return false
	}
	for i, e := range phi.Edges {
		el := m.tr.trace(l.with(e))
		if loop.blocks[phi.Block().Preds[i]] {
			if k, ok := constInt(el.v); !ok || k != 0 {
				return false
			}
		} else if !isFirst(el) {
			return false
		}
	}
	return true
}

// shareLoop: some natural loop contains both blocks.
func shareLoop(a, b *ssa.BasicBlock) bool {
	for _, h := range a.Parent().Blocks {
		if bl := naturalLoop(h); bl != nil && bl[a] && bl[b] {
			return true
		}
	}
	return false
}

// regionFuncs: the root and every helper looked into.
func (m *writerModel) regionFuncs(root *ssa.Function) []*ssa.Function {
	seen := map[*ssa.Function]bool{root: true}
	out := []*ssa.Function{root}
	for _, rc := range m.region(root) {
		if !seen[rc.fn] {
			seen[rc.fn] = true
			out = append(out, rc.fn)
		}
	}
	return out
}

func uniq(ss []string) []string {
	var out []string
	seen := map[string]bool{}
	for _, s := range ss {
		if !seen[s] {
			seen[s] = true
			out = append(out, s)
		}
	}
	return out
}

// ---------------------------------------------------------------------------
// TICKS

func ruleTicks(c *Ctx) {
	// the value -> ticks conversion is found by its role (an unexported MIDIWriter method float -> integer without side effects), not by name
	model := c.writerModel()
	var convs []*ssa.Function
	for f := range model.conv {
		convs = append(convs, f)
	}
	sort.Slice(convs, func(i, j int) bool { return convs[i].Name() < convs[j].Name() })
	if len(convs) == 0 {
		c.site(1)
		pos := ""
		if model.typ != nil {
			pos = c.pos(model.typ.Pos())
		}
		c.bad("midix.MIDIWriter|value-to-ticks", pos, "midix.MIDIWriter", "no MIDIWriter method converts a note value to ticks any more (uint32(Round(quarterTicks * value)))")
	}
	for _, fn := range convs {
		c.site(1)
		name := fname(fn)
		rets := returnsOf(fn)
		problem := "more than one return"
		if len(rets) == 1 {
			problem = c.checkRounding(fn, retVal(rets[0], 0))
		}
		c.check(problem == "", name, c.pos(fn.Pos()), name, "uint32(Round(float64(quarterTicks) * multiplier))", name+": "+problem)
	}
	// constructor: clock from parameter; quarter ticks from clock
	if nw := c.fn("midix", "NewWriter"); nw != nil {
		c.site(1)
		name := fname(nw)
		var clockV, qV ssa.Value
		allInstrs(nw, func(in ssa.Instruction) {
			if st, ok := in.(*ssa.Store); ok {
				if n, _, ok := fieldName(st.Addr); ok {
					switch {
					case strings.HasSuffix(typeName(st.Val.Type()), "smf.MetricTicks"):
						clockV = st.Val
					case n == c.quarterTicksField():
						qV = st.Val
					}
				}
			}
		})
		good := clockV != nil && stripConv(clockV) == ssa.Value(nw.Params[0])
		why := "the writer's clock is not the ticks-per-quarter parameter"
		if good && c.ticksFromClock && qV == nil {
			// the conversion asks the clock itself: nothing to keep in step
		} else if good {
			call, ok := qV.(*ssa.Call)
			good = ok && strings.HasSuffix(calleeName(&call.Call), "smf.MetricTicks.Ticks4th") && call.Call.Args[0] == clockV
			why = "quarter-note ticks are not derived from the same clock (header division and tick arithmetic can disagree)"
		}
		c.check(good, name, c.pos(nw.Pos()), name, "clock = parameter; quarter ticks = clock.Ticks4th()", name+": "+why)
	} else {
		c.missing("midix.NewWriter")
	}
	// Rat.Float
	if rf := c.fn("util", "Rat.Float"); rf != nil {
		c.site(1)
		rets := returnsOf(rf)
		good := false
		if len(rets) == 1 {
			if b, ok := rets[0].Results[0].(*ssa.BinOp); ok && b.Op == token.QUO {
				nx, _, okx := loadedFieldThroughConv(b.X)
				ny, _, oky := loadedFieldThroughConv(b.Y)
				good = okx && oky && nx == "Num" && ny == "Denom" && isFloat(b.X.Type()) && isFloat(b.Y.Type())
			}
		}
		c.check(good, fname(rf), c.pos(rf.Pos()), fname(rf), "float64(Num)/float64(Denom)", "Rat.Float is no longer float64(Num)/float64(Denom)")
	} else {
		c.missing("util.Rat.Float")
	}
	// play.Write: value = sum over all instance.Values, from 0
	if w := c.fn("play", "MIDIWriter.Write"); w != nil {
		c.site(1)
		name := fname(w)
		problem := c.checkValueSum(w)
		c.check(problem == "", name+"|value-sum", c.pos(w.Pos()), name, "value = 0 + sum of v.Float() over all instance.Values, handed to Rest and Note", name+": "+problem)
	} else {
		c.missing("play.MIDIWriter.Write")
	}
}

func isFloat(t types.Type) bool {
	b, ok := t.Underlying().(*types.Basic)
	return ok && b.Info()&types.IsFloat != 0
}

func loadedFieldThroughConv(v ssa.Value) (string, ssa.Value, bool) {
	return loadedField(stripConv(v))
}

// checkRounding: v = uint32(R(float64(w.quoaterNoteTicks) * multiplier)), R in {math.Round, math.RoundToEven, math.Floor(x+0.5)}.
func (c *Ctx) checkRounding(fn *ssa.Function, v ssa.Value) string {
	cv, ok := v.(*ssa.Convert)
	if !ok {
		return "result is not a conversion of a rounded float"
	}
	call, ok := cv.X.(*ssa.Call)
	if !ok {
		return "the product is converted to an integer without rounding (truncation): round(T x v) is required"
	}
	n := calleeName(&call.Call)
	arg := call.Call.Args[0]
	switch n {
	case "math.Round", "math.RoundToEven":
	case "math.Floor":
		b, ok := arg.(*ssa.BinOp)
		if !ok || b.Op != token.ADD {
			return "math.Floor without +0.5 rounds down instead of to nearest"
		}
		half := false
		for _, o := range []ssa.Value{b.X, b.Y} {
			if k, ok := o.(*ssa.Const); ok && k.Value != nil {
				if f, _ := constant.Float64Val(constant.ToFloat(k.Value)); f == 0.5 {
					half = true
					if o == b.X {
						arg = b.Y
					} else {
						arg = b.X
					}
				}
			}
		}
		if !half {
			return "math.Floor without +0.5 rounds down instead of to nearest"
		}
	default:
		return n + " is not rounding to nearest (Round / RoundToEven / Floor(x+0.5))"
	}
	mul, ok := arg.(*ssa.BinOp)
	if !ok || mul.Op != token.MUL {
		return "the rounded value is not quarterTicks * multiplier"
	}
	var q, m ssa.Value = mul.X, mul.Y
	if m != ssa.Value(fn.Params[1]) {
		q, m = mul.Y, mul.X
	}
	if m != ssa.Value(fn.Params[1]) {
		return "the multiplier parameter is not a factor"
	}
	if call, ok := stripConv(q).(*ssa.Call); ok && strings.HasSuffix(calleeName(&call.Call), "smf.MetricTicks.Ticks4th") && len(call.Call.Args) == 1 {
		// asked of the writer's clock on the spot instead of being kept in a field
		if _, _, isField := loadedFieldThroughConv(call.Call.Args[0]); isField && strings.HasSuffix(typeName(call.Call.Args[0].Type()), "smf.MetricTicks") {
			c.ticksFromClock = true
			return ""
		}
	}
	if nme, _, ok := loadedFieldThroughConv(q); !ok || nme != c.quarterTicksField() {
		return "the other factor is not the writer's quarter-note tick count"
	}
	return ""
}

// quarterTicksField: the MIDIWriter field NewWriter fills with clock.Ticks4th() (whatever it is called).
func (c *Ctx) quarterTicksField() string {
	name := "quoaterNoteTicks"
	if nw := c.fn("midix", "NewWriter"); nw != nil {
		var cands []string
		allInstrs(nw, func(in ssa.Instruction) {
			if st, ok := in.(*ssa.Store); ok {
				if n, _, ok := fieldName(st.Addr); ok {
					if call, isCall := st.Val.(*ssa.Call); isCall && strings.HasSuffix(calleeName(&call.Call), "smf.MetricTicks.Ticks4th") {
						cands = append(cands, n)
					}
				}
			}
		})
		// ... and nothing else ever writes it (a field that is recomputed later - from the meter, say - is not the clock's)
		for _, cand := range cands {
			writers := 0
			for _, f := range c.srcFuncs() {
				if pkgOfFunc(f) != pkgOfFunc(nw) {
					continue
				}
				allInstrs(f, func(in ssa.Instruction) {
					if st, ok := in.(*ssa.Store); ok {
						if n, _, ok := fieldName(st.Addr); ok && n == cand && strings.HasSuffix(typeName(st.Val.Type()), "uint32") {
							writers++
						}
					}
				})
			}
			if writers == 1 {
				name = cand
			}
		}
	}
	return name
}

// checkValueSum: in play.Write the argument of Rest / Note is a phi accumulating v.Float() over a range loop on instance.Values starting at 0.
func (c *Ctx) checkValueSum(w *ssa.Function) string {
	// the duration may be computed by an extracted helper: resolve the argument to where it is produced
	tr := &tracer{c: c, stop: func(f *ssa.Function) bool { return isExportedFn(f) }}
	region := c.regionCalls(w, func(f *ssa.Function) bool { return !isExportedFn(f) })
	var vals []lval
	for _, rc := range region {
		cc := rc.call.Common()
		if cc.IsInvoke() && typeName(cc.Value.Type()) == "midix.Writer" && (cc.Method.Name() == "Rest" || cc.Method.Name() == "Note") {
			vals = append(vals, tr.trace(lval{cc.Args[0], rc.fn, rc.chain}))
		}
	}
	if len(vals) < 2 {
		return "calls to Writer.Rest and Writer.Note not found"
	}
	for _, v := range vals {
		if !v.same(vals[0]) {
			return "Rest and Note are given different duration values"
		}
	}
	phi, ok := vals[0].v.(*ssa.Phi)
	if !ok {
		return "the duration is not an accumulator over the instance's values (e.g. only one value is used)"
	}
	zero, acc := false, false
	var loopPhi *ssa.Phi = phi
	for _, e := range phi.Edges {
		if k, ok := e.(*ssa.Const); ok && k.Value != nil {
			if f, _ := constant.Float64Val(constant.ToFloat(k.Value)); f == 0 {
				zero = true
			}
			continue
		}
		if b, ok := e.(*ssa.BinOp); ok && b.Op == token.ADD {
			var other ssa.Value
			if b.X == ssa.Value(loopPhi) {
				other = b.Y
			} else if b.Y == ssa.Value(loopPhi) {
				other = b.X
			}
			if call, ok := other.(*ssa.Call); ok && strings.HasSuffix(calleeName(&call.Call), "Rat.Float") || strings.HasSuffix(callName(other), ".Float") {
				acc = true
				// the element comes from instance.Values[loop index]
				if !c.elementOfField(other, "Values") {
					return "the summed values are not the elements of instance.Values"
				}
				if !c.loopCoversSlice(b.Block()) {
					return "the accumulation loop does not range over all of instance.Values"
				}
			}
		}
	}
	if !zero {
		return "the accumulator does not start at 0"
	}
	if !acc {
		return "the accumulator is not `value += v.Float()`"
	}
	return ""
}

func callName(v ssa.Value) string {
	if call, ok := v.(*ssa.Call); ok {
		return calleeName(&call.Call)
	}
	return ""
}

// elementOfField: the receiver of the call derives from an element of a slice loaded from a field with the given name.
func (c *Ctx) elementOfField(v ssa.Value, field string) bool {
	call, ok := v.(*ssa.Call)
	if !ok || len(call.Call.Args) == 0 {
		return false
	}
	seen := map[ssa.Value]bool{}
	var walk func(x ssa.Value, depth int) bool
	walk = func(x ssa.Value, depth int) bool {
		if depth > 12 || seen[x] {
			return false
		}
		seen[x] = true
		switch y := x.(type) {
		case *ssa.UnOp:
			return walk(y.X, depth+1)
		case *ssa.FieldAddr:
			if n, _, _ := fieldName(y); n == field {
				return true
			}
			return walk(y.X, depth+1)
		case *ssa.Field:
			if n, _, _ := fieldName(y); n == field {
				return true
			}
			return walk(y.X, depth+1)
		case *ssa.IndexAddr:
			return walk(y.X, depth+1)
		case *ssa.Index:
			return walk(y.X, depth+1)
		case *ssa.Alloc:
			for _, r := range *y.Referrers() {
				if st, ok := r.(*ssa.Store); ok && st.Addr == ssa.Value(y) && walk(st.Val, depth+1) {
					return true
				}
			}
		}
		return false
	}
	return walk(call.Call.Args[0], 0)
}

// ---------------------------------------------------------------------------
// SELECT

func ruleSelect(c *Ctx) {
	fn := c.fn("midix", "TrackNoSelectorImpl.Select")
	if fn == nil {
		c.missing("midix.TrackNoSelectorImpl.Select")
		return
	}
	c.site(1)
	name := fname(fn)
	// decided by folding the constructor and Select on track counts x ops, whatever Select keeps and however it branches
	if problem, n, ok := c.selectByFolding(); ok {
		c.check(problem == "", name, c.pos(fn.Pos()), name, fmt.Sprintf("decided by folding NewTrackNoSelector(N).Select(op) on %d calls (N = 1 .. 65535, meta ops and fixed ops 0 .. 2N+2): MetaTrack -> 0; FixedTrack -> 0 if N==1 else i%%(N-1)+1", n), name+": "+problem)
		c.checkSelectorCtor()
		return
	}
	defer c.checkSelectorCtor()
	// classify returns by the type assertion that dominates them
	type ret struct {
		r    *ssa.Return
		kind string
	}
	var rets []ret
	for _, r := range returnsOf(fn) {
		kind := "other"
		for _, b := range fn.Blocks {
			for _, in := range b.Instrs {
				ta, ok := in.(*ssa.TypeAssert)
				if !ok || !ta.CommaOk {
					continue
				}
				// block where ok is true
				for _, ref := range *ta.Referrers() {
					ex, ok := ref.(*ssa.Extract)
					if !ok || ex.Index != 1 {
						continue
					}
					for _, rr := range *ex.Referrers() {
						if iff, ok := rr.(*ssa.If); ok {
							t := iff.Block().Succs[0]
							if t == r.Block() || t.Dominates(r.Block()) {
								kind = typeName(ta.AssertedType)
							}
						}
					}
				}
			}
		}
		rets = append(rets, ret{r, kind})
	}
	var problems []string
	sawMeta, sawOne, sawMod := false, false, false
	for _, rt := range rets {
		v := rt.r.Results[0]
		switch rt.kind {
		case "midix.MetaTrack":
			k, ok := constInt(v)
			if !ok || k != 0 {
				problems = append(problems, "meta ops are not sent to track 0 (tempo / time / key signature events leave the first track)")
			}
			sawMeta = true
		case "midix.FixedTrack":
			if k, ok := constInt(v); ok {
				// the single-track case: must be guarded by trackNum == 1
				side, guarded := c.branchSide(rt.r.Block(), func(x ssa.Value) bool {
					b, ok := x.(*ssa.BinOp)
					if !ok || b.Op != token.EQL {
						return false
					}
					one, ok := constInt(b.Y)
					n, _, okf := loadedField(b.X)
					return ok && one == 1 && okf && n == "trackNum"
				})
				if k != 0 || !guarded || !side {
					problems = append(problems, "a fixed op gets a constant track outside the `trackNum == 1 -> 0` case")
				}
				sawOne = true
				continue
			}
			// n % (trackNum-1) + 1
			ok := false
			if add, isAdd := v.(*ssa.BinOp); isAdd && add.Op == token.ADD {
				var rem ssa.Value
				if k, isK := constInt(add.Y); isK && k == 1 {
					rem = add.X
				} else if k, isK := constInt(add.X); isK && k == 1 {
					rem = add.Y
				}
				if rb, isRem := rem.(*ssa.BinOp); isRem && rb.Op == token.REM {
					nn, _, okn := loadedField(rb.X)
					if sub, isSub := rb.Y.(*ssa.BinOp); isSub && sub.Op == token.SUB {
						tn, _, okt := loadedField(sub.X)
						one, okc := constInt(sub.Y)
						ok = okn && nn == "TrackNo" && okt && tn == "trackNum" && okc && one == 1
					}
				}
			}
			if !ok {
				problems = append(problems, "the track of the i-th fixed op is not TrackNo % (trackNum-1) + 1: with N >= 2 it can reach track 0 (the meta track) or exceed N-1 (index out of range)")
			}
			sawMod = true
		}
	}
	if !sawMeta {
		problems = append(problems, "no *MetaTrack case")
	}
	if !sawOne || !sawMod {
		problems = append(problems, "the *FixedTrack case lacks the single-track or the modulo branch")
	}
	c.check(len(problems) == 0, name, c.pos(fn.Pos()), name, "MetaTrack -> 0; FixedTrack -> 0 if N==1 else i%(N-1)+1", name+": "+strings.Join(uniq(problems), "; "))
}

// selectByFolding folds midix.NewTrackNoSelector(N) and, on what it returns, Select(op) for a meta op and for fixed ops
// 0 .. 2N+2 (and two large numbers) with N from 1 to 65535: a meta op goes to track 0; a fixed op i to track 0 when there
// is one track and to i % (N-1) + 1 otherwise. ok=false when something does not fold (the structural reading decides).
func (c *Ctx) selectByFolding() (string, int, bool) {
	ctor, sel := c.fn("midix", "NewTrackNoSelector"), c.fn("midix", "TrackNoSelectorImpl.Select")
	mp := c.pkg("midix")
	if ctor == nil || sel == nil || mp == nil || len(sel.Params) != 2 {
		return "", 0, false
	}
	mo, fo := mp.Types.Scope().Lookup("MetaTrack"), mp.Types.Scope().Lookup("FixedTrack")
	if mo == nil || fo == nil {
		return "", 0, false
	}
	debug := os.Getenv("CRDCHECK_DEBUG") != ""
	intT := types.Typ[types.Int]
	n := 0
	for _, N := range []int64{1, 2, 3, 4, 5, 8, 16, 17, 128, 255, 256, 65535} {
		fd := c.newFolder()
		fd.maxSteps = 20000
		r, err := fd.foldCall(ctor, []fval{{k: constant.MakeInt64(N), t: intT}})
		if err != nil || len(r.tuple) != 2 || !r.tuple[1].isNil {
			if debug {
				fmt.Fprintf(os.Stderr, "selectByFolding: NewTrackNoSelector(%d) does not fold: %v %s\n", N, err, r.String())
			}
			return "", 0, false
		}
		heap := fd.heap
		recv := r.tuple[0]
		if _, isPtr := sel.Params[0].Type().Underlying().(*types.Pointer); !isPtr {
			recv = fd.deref(recv)
		}
		if fd.cellType == nil {
			fd.cellType = map[*ssa.Alloc]types.Type{}
		}
		ks := []int64{-1}
		for k := int64(0); k <= 2*N+2 && k <= 40; k++ {
			ks = append(ks, k)
		}
		ks = append(ks, 255, 65536)
		for _, k := range ks {
			cell := new(ssa.Alloc)
			what, want := "a meta op", int64(0)
			if k < 0 {
				heap[cell] = fval{fields: map[string]fval{}}
				fd.cellType[cell] = types.NewPointer(mo.Type())
			} else {
				heap[cell] = fval{fields: map[string]fval{"TrackNo": {k: constant.MakeInt64(k), t: intT}}}
				fd.cellType[cell] = types.NewPointer(fo.Type())
				what = fmt.Sprintf("the fixed op %d", k)
				if N > 1 {
					want = k%(N-1) + 1
				}
			}
			fd.steps = 0
			fd.failedCalls, fd.incomplete = nil, nil
			sr, err := fd.foldCallEnv(sel, []fval{recv, {addr: &faddr{base: cell}}}, nil, heap)
			if err != nil || sr.k == nil || sr.k.Kind() != constant.Int || len(fd.failedCalls) > 0 {
				if debug {
					fmt.Fprintf(os.Stderr, "selectByFolding: Select(%s) with %d tracks does not fold: %v %s %v\n", what, N, err, sr.String(), fd.failedCalls)
				}
				return "", 0, false
			}
			n++
			if got, _ := constant.Int64Val(sr.k); got != want {
				msg := "the track of the i-th fixed op is not TrackNo % (trackNum-1) + 1: with N >= 2 it can reach track 0 (the meta track) or exceed N-1 (index out of range)"
				if k < 0 {
					msg = "meta ops are not sent to track 0 (tempo / time / key signature events leave the first track)"
				} else if N == 1 {
					msg = "a fixed op gets a track other than 0 when there is one track"
				}
				return fmt.Sprintf("with %d track(s) %s goes to track %d, want %d: %s", N, what, got, want, msg), n, true
			}
		}
	}
	return "", n, true
}

func (c *Ctx) checkSelectorCtor() {
	// constructor refuses N < 1
	if ctor := c.fn("midix", "NewTrackNoSelector"); ctor != nil {
		c.site(1)
		f := c.newFolder()
		var ret *ssa.Return
		f.hook = func(in ssa.Instruction, _ func(ssa.Value) fval) bool {
			if r, ok := in.(*ssa.Return); ok {
				ret = r
			}
			return false
		}
		f.foldCall(ctor, []fval{{k: constant.MakeInt64(0), t: types.Typ[types.Int]}})
		good := ret != nil && !isNilConst(ret.Results[1])
		c.check(good, fname(ctor), c.pos(ctor.Pos()), fname(ctor), "--track 0 is refused", "NewTrackNoSelector accepts 0 tracks: Select then divides by trackNum-1 = -1 / indexes an empty track list")
		// the SMF header holds the track count in 16 bits: 65535 is the largest count a file can declare
		c.site(1)
		refuses := func(n int64) (bool, bool) {
			f := c.newFolder()
			var last *ssa.Return
			f.hook = func(in ssa.Instruction, _ func(ssa.Value) fval) bool {
				if r, ok := in.(*ssa.Return); ok {
					last = r
				}
				return false
			}
			_, err := f.foldCall(ctor, []fval{{k: constant.MakeInt64(n), t: types.Typ[types.Int]}})
			if last == nil || (err != nil && err != errStopped && last == nil) {
				return false, false
			}
			return !isNilConst(last.Results[1]), true
		}
		r1, ok1 := refuses(1)
		rMax, ok2 := refuses(65535)
		rOver, ok3 := refuses(65536)
		for _, n := range []int64{65537, 70000, 1 << 17, 1<<31 - 1, 1 << 40} {
			r, ok := refuses(n)
			rOver, ok3 = rOver && r, ok3 && ok
		}
		switch {
		case !ok1 || !ok2 || !ok3:
			c.undec(fname(ctor)+"|upper-bound", c.pos(ctor.Pos()), fname(ctor), "the constructor does not fold for 1 / 65535 / 65536 tracks")
		default:
			c.check(!r1 && !rMax && rOver, fname(ctor)+"|upper-bound", c.pos(ctor.Pos()), fname(ctor), "1..65535 tracks accepted; 65536, 65537, 70000, 2^17, 2^31-1, 2^40 refused", fmt.Sprintf("NewTrackNoSelector: 1 refused=%v, 65535 refused=%v, all of 65536 / 65537 / 70000 / 2^17 / 2^31-1 / 2^40 refused=%v; the SMF header stores the number of tracks in 16 bits, so with --track 65536 and above `crd write` exits 0 with a header that declares (N mod 65536) tracks in front of N track chunks", r1, rMax, rOver))
		}
	} else {
		c.missing("midix.NewTrackNoSelector")
	}
	// same N for selector and set
	if fc := c.fn("midix", "NewTrackSetControllerFromTrackNum"); fc != nil {
		c.site(1)
		a := callsTo(fc, "midix.NewTrackNoSelector")
		b := callsTo(fc, "midix.NewTrackSetFromTrackNum")
		good := len(a) == 1 && len(b) == 1 && a[0].Common().Args[0] == ssa.Value(fc.Params[0]) && b[0].Common().Args[0] == ssa.Value(fc.Params[0])
		// selector error returned
		c.check(good, fname(fc), c.pos(fc.Pos()), fname(fc), "selector and track set built from the same N", "the selector and the track set are no longer built from the same track count")
	} else {
		c.missing("midix.NewTrackSetControllerFromTrackNum")
	}
	// NewTrackSetFromTrackNum builds exactly trackNum tracks
	if ns := c.fn("midix", "NewTrackSetFromTrackNum"); ns != nil {
		c.site(1)
		var mk *ssa.MakeSlice
		allInstrs(ns, func(in ssa.Instruction) {
			if m, ok := in.(*ssa.MakeSlice); ok {
				mk = m
			}
		})
		good := mk != nil
		if good {
			// the length is the parameter itself; the only other value allowed is 0 for a parameter below 1 (which the
			// selector's constructor refuses anyway): any other clamp makes header, selector and track list disagree
			tr := c.plainTracer()
			sawParam := false
			for _, a := range tr.alts(lval{mk.Len, ns, nil}, 0) {
				if a.leaf.v == ssa.Value(ns.Params[0]) {
					sawParam = true
					continue
				}
				// max(trackNum, 0) is the same clamp
				if call, ok := a.leaf.v.(*ssa.Call); ok && len(call.Call.Args) == 2 {
					if b, ok := call.Call.Value.(*ssa.Builtin); ok && b.Name() == "max" {
						x, y := call.Call.Args[0], call.Call.Args[1]
						if _, isK := constInt(x); isK {
							x, y = y, x
						}
						if k, isK := constInt(y); isK && k <= 0 && tr.trace(a.leaf.with(x)).v == ssa.Value(ns.Params[0]) {
							sawParam = true
							continue
						}
					}
				}
				k, isK := constInt(a.leaf.v)
				lowClamp := false
				for _, g := range a.conds {
					if cmp, ok := tr.trace(g.cond).v.(*ssa.BinOp); ok && cmp.X == ssa.Value(ns.Params[0]) {
						if y, ok := constInt(cmp.Y); ok && g.want && ((cmp.Op == token.LSS && y <= 1) || (cmp.Op == token.LEQ && y <= 0)) {
							lowClamp = true
						}
					}
				}
				if !isK || k != 0 || !lowClamp {
					good = false
				}
			}
			good = good && sawParam
		}
		newTracks := callsTo(ns, "midix.NewTrack")
		c.check(good && len(newTracks) == 1 && inLoop(newTracks[0].Block()), fname(ns), c.pos(ns.Pos()), fname(ns), "allocates trackNum tracks", "NewTrackSetFromTrackNum no longer creates exactly trackNum tracks")
	}
}

// ---------------------------------------------------------------------------
// OPMAP

func ruleOpMap(c *Ctx) {
	// writer method -> op type, fields from its own parameters (by position), delivered as a meta op to one track / every track
	type wm struct {
		method, op string
		fields     map[string]int // field -> parameter position (receiver = 0)
		kind       string
	}
	model := c.writerModel()
	for _, m := range []wm{
		{"Tempo", "midix.MetaTempo", map[string]int{"BPM": 1}, "one"},
		{"Meter", "midix.MetaMeter", map[string]int{"Num": 1, "Denom": 2}, "one"},
		{"Key", "midix.MetaKey", map[string]int{"Key": 1, "IsMajor": 2, "Num": 3, "IsFlat": 4}, "one"},
		{"Text", "midix.MetaText", map[string]int{"Text": 1}, "one"},
		{"Lyric", "midix.MetaLyric", map[string]int{"Text": 1}, "one"},
		{"Marker", "midix.MetaMarker", map[string]int{"Text": 1}, "one"},
		{"Close", "midix.Close", map[string]int{}, "all"},
	} {
		fn := c.fn("midix", "MIDIWriter."+m.method)
		if fn == nil || model.typ == nil {
			c.missing("midix.MIDIWriter." + m.method)
			continue
		}
		c.site(1)
		name := fname(fn)
		ems, probs := model.emissions(fn)
		problem := strings.Join(probs, "; ")
		if len(ems) != 1 {
			problem = fmt.Sprintf("%d emissions, want 1", len(ems))
		} else if problem == "" {
			e := ems[0]
			if e.opType != m.op {
				problem = fmt.Sprintf("emits %s, want %s", e.opType, m.op)
			}
			if e.kind != m.kind || e.typKind != "midix.MetaTrack" {
				problem = fmt.Sprintf("delivered as %s/%s, want %s/midix.MetaTrack (signature events must be meta-typed so that they land on track 0; end of track must reach every track)", e.kind, e.typKind, m.kind)
			}
			for f, idx := range m.fields {
				fv, ok := e.fields[f]
				if !ok || len(fv.chain) != 0 || idx >= len(fn.Params) || fv.v != ssa.Value(fn.Params[idx]) {
					problem = fmt.Sprintf("field %s is not parameter %d of %s", f, idx, m.method)
				}
			}
		}
		c.check(problem == "", name, c.pos(fn.Pos()), name, m.method+" -> "+m.op+" ("+m.kind+" track(s), meta)", name+": "+problem)
	}
	// op Call methods
	type om struct {
		typ, ctor string
		fields    []string
	}
	for _, o := range []om{
		{"MetaTempo", "smf.MetaTempo", []string{"BPM"}},
		{"MetaMeter", "smf.MetaMeter", []string{"Num", "Denom"}},
		{"MetaKey", "smf.MetaKey", []string{"Key", "IsMajor", "Num", "IsFlat"}},
		{"MetaText", "smf.MetaText", []string{"Text"}},
		{"MetaLyric", "smf.MetaLyric", []string{"Text"}},
		{"MetaMarker", "smf.MetaMarker", []string{"Text"}},
		{"MetaTrackSequenceName", "smf.MetaTrackSequenceName", []string{"Text"}},
		{"MetaInstrument", "smf.MetaInstrument", []string{"Text"}},
		{"ProgramChange", "midi/v2.ProgramChange", []string{"Channel", "Program"}},
		{"NoteOn", "midi/v2.NoteOn", []string{"Channel", "Key", "Velocity"}},
		{"NoteOff", "midi/v2.NoteOff", []string{"Channel", "Key"}},
		{"Close", "smf.Track.Close", nil},
	} {
		fn := c.fn("midix", o.typ+".Call")
		if fn == nil {
			c.missing("midix." + o.typ + ".Call")
			continue
		}
		c.site(1)
		name := fname(fn)
		problem := ""
		delta := fn.Params[2]
		if o.typ == "Close" {
			calls := callsIn(fn)
			found := false
			for _, ci := range calls {
				if strings.HasSuffix(calleeName(ci.Common()), o.ctor) {
					found = ci.Common().Args[1] == ssa.Value(delta)
				}
			}
			if !found {
				problem = "does not call Track.Close(deltaticks)"
			}
		} else {
			var ctorCall *ssa.Call
			var addCall ssa.CallInstruction
			for _, ci := range callsIn(fn) {
				n := calleeName(ci.Common())
				if strings.HasSuffix(n, o.ctor) {
					ctorCall, _ = ci.(*ssa.Call)
				}
				if strings.HasSuffix(n, "smf.Track.Add") {
					addCall = ci
				}
			}
			// the message may be added by a small helper every op goes through (emit(t, delta, msg)): the helper's own Add,
			// unconditional, with its parameters handed straight on, stands for the op's
			var deltaArg ssa.Value
			var msgArgs []ssa.Value
			conditional := false
			if addCall != nil {
				deltaArg = addCall.Common().Args[1]
				msgArgs = variadicValues(addCall.Common().Args[2])
				conditional = len(pathConds(addCall.Block())) > 0
			} else {
				for _, ci := range callsIn(fn) {
					h := staticCallee(ci.Common())
					if h == nil || !c.isRepoFunc(h) || pkgOfFunc(h) != pkgOfFunc(fn) || len(h.Blocks) == 0 {
						continue
					}
					for _, hc := range callsIn(h) {
						if !strings.HasSuffix(calleeName(hc.Common()), "smf.Track.Add") {
							continue
						}
						paramIdx := func(v ssa.Value) int {
							v = stripConv(v)
							for i, p := range h.Params {
								if ssa.Value(p) == v {
									return i
								}
							}
							return -1
						}
						di := paramIdx(hc.Common().Args[1])
						var mis []int
						for _, mv := range variadicValues(hc.Common().Args[2]) {
							mis = append(mis, paramIdx(mv))
						}
						if di < 0 || len(mis) != 1 || mis[0] < 0 || di >= len(ci.Common().Args) || mis[0] >= len(ci.Common().Args) {
							continue
						}
						addCall = ci
						deltaArg = ci.Common().Args[di]
						msgArgs = []ssa.Value{ci.Common().Args[mis[0]]}
						conditional = len(pathConds(ci.Block())) > 0 || len(pathConds(hc.Block())) > 0
					}
				}
			}
			switch {
			case ctorCall == nil:
				problem = "does not build its message with " + o.ctor
			case addCall == nil:
				problem = "does not add the message to the track"
			default:
				if deltaArg != ssa.Value(delta) {
					problem = "the delta passed to Track.Add is not the deltaticks parameter"
				}
				for i, f := range o.fields {
					n, _, ok := loadedField(stripConv(ctorCall.Call.Args[i]))
					if !ok || n != f {
						problem = fmt.Sprintf("argument %d of %s is not the op's field %s", i, o.ctor, f)
					}
				}
				// message flows into Add (variadic)
				flows := false
				for _, mv := range msgArgs {
					if c.flowsTo(ctorCall, mv) {
						flows = true
					}
				}
				if !flows {
					problem = "the message added is not the one constructed"
				}
				// on every path: an op that adds nothing for some values loses the event and the time it carries (a note-on
				// without its note-off, a delta that is never spent)
				if problem == "" && conditional {
					problem = "the message is added only under a condition: for some values the event - and the time it carries - is dropped (a note struck and never released when the two ops disagree)"
				}
			}
		}
		c.check(problem == "", name, c.pos(fn.Pos()), name, o.typ+" -> "+o.ctor, name+": "+problem)
	}
	// TrackOp.Call hands the op's own delta to the op func
	if fn := c.fn("midix", "TrackOp.Call"); fn != nil {
		c.site(1)
		good := false
		for _, ci := range callsIn(fn) {
			cc := ci.Common()
			if cc.IsInvoke() && cc.Method.Name() == "Call" {
				n, _, ok := loadedField(cc.Args[1])
				good = ok && n == "TickDelta" && cc.Args[0] == ssa.Value(fn.Params[1])
			}
		}
		c.check(good, fname(fn), c.pos(fn.Pos()), fname(fn), "Func.Call(t, op.TickDelta)", "TrackOp.Call no longer passes the op's own TickDelta to the op function")
	}
	// Track.Apply calls every op in order
	if fn := c.fn("midix", "Track.Apply"); fn != nil {
		c.site(1)
		calls := callsTo(fn, "midix.TrackOp.Call")
		good := len(calls) == 1 && inLoop(calls[0].Block()) && c.loopCoversSlice(calls[0].Block())
		c.check(good, fname(fn), c.pos(fn.Pos()), fname(fn), "every op applied, in order", "Track.Apply no longer applies every recorded op")
	}
}

// flowsTo: value `to` is `from` possibly through conversions / interface wrapping.
func (c *Ctx) flowsTo(from ssa.Value, to ssa.Value) bool {
	for i := 0; i < 8; i++ {
		if to == from {
			return true
		}
		switch x := to.(type) {
		case *ssa.MakeInterface:
			to = x.X
		case *ssa.ChangeType:
			to = x.X
		case *ssa.Convert:
			to = x.X
		case *ssa.ChangeInterface:
			to = x.X
		default:
			return false
		}
	}
	return false
}

// ---------------------------------------------------------------------------
// TRACKCOUNT

// checkDeltaBound: a delta time in a Standard MIDI File is a variable-length quantity of at most 4 bytes (0x0FFFFFFF).
// The ticks of an instance come from an unbounded user value (sum of duration fractions) and rests accumulate, so some
// comparison against that limit (or an equivalent bound on the value) must guard what is serialised.
func (c *Ctx) checkDeltaBound() {
	c.site(1)
	const maxVLQ = 0x0FFFFFFF
	found := ""
	for _, fn := range c.srcFuncs() {
		if fn.Pkg == nil {
			continue
		}
		switch short(fn.Pkg.Pkg.Path()) {
		case "midix", "play", "note", "op":
		default:
			continue
		}
		allInstrs(fn, func(in ssa.Instruction) {
			b, ok := in.(*ssa.BinOp)
			if !ok {
				return
			}
			switch b.Op {
			case token.LSS, token.LEQ, token.GTR, token.GEQ:
			default:
				return
			}
			for _, o := range []ssa.Value{b.X, b.Y} {
				if k, ok := o.(*ssa.Const); ok && k.Value != nil {
					if f, _ := constant.Float64Val(constant.ToFloat(k.Value)); f == maxVLQ || f == maxVLQ+1 {
						found = fname(fn)
					}
				}
			}
		})
	}
	pos := ""
	if m := c.writerModel(); m.typ != nil {
		pos = c.pos(m.typ.Pos())
	}
	c.check(found != "", "midix|delta|vlq-bound", pos, "midix.MIDIWriter", "deltas are compared with the 4-byte variable-length limit in "+found,
		"nothing bounds a delta time by 0x0FFFFFFF (the largest 4-byte variable-length quantity): an instance or a run of rests of 2^28 ticks or more (about 279621 beats at 960 ticks per quarter) is written as a 5-byte delta, which no SMF reader has to accept, and crd write still exits 0")
}

func ruleTrackCount(c *Ctx) {
	c.checkDeltaBound()
	if fn := c.fn("cmd", "getTrackSetController"); fn != nil {
		c.site(1)
		calls := callsTo(fn, "midix.NewTrackSetControllerFromTrackNum")
		good := false
		if len(calls) == 1 {
			if ex, ok := calls[0].Common().Args[0].(*ssa.Extract); ok && ex.Index == 0 {
				if call, ok := ex.Tuple.(*ssa.Call); ok && strings.HasSuffix(calleeName(&call.Call), "pflag.FlagSet.GetInt") {
					s, _ := constString(call.Call.Args[1])
					good = s == "track"
				}
			}
		}
		c.check(good, fname(fn), c.pos(fn.Pos()), fname(fn), "--track value -> NewTrackSetControllerFromTrackNum", "the --track flag value no longer reaches the track-set constructor unchanged")
	} else if root := c.fn("cmd", "newWriteCmdArgsFromInputInstances"); root != nil {
		// the helper is gone or renamed: the same question asked of what the write command's argument builder reaches
		c.site(1)
		tr := c.plainTracer()
		good := false
		n := 0
		for _, rc := range c.regionCalls(root, nil) {
			if calleeName(rc.call.Common()) != "midix.NewTrackSetControllerFromTrackNum" {
				continue
			}
			n++
			v := tr.trace(lval{rc.call.Common().Args[0], rc.fn, rc.chain}).v
			if ex, ok := v.(*ssa.Extract); ok && ex.Index == 0 {
				if call, ok := ex.Tuple.(*ssa.Call); ok && strings.HasSuffix(calleeName(&call.Call), "pflag.FlagSet.GetInt") {
					s, _ := constString(call.Call.Args[1])
					good = s == "track"
				}
			}
		}
		if !good && n == 1 {
			// ... or through a field of an options value that is filled from the flag
			const getTrack = "github.com/spf13/pflag.FlagSet.GetInt(github.com/spf13/cobra.Command.Flags(p0),\"track\")#0"
			facts := c.facts(root)
			for _, f := range facts {
				arg, ok := strings.CutPrefix(f, "call midix.NewTrackSetControllerFromTrackNum(")
				if !ok {
					continue
				}
				arg = strings.TrimSuffix(arg, ")")
				if arg == getTrack || (strings.HasPrefix(arg, "var<") && hasFact(facts, "store "+arg+" <- "+getTrack)) {
					good = true
				}
			}
		}
		c.check(good && n == 1, "cmd.getTrackSetController", c.pos(root.Pos()), fname(root), "--track value -> NewTrackSetControllerFromTrackNum", "the --track flag value no longer reaches the track-set constructor unchanged")
	} else {
		c.missing("cmd.getTrackSetController")
	}
	fn := c.fn("midix", "MIDIWriter.WriteTo")
	if fn == nil {
		c.missing("midix.MIDIWriter.WriteTo")
		return
	}
	c.site(1)
	name := fname(fn)
	problem := ""
	// the rendering may sit in a helper (build() + WriteTo): look at the whole region
	var addCall *ssa.Call
	var applyCall, getCall, lenCall, writeCall ssa.CallInstruction
	var addRC, writeRC *rcall
	region := c.regionCalls(fn, nil)
	trw := c.plainTracer()
	for i := range region {
		ci := region[i].call
		n := calleeName(ci.Common())
		switch {
		case strings.HasSuffix(n, "smf.SMF.Add"):
			addCall, _ = ci.(*ssa.Call)
			addRC = &region[i]
		case n == "midix.Track.Apply":
			applyCall = ci
		case n == "midix.TrackSet.Get":
			getCall = ci
		case n == "midix.TrackSet.Len":
			lenCall = ci
		case strings.HasSuffix(n, "smf.SMF.WriteTo"):
			writeCall = ci
			writeRC = &region[i]
		}
	}
	switch {
	case addCall == nil || applyCall == nil || getCall == nil || lenCall == nil || writeCall == nil:
		problem = "expected Len / Get / Apply / SMF.Add / SMF.WriteTo calls"
	case !inLoop(addCall.Block()) || !inLoop(applyCall.Block()) || addCall.Parent() != applyCall.Parent():
		problem = "tracks are not added in a loop"
	default:
		l := enclosingRangeLoop(addCall.Block())
		if l == nil {
			problem = "track loop not recognised"
		} else {
			if l.bound != ssa.Value(lenCall.(*ssa.Call)) {
				problem = "the loop is not bounded by the track set's Len()"
			}
			if getCall.Common().Args[1] != l.index {
				problem = "Get is not called with the loop index"
			}
		}
		// every iteration serialises its track: exactly one SMF.Add on every path through the loop body
		if l != nil && problem == "" {
			mn, mx := pathsSiteCount(l, map[*ssa.BasicBlock]int{addCall.Block(): 1})
			if mn != 1 || mx != 1 {
				problem = fmt.Sprintf("some iterations skip SMF.Add (between %d and %d calls per track): the file has fewer track chunks than --track asked for", mn, mx)
			}
		}
		// a fresh event list per track: the smf.Track filled by Apply and handed to Add is declared inside the loop
		// (SMF.Add keeps the slice; one buffer reused with t = t[:0] is overwritten by the next track)
		if l != nil && problem == "" {
			fresh := false
			if ld, ok := addCall.Call.Args[1].(*ssa.UnOp); ok && ld.Op == token.MUL {
				if al, ok := ld.X.(*ssa.Alloc); ok && l.blocks[al.Block()] {
					fresh = true
				}
			}
			if !fresh {
				problem = "the smf.Track handed to SMF.Add is not a fresh variable of the loop body: the same backing array is reused and earlier tracks are overwritten by later ones"
			}
		}
		// error of Add returned (through every helper level)
		if !c.errorReturnedUp(*addRC) {
			problem = "the error of SMF.Add is ignored (a track that cannot be added is silently dropped)"
		}
		// what is written is the SMF the tracks were added to
		if problem == "" {
			wr := trw.trace(lval{writeCall.Common().Args[0], writeRC.fn, writeRC.chain})
			ad := trw.trace(lval{addCall.Call.Args[0], addRC.fn, addRC.chain})
			if !wr.same(ad) {
				problem = "the SMF that is written out is not the one the tracks were added to"
			}
		}
	}
	// header division = writer clock
	tf := false
	regionFns := map[*ssa.Function]bool{fn: true}
	for _, rc := range region {
		regionFns[rc.fn] = true
	}
	for rf := range regionFns {
		allInstrs(rf, func(in ssa.Instruction) {
			if st, ok := in.(*ssa.Store); ok {
				if n, _, ok := fieldName(st.Addr); ok && n == "TimeFormat" {
					if ln, _, ok := loadedField(stripConv(st.Val)); ok && ln == "clock" {
						tf = true
					}
				}
			}
		})
	}
	allInstrs(fn, func(in ssa.Instruction) {
		if st, ok := in.(*ssa.Store); ok {
			if n, _, ok := fieldName(st.Addr); ok && n == "TimeFormat" {
				if ln, _, ok := loadedField(stripConv(st.Val)); ok && ln == "clock" {
					tf = true
				}
			}
		}
	})
	if problem == "" && !tf {
		problem = "the header's TimeFormat is not the writer's clock (header division and tick arithmetic disagree)"
	}
	// the file format is the library's choice from the number of tracks (smf.New: format 0 for one track, 1 for more):
	// no other constructor, no write to a format field
	for rf := range regionFns {
		allInstrs(rf, func(in ssa.Instruction) {
			if ci, ok := in.(ssa.CallInstruction); ok {
				if n := calleeName(ci.Common()); strings.Contains(n, "/smf.New") && !strings.HasSuffix(n, "/smf.New") {
					problem = "the SMF is made with " + n[strings.LastIndex(n, "/")+1:] + " instead of smf.New: the header's format no longer follows from the number of tracks (format 0 for one track)"
				}
			}
			if st, ok := in.(*ssa.Store); ok {
				if n, base, ok := fieldName(st.Addr); ok && strings.Contains(strings.ToLower(n), "format") && n != "TimeFormat" && strings.Contains(typeName(base.Type()), "smf.SMF") {
					problem = "the SMF's " + n + " is set by hand: the header's format no longer follows from the number of tracks"
				}
			}
		})
	}
	c.check(problem == "", name, c.pos(fn.Pos()), name, "every track 0..Len()-1 serialised; division = clock; format chosen by smf.New", name+": "+problem)
}

// restAccumulatesInline: fn is a single block that stores pending + ticks(value parameter) into the pending field and nothing else.
func (m *writerModel) restAccumulatesInline(fn *ssa.Function) bool {
	if len(fn.Blocks) != 1 || len(fn.Params) < 2 {
		return false
	}
	n, good := 0, false
	allInstrs(fn, func(in ssa.Instruction) {
		st, ok := in.(*ssa.Store)
		if !ok {
			return
		}
		n++
		f, isField := isFieldOfRecv(fn, st.Addr)
		if !isField || f != m.pending {
			return
		}
		add, ok := st.Val.(*ssa.BinOp)
		if !ok || add.Op != token.ADD {
			return
		}
		for _, pair := range [][2]ssa.Value{{add.X, add.Y}, {add.Y, add.X}} {
			ld, ok := pair[0].(*ssa.UnOp)
			if !ok || ld.Op != token.MUL {
				continue
			}
			if lf, ok := isFieldOfRecv(fn, ld.X); !ok || lf != m.pending {
				continue
			}
			if m.convOfParam(lval{pair[1], fn, nil}, fn, 1) {
				good = true
			}
		}
	})
	return n == 1 && good
}

// unconditionalAt: at every level of the call chain, no return of the function is reached without passing the
// instruction (or the call that leads to it).
func unconditionalAt(li linstr) bool {
	for k := 0; k <= len(li.chain); k++ {
		at := li.at(k)
		if bypassReturn(at.Parent(), at.Block(), func(*ssa.If) int { return -1 }) != nil {
			return false
		}
	}
	return true
}
