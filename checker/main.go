// crdcheck: static checker for the semantic properties C01..C17 of berquerant/crd.
//
// Every verdict is computed from /repo's current source (type-checked Go
// packages, their SSA form, the yacc grammar and the embedded YAML
// dictionaries). Nothing of crd is executed.
package main

import (
	"encoding/json"
	"flag"
	"fmt"
	"os"
	"path/filepath"
	"runtime/debug"
	"runtime/pprof"
	"sort"
	"strconv"
	"strings"
	"time"
)

type ruleDef struct {
	name  string
	doc   string
	floor int
	run   func(c *Ctx)
}

var registry = map[string]*ruleDef{}
var registryOrder []string

func register(name, doc string, floor int, run func(c *Ctx)) {
	if _, dup := registry[name]; dup {
		panic("duplicate rule " + name)
	}
	registry[name] = &ruleDef{name, doc, floor, run}
	registryOrder = append(registryOrder, name)
}

func verifRoot() string {
	if exe, err := os.Executable(); err == nil {
		d := filepath.Dir(filepath.Dir(exe))
		if _, err := os.Stat(filepath.Join(d, "properties.jsonl")); err == nil {
			return d
		}
	}
	if wd, err := os.Getwd(); err == nil {
		for d := wd; d != "/"; d = filepath.Dir(d) {
			if _, err := os.Stat(filepath.Join(d, "properties.jsonl")); err == nil {
				return d
			}
		}
	}
	return "/verif"
}

type overlayEdit struct {
	File    string `json:"file"` // relative to repo
	Old     string `json:"old,omitempty"`
	New     string `json:"new,omitempty"`
	Content string `json:"content,omitempty"`
}

type variantFile struct {
	ID         string        `json:"id"`
	Properties []string      `json:"properties"`
	Rules      []string      `json:"rules"`
	Note       string        `json:"note"`
	Edits      []overlayEdit `json:"edits"`
}

func buildOverlay(repo string, edits []overlayEdit) (map[string][]byte, error) {
	ov := map[string][]byte{}
	for _, e := range edits {
		abs := filepath.Join(repo, e.File)
		if e.Content != "" {
			ov[abs] = []byte(e.Content)
			continue
		}
		cur, ok := ov[abs]
		if !ok {
			b, err := os.ReadFile(abs)
			if err != nil {
				return nil, err
			}
			cur = b
		}
		if strings.Count(string(cur), e.Old) != 1 {
			return nil, fmt.Errorf("context changed: %q occurs %d times in %s", e.Old, strings.Count(string(cur), e.Old), e.File)
		}
		ov[abs] = []byte(strings.Replace(string(cur), e.Old, e.New, 1))
	}
	return ov, nil
}

func main() {
	var (
		prop       = flag.String("p", "", "property id (C01..C17) or 'all'")
		tier       = flag.String("tier", "quick", "quick|thorough")
		repo       = flag.String("repo", "/repo", "repository root")
		variant    = flag.String("variant", "", "variant JSON file applied as an in-memory overlay (testing the checker)")
		replay     = flag.String("replay", "", "replay record to re-check")
		noEvidence = flag.Bool("noevidence", false, "do not write evidence/replay files")
		onlyRules  = flag.String("rules", "", "comma separated rule names (debugging)")
		verbose    = flag.Bool("v", false, "print every obligation")
		list       = flag.Bool("list", false, "list rules and property mapping")
		manifest   = flag.Bool("manifest", false, "print MANIFEST.json generated from the property table")
		anchors    = flag.Bool("anchors", false, "developer aid: run all rules and print the anchor table (anchors.go)")
		describe   = flag.String("describe", "", "developer aid: print canonical descriptions of the calls/stores of pkg:Func")
	)
	flag.Parse()
	if *manifest {
		emitManifest()
		return
	}
	if t := os.Getenv("VERIF_TIER"); t == "quick" || t == "thorough" {
		*tier = t
	}
	seed := 0
	if s := os.Getenv("VERIF_SEED"); s != "" {
		seed, _ = strconv.Atoi(s)
	}
	root := verifRoot()

	if *list {
		for _, p := range propertyOrder {
			fmt.Printf("%s: %s\n", p, strings.Join(properties[p].Rules, " "))
		}
		return
	}

	if *describe != "" {
		ctx, err := load(*repo, nil)
		if err != nil {
			fmt.Fprintln(os.Stderr, err)
			os.Exit(2)
		}
		if *describe == "lextable" {
			dumpLexTable(ctx)
			return
		}
		if *describe == "foldscale" {
			dumpFoldScale(ctx)
			return
		}
		if *describe == "constindex" {
			dumpConstIndex(ctx)
			return
		}
		if *describe == "narrow" {
			dumpNarrow(ctx)
			return
		}
		dumpDescribe(ctx, *describe)
		return
	}
	if *replay != "" {
		os.Exit(doReplay(root, *repo, *replay))
	}
	if *prop == "" {
		fmt.Fprintln(os.Stderr, "usage: crdcheck -p <id|all> [-tier quick|thorough]")
		os.Exit(2)
	}
	var props []string
	if *prop == "all" {
		for _, p := range propertyOrder {
			if len(properties[p].Rules) > 0 && properties[p].NotApplicable == "" {
				props = append(props, p)
			}
		}
	} else {
		if _, ok := properties[*prop]; !ok {
			fmt.Fprintf(os.Stderr, "unknown property %s\n", *prop)
			os.Exit(2)
		}
		props = []string{*prop}
	}

	start := time.Now()
	var overlay map[string][]byte
	if *variant != "" {
		b, err := os.ReadFile(*variant)
		if err != nil {
			fmt.Fprintln(os.Stderr, "crdcheck:", err)
			os.Exit(2)
		}
		var vf variantFile
		if err := json.Unmarshal(b, &vf); err != nil {
			fmt.Fprintln(os.Stderr, "crdcheck:", err)
			os.Exit(2)
		}
		overlay, err = buildOverlay(*repo, vf.Edits)
		if err != nil {
			fmt.Fprintln(os.Stderr, "crdcheck: variant:", err)
			os.Exit(3)
		}
	}

	code := 0
	// the loaded program is large and long-lived: collect less often (peak memory stays below 4 GB)
	if os.Getenv("GOGC") == "" {
		debug.SetGCPercent(400)
	}
	if pf := os.Getenv("CRDCHECK_CPUPROFILE"); pf != "" {
		if f, err := os.Create(pf); err == nil {
			pprof.StartCPUProfile(f)
			defer pprof.StopCPUProfile()
		}
	}
	func() {
		defer func() {
			if r := recover(); r != nil {
				fmt.Fprintf(os.Stderr, "crdcheck: internal error: %v\n%s\n", r, debug.Stack())
				code = 2
			}
		}()
		ctx, err := load(*repo, overlay)
		if err != nil {
			fmt.Fprintln(os.Stderr, "crdcheck: cannot analyse:", err)
			code = 2
			return
		}
		// which rules to run
		need := map[string]bool{}
		for _, p := range props {
			for _, r := range properties[p].Rules {
				need[r] = true
			}
		}
		if *onlyRules != "" {
			only := map[string]bool{}
			for _, r := range strings.Split(*onlyRules, ",") {
				only[r] = true
			}
			for r := range need {
				if !only[r] {
					delete(need, r)
				}
			}
		}
		ctx.wants = func(rule, key string) bool {
			for _, p := range props {
				pd := properties[p]
				for _, r := range pd.Rules {
					if r == rule && pd.inScope(rule, key) {
						return true
					}
				}
			}
			return false
		}
		for _, name := range registryOrder {
			if !need[name] {
				continue
			}
			rd := registry[name]
			runRule(ctx, rd, *tier)
		}
		if *anchors {
			dumpAnchors(ctx)
			return
		}
		known, err := loadKnown(filepath.Join(root, "known_findings.json"))
		if err != nil {
			fmt.Fprintln(os.Stderr, "crdcheck: known_findings.json:", err)
			code = 2
			return
		}
		for _, p := range props {
			rc := report(ctx, root, p, *tier, seed, known, start, *noEvidence || *variant != "", *verbose, *onlyRules != "")
			if rc > code {
				code = rc
			}
		}
		if *tier == "thorough" && *variant == "" && !*noEvidence {
			for _, p := range props {
				sweepVariants(root, *repo, p)
				sweepPinned(root, *repo, p, known)
				sweepSeeded(root, *repo, p)
			}
		}
	}()
	pprof.StopCPUProfile()
	os.Exit(code)
}

func runRule(ctx *Ctx, rd *ruleDef, tier string) {
	ctx.rule(rd.name, rd.doc, rd.floor)
	func() {
		defer func() {
			if r := recover(); r != nil {
				ctx.curRule = rd.name
				ctx.undec("internal", "", "", fmt.Sprintf("rule crashed: %v\n%s", r, debug.Stack()))
			}
		}()
		rd.run(ctx)
	}()
	ctx.curRule = rd.name
	ctx.finishRule()
}

// ---- known findings ----

type knownEntry struct {
	Property  string `json:"property"`
	Rule      string `json:"rule"`
	Construct string `json:"construct"`
	Status    string `json:"status"` // known | fixed
	Commit    string `json:"commit,omitempty"`
	What      string `json:"what"`
}

type knownFile struct {
	Findings []knownEntry `json:"findings"`
}

func loadKnown(path string) (*knownFile, error) {
	b, err := os.ReadFile(path)
	if os.IsNotExist(err) {
		return &knownFile{}, nil
	}
	if err != nil {
		return nil, err
	}
	var k knownFile
	if err := json.Unmarshal(b, &k); err != nil {
		return nil, err
	}
	return &k, nil
}

func (k *knownFile) match(prop string, o *Obligation) *knownEntry {
	for i := range k.Findings {
		e := &k.Findings[i]
		if e.Status == "known" && e.Property == prop && e.Rule == o.Rule && e.Construct == o.Key {
			return e
		}
	}
	return nil
}

// ---- reporting ----

type replayRecord struct {
	Property  string      `json:"property"`
	Rule      string      `json:"rule"`
	Construct string      `json:"construct"`
	Kind      string      `json:"kind"` // violated | undecided
	Finding   *Obligation `json:"finding"`
	Statement string      `json:"rule_statement"`
	Cmd       string      `json:"recheck_cmd"`
}

func report(ctx *Ctx, root, prop, tier string, seed int, known *knownFile, start time.Time, noEvidence, verbose, partial bool) int {
	pd := properties[prop]
	inProp := map[string]bool{}
	for _, r := range pd.Rules {
		inProp[r] = true
	}
	var obs []*Obligation
	for _, o := range ctx.obs {
		if inProp[o.Rule] && pd.inScope(o.Rule, o.Key) {
			obs = append(obs, o)
		}
	}
	if !partial && len(obs) == 0 {
		fmt.Fprintf(os.Stderr, "crdcheck: property %s produced no obligations\n", prop)
		return 2
	}
	violations := 0
	discharged := 0
	distinct := map[string]bool{}
	var knownHit []string
	evdir := filepath.Join(root, "evidence")
	for _, o := range obs {
		distinct[o.Rule+"|"+o.Key] = true
		if verbose {
			fmt.Printf("  [%s] %s %s %s — %s\n", o.Status, o.Rule, o.Key, o.Pos, o.Msg)
		}
		if o.Status == Discharged {
			discharged++
			continue
		}
		if e := known.match(prop, o); e != nil {
			fmt.Printf("KNOWN-FINDING: property=%s rule=%s construct=%s %s — %s\n", prop, o.Rule, o.Key, o.Pos, e.What)
			knownHit = append(knownHit, o.Rule+"|"+o.Key)
			continue
		}
		violations++
		rp := filepath.Join(evdir, "replay", fmt.Sprintf("%s-%s-%s.json", prop, o.Rule, hashKey(o.Key)))
		if !noEvidence {
			os.MkdirAll(filepath.Dir(rp), 0o755)
			rec := replayRecord{Property: prop, Rule: o.Rule, Construct: o.Key, Kind: string(o.Status), Finding: o,
				Statement: ctx.stats[o.Rule].Doc, Cmd: "./bin/crdcheck -replay " + rp}
			b, _ := json.MarshalIndent(rec, "", "  ")
			os.WriteFile(rp, b, 0o644)
		}
		fmt.Printf("FINDING property=%s rule=%s kind=%s construct=%q at %s in %s: %s\n", prop, o.Rule, o.Status, o.Key, o.Pos, o.Func, o.Msg)
		for _, w := range o.Witness {
			fmt.Printf("    witness: %s\n", w)
		}
		fmt.Printf("VIOLATION property=%s replay=%s\n", prop, rp)
	}

	// evidence
	if !noEvidence {
		var stats []*RuleStat
		evals := 0
		for _, r := range pd.Rules {
			if s, ok := ctx.stats[r]; ok {
				stats = append(stats, s)
				evals += s.Sites
			}
		}
		samples := sampleObligations(obs, 24)
		ev := map[string]any{
			"property_id": prop,
			"tier":        tier,
			"seed":        seed,
			"level":       "other",
			"coverage": map[string]any{
				"explanation":         explain(pd),
				"not_decided":         pd.NotDecided,
				"obligations":         len(obs),
				"discharged":          discharged,
				"evaluations":         max(evals, len(obs)),
				"distinct_nontrivial": len(distinct),
				"rule":                "one obligation per (rule, construct): a table row compared with the independent music-theory specification, a call site / function / path checked against the rule's statement; distinct = distinct construct keys; non-trivial = the rule found its anchor in the source and had something to decide (vacuous matches are not recorded)",
				"samples":             samples,
				"checker_cmd":         "./bin/crdcheck -p " + prop + " -tier " + tier,
				"trusted_base":        trustedBase,
				"rules":               stats,
				"packages_analysed":   len(ctx.Pkgs),
				"functions_analysed":  ctx.NFuncs,
				"known_findings_hit":  knownHit,
				"exhaustive":          false,
			},
			"assumptions": trustedBase,
			"wall_s":      time.Since(start).Seconds(),
			"violations":  violations,
		}
		os.MkdirAll(evdir, 0o755)
		b, _ := json.MarshalIndent(ev, "", " ")
		if err := os.WriteFile(filepath.Join(evdir, prop+".json"), b, 0o644); err != nil {
			fmt.Fprintln(os.Stderr, "crdcheck: evidence:", err)
			return 2
		}
	}
	fmt.Printf("%s: %d obligations, %d discharged, %d known findings, %d violations (%d rules, %d packages, %d functions, %.1fs)\n",
		prop, len(obs), discharged, len(knownHit), violations, len(pd.Rules), len(ctx.Pkgs), ctx.NFuncs, time.Since(start).Seconds())
	if violations > 0 {
		return 1
	}
	return 0
}

func sampleObligations(obs []*Obligation, n int) []*Obligation {
	// one per rule first, then fill
	var out []*Obligation
	seenRule := map[string]int{}
	for _, o := range obs {
		if seenRule[o.Rule] < 2 {
			out = append(out, o)
			seenRule[o.Rule]++
		}
	}
	sort.SliceStable(out, func(i, j int) bool { return out[i].Status != Discharged && out[j].Status == Discharged })
	if len(out) > n {
		out = out[:n]
	}
	return out
}

var trustedBase = []string{
	"Go type checker, go/ssa and golang.org/x/tools v0.29.0 (loading, SSA construction, dominators)",
	"goyacc is a correct LALR(1) generator: with 0 conflicts the generated parser accepts exactly L(chords.y) over token strings",
	"gomidi smf/midi v2.2.19 serialises closed tracks into a well-formed SMF (byte layout, VLQ, clamping, tempo/meter/key encodings)",
	"yaml.v3 sorts map keys and honours MarshalYAML/UnmarshalYAML; cobra calls RunE and returns its error from Execute",
	"ybase v0.7.0: Peek returns EOF(-1) at end of input and Next/Discard make no progress there; NextWhile/DiscardWhile loop on pred(Peek())",
	"the independent music-theory specification inside the checker (spec.go) written from first principles",
}

func doReplay(root, repo, path string) int {
	b, err := os.ReadFile(path)
	if err != nil {
		fmt.Fprintln(os.Stderr, "crdcheck:", err)
		return 2
	}
	var rec replayRecord
	if err := json.Unmarshal(b, &rec); err != nil {
		fmt.Fprintln(os.Stderr, "crdcheck:", err)
		return 2
	}
	rd, ok := registry[rec.Rule]
	if !ok {
		fmt.Fprintln(os.Stderr, "crdcheck: unknown rule", rec.Rule)
		return 2
	}
	ctx, err := load(repo, nil)
	if err != nil {
		fmt.Fprintln(os.Stderr, "crdcheck: cannot analyse:", err)
		return 2
	}
	runRule(ctx, rd, "quick")
	for _, o := range ctx.obs {
		if o.Rule == rec.Rule && o.Key == rec.Construct && o.Status != Discharged {
			fmt.Printf("FINDING property=%s rule=%s kind=%s construct=%q at %s in %s: %s\n", rec.Property, o.Rule, o.Status, o.Key, o.Pos, o.Func, o.Msg)
			for _, w := range o.Witness {
				fmt.Printf("    witness: %s\n", w)
			}
			fmt.Printf("VIOLATION property=%s replay=%s\n", rec.Property, path)
			return 1
		}
	}
	fmt.Printf("replay: rule %s construct %q no longer violated on the current tree\n", rec.Rule, rec.Construct)
	return 0
}

func explain(pd *propDef) string {
	if pd.Explanation != "" {
		return "Decided statically: " + pd.Explanation + " Not decided: " + pd.NotDecided
	}
	return "Static rule set (" + strings.Join(pd.Rules, ", ") + ") over the type-checked source and SSA of /repo; each obligation is one (rule, construct) pair; see DESIGN.md §3."
}
