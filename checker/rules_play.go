package main

// PATH rules on package play / chord / util: PLAYLOOP, APPLY, OPT, EXTENDS, BUILDER.

import (
	"fmt"
	"go/constant"
	"go/token"
	"go/types"
	"os"
	"sort"
	"strings"

	"golang.org/x/tools/go/ssa"
)

func init() {
	register("APPLY", "play.Key.Apply emits exactly: bass = MiddleC + key + degree + base - 12, and for every attribute of the chord tone = MiddleC + key + degree + attribute; nothing else; every failed lookup / invalid interval is an error", 2, ruleApply)
	register("PLAYLOOP", "per instance, in this order: Validate -> update -> writeWhenUpdated -> (Rest | newKey(getKey) -> Apply -> Note); Close after the last instance and nothing after it; an empty piece is an error; flags override instance 0 only", 3, rulePlayLoop)
	register("OPT", "Opt cells emit on first use and after every Update; update stores every non-nil setting of the instance; bpm/meter/key/meta cells are wired to Tempo/Meter/Key/Text-Lyric-Marker with the right values", 12, ruleOpt)
	register("EXTENDS", "GetChordAttributes returns the parent's attributes (recursively) followed by the chord's own, each looked up by name", 1, ruleExtends)
	register("BUILDER", "Builder.Build indexes every chord by name and by display; built-in definitions are added before user files", 2, ruleBuilder)
}

// ---------------------------------------------------------------------------
// APPLY

// appendClosure: fn's body is `*cell = append(*cell, param)`; returns the captured cell's free variable.
func appendClosure(fn *ssa.Function) (*ssa.FreeVar, bool) {
	if fn == nil || len(fn.Params) != 1 || len(fn.FreeVars) == 0 {
		return nil, false
	}
	var cell *ssa.FreeVar
	n := 0
	// straight-line: every call appends (a filter in front of the append would drop pitches, e.g. a bass equal to a chord tone)
	if len(fn.Blocks) != 1 {
		return nil, false
	}
	allInstrs(fn, func(in ssa.Instruction) {
		st, ok := in.(*ssa.Store)
		if !ok {
			return
		}
		fv, isFV := st.Addr.(*ssa.FreeVar)
		call, isCall := st.Val.(*ssa.Call)
		if !isFV || !isCall || calleeName(&call.Call) != "builtin.append" {
			return
		}
		vals := variadicValues(call.Call.Args[1])
		if len(vals) == 1 && vals[0] == ssa.Value(fn.Params[0]) {
			if ld, ok := call.Call.Args[0].(*ssa.UnOp); ok && ld.X == ssa.Value(fv) {
				cell = fv
				n++
			}
		}
	})
	return cell, n == 1
}

// checkNewChordBase: op.NewChord keeps a given bass interval whatever it is and falls back to the default only when there
// is none: folded on every interval 1..15 of every quality as the base.
func (c *Ctx) checkNewChordBase() {
	fn := c.fn("op", "NewChord")
	if fn == nil || len(fn.Params) != 3 {
		return
	}
	dnames := c.enumConsts("note", "DegreeName")
	problem, n := "", 0
	deg := fval{fields: map[string]fval{"Value": {k: constant.MakeInt64(5)}, "Name": {k: constant.MakeInt64(dnames["PerfectDegree"])}}}
	for _, dn := range sortedKeys(dnames) {
		for v := int64(1); v <= 15; v++ {
			base := &StructV{Fields: map[string]Val{"Value": &CVal{V: constant.MakeInt64(v)}, "Name": &CVal{V: constant.MakeInt64(dnames[dn])}}}
			r, err := c.newFolder().foldCall(fn, []fval{deg, top, {cvptr: base}})
			if err != nil || r.fields == nil || r.fields["Base"].fields == nil {
				if os.Getenv("CRDCHECK_DEBUG") != "" {
					fmt.Fprintf(os.Stderr, "checkNewChordBase: %v %s\n", err, r.String())
				}
				continue
			}
			b := r.fields["Base"].fields
			if b["Value"].k == nil || b["Name"].k == nil {
				continue
			}
			n++
			gv, _ := constant.Int64Val(b["Value"].k)
			gn, _ := constant.Int64Val(b["Name"].k)
			if gv != v || gn != dnames[dn] {
				problem = fmt.Sprintf("a chord made with the base %s %d carries the base (%d, %d) instead", dn, v, gn, gv)
			}
		}
	}
	if n > 0 {
		c.site(1)
		c.check(problem == "", "op.NewChord|base", c.pos(fn.Pos()), fname(fn), fmt.Sprintf("a given base is kept as it is (%d intervals folded)", n), "op.NewChord: "+problem+": the bass of such a slash chord sounds on another pitch")
	}
}

func ruleApply(c *Ctx) {
	c.checkNewChordBase()
	if fn := c.fn("play", "Key.Apply"); fn != nil {
		if problem, n, ok := c.chordPipelineVerdict(); ok {
			c.site(1)
			c.check(problem == "", "play.Key.Apply|pipeline", c.pos(fn.Pos()), fname(fn), fmt.Sprintf("%d chords folded end to end (builder, validated map, NewKey, NewChord, Apply): every built-in symbol by name and by display on C, four symbols in all 28 keys on four roots over four basses: bass an octave below the root, then the chord's intervals parent first", n), "from the built-in dictionary through Builder.Build, NewKey and NewChord to Key.Apply: "+problem)
		}
	}
	fn := c.fn("play", "Key.Apply")
	if fn == nil {
		c.missing("play.Key.Apply")
		return
	}
	name := fname(fn)
	// emission sites: calls of an append-closure, or direct appends
	type emit struct {
		val  ssa.Value
		in   ssa.Instruction
		cell ssa.Value
	}
	var emits []emit
	for _, ci := range callsIn(fn) {
		cc := ci.Common()
		if mc, ok := cc.Value.(*ssa.MakeClosure); ok {
			cf := mc.Fn.(*ssa.Function)
			if fv, ok := appendClosure(cf); ok {
				for i, f := range cf.FreeVars {
					if f == fv {
						emits = append(emits, emit{cc.Args[0], ci, mc.Bindings[i]})
					}
				}
				continue
			}
			c.undec(name+"|closure", c.pos(ci.Pos()), name, "a closure other than the append helper is called")
		}
		if calleeName(cc) == "builtin.append" {
			if t, ok := cc.Args[0].Type().Underlying().(*types.Slice); ok && typeName(t.Elem()) == "play.MIDINoteNumber" {
				for _, v := range variadicValues(cc.Args[1]) {
					emits = append(emits, emit{v, ci, nil})
				}
			}
		}
	}
	var midC int64 // the part of the constant that is middle C's note number, when it was folded into it
	wantCommon := func(af *affForm) (ok bool, rest map[string]int64, why string) {
		rest = map[string]int64{}
		var a, k, d int
		for _, t := range af.nonzero() {
			co := af.terms[t]
			switch {
			case strings.HasPrefix(t, "play.SPN.MIDINoteNumber(") && strings.Contains(t, "play.MiddleC"):
				a += int(co)
			case strings.HasPrefix(t, "op.Key.Semitone(") && strings.Contains(t, "p0.key"):
				k += int(co)
			case strings.HasPrefix(t, "note.Degree.Semitone(") && strings.Contains(t, "p1.Degree") && strings.HasSuffix(t, "#0"):
				d += int(co)
			default:
				rest[t] = co
			}
		}
		// middle C: as the term MiddleC.MIDINoteNumber() with coefficient 1, or - when that folds - as 60 in the constant
		if a == 0 && af.k >= 48 {
			a, midC = 1, 60
		} else {
			midC = 0
		}
		switch {
		case a != 1:
			return false, rest, fmt.Sprintf("middle C occurs with coefficient %d", a)
		case k != 1:
			return false, rest, fmt.Sprintf("the key's tonic occurs with coefficient %d (transposing the key would not shift this pitch by the tonic distance)", k)
		case d != 1:
			return false, rest, fmt.Sprintf("the chord degree occurs with coefficient %d", d)
		}
		return true, rest, ""
	}
	nBass, nTone := 0, 0
	var attrsVal ssa.Value
	for _, ci := range callsIn(fn) {
		if cc := ci.Common(); cc.IsInvoke() && cc.Method.Name() == "GetChordAttributes" {
			for _, r := range *ci.(*ssa.Call).Referrers() {
				if ex, ok := r.(*ssa.Extract); ok && ex.Index == 0 {
					attrsVal = ex
				}
			}
			// looked up by the chord's own name
			if n, _, ok := loadedField(cc.Args[0]); !ok || n != "Name" {
				c.bad(name+"|lookup-key", c.pos(ci.Pos()), name, "attributes are not looked up by the chord's name")
			}
		}
	}
	for _, e := range emits {
		af := c.expandReceiverFields(fn, c.affine(fn, e.val))
		l := enclosingRangeLoop(e.in.Block())
		if af.bad != "" {
			c.bad(name+"|emit", c.pos(e.in.Pos()), name, "an emitted pitch is not an affine sum: "+af.bad)
			continue
		}
		ok, rest, why := wantCommon(af)
		if l == nil {
			// the bass
			nBass++
			c.site(1)
			good := ok && af.k-midC == -12 && len(rest) == 1
			for t, co := range rest {
				if !(strings.HasPrefix(t, "note.Degree.Semitone(") && strings.Contains(t, "p1.Base") && strings.HasSuffix(t, "#0") && co == 1) {
					good = false
				}
			}
			if why == "" {
				why = "bass pitch is " + af.String() + ", want MiddleC + key + degree + base - 12"
			}
			c.check(good, name+"|bass", c.pos(e.in.Pos()), name, "bass = "+af.String(), name+": "+why)
			continue
		}
		nTone++
		c.site(1)
		good := ok && af.k-midC == 0 && len(rest) == 1
		for t, co := range rest {
			if !(strings.HasPrefix(t, "chord.Attribute.Semitone(") && strings.HasSuffix(t, "#0") && co == 1) {
				good = false
			}
		}
		if why == "" {
			why = "tone pitch is " + af.String() + ", want MiddleC + key + degree + attribute"
		}
		// the loop ranges over all attributes returned by the lookup
		if good {
			if call, isLen := l.bound.(*ssa.Call); !isLen || calleeName(&call.Call) != "builtin.len" || call.Call.Args[0] != attrsVal {
				good, why = false, "the tone loop does not range over all attributes returned by GetChordAttributes"
			}
		}
		if good {
			// the attribute is attrs[loop index]
			found := false
			allInstrs(fn, func(in ssa.Instruction) {
				if ia, ok := in.(*ssa.IndexAddr); ok && ia.X == attrsVal && ia.Index == l.index && l.blocks[ia.Block()] {
					found = true
				}
			})
			if !found {
				good, why = false, "the attribute used is not attrs[loop index]"
			}
		}
		c.check(good, name+"|tone", c.pos(e.in.Pos()), name, "tone = "+af.String(), name+": "+why)
	}
	c.check(nBass == 1 && nTone == 1, name+"|count", c.pos(fn.Pos()), name, "one bass emission outside the loop, one tone emission per attribute", fmt.Sprintf("%s emits %d pitches outside the attribute loop and has %d emission sites inside it (want 1 and 1): an extra or missing note per chord", name, nBass, nTone))
	// the returned slice is the cell that was appended to
	retOK := false
	for _, r := range returnsOf(fn) {
		if isNilConst(r.Results[1]) {
			if ld, ok := r.Results[0].(*ssa.UnOp); ok && ld.Op == token.MUL {
				for _, e := range emits {
					if e.cell != nil && ld.X == e.cell {
						retOK = true
					}
				}
			}
			if call, ok := r.Results[0].(*ssa.Call); ok && calleeName(&call.Call) == "builtin.append" {
				retOK = true
			}
			if _, ok := r.Results[0].(*ssa.Phi); ok {
				retOK = true
			}
		}
	}
	c.check(retOK, name+"|result", c.pos(fn.Pos()), name, "returns the slice it appended to", "the successful return does not return the collected pitches")
	// every comma-ok result guards its use
	for _, ci := range callsIn(fn) {
		call, ok := ci.(*ssa.Call)
		if !ok {
			continue
		}
		n := calleeName(&call.Call)
		if !(strings.HasSuffix(n, ".Semitone") || strings.HasSuffix(n, "GetChordAttributes")) {
			continue
		}
		res := call.Call.Signature().Results()
		if res.Len() != 2 {
			continue
		}
		c.check(c.missReturnsError(call, 1, nil), name+"|guard|"+n, c.pos(call.Pos()), name, "failure of "+n+" is an error", "the ok result of "+n+" is not checked: an invalid interval or unknown chord is played as 0 semitones")
	}
	// ... and nothing else is refused: an error is returned only where one of those lookups failed (a range check on the
	// root's or a tone's distance refuses chords that have a sound: the seventh degree of every major key, say)
	c.site(1)
	refusal := ""
	for _, r := range returnsOf(fn) {
		if len(r.Results) != 2 || isNilConst(r.Results[1]) {
			continue
		}
		failed := false
		for _, pc := range pathConds(r.Block()) {
			if ex, ok := pc.cond.(*ssa.Extract); ok {
				if _, isCall := ex.Tuple.(*ssa.Call); isCall && !pc.side {
					failed = true
				}
				continue
			}
			if u, ok := pc.cond.(*ssa.UnOp); ok && u.Op == token.NOT {
				if ex, ok := u.X.(*ssa.Extract); ok {
					if _, isCall := ex.Tuple.(*ssa.Call); isCall && pc.side {
						failed = true
					}
					continue
				}
			}
			if b, ok := pc.cond.(*ssa.BinOp); ok {
				if cb := condBlock(fn, pc.cond); cb != nil && isLoopHeader(cb) {
					continue // the test of the loop over the attributes
				}
				if isNilConst(b.X) || isNilConst(b.Y) {
					continue
				}
				refusal = "an error return (" + c.pos(r.Pos()) + ") stands under the comparison `" + b.String() + "`"
			}
		}
		if !failed && refusal == "" {
			// an error handed on from a callee is a failed step too
			if _, isConstErr := r.Results[1].(*ssa.Call); isConstErr {
				ok := false
				for _, pc := range pathConds(r.Block()) {
					if b, isB := pc.cond.(*ssa.BinOp); isB && (isNilConst(b.X) || isNilConst(b.Y)) {
						ok = true
					}
				}
				if !ok {
					refusal = "an error return (" + c.pos(r.Pos()) + ") is reached without a failed lookup"
				}
			}
		}
	}
	c.check(refusal == "", name+"|refusals", c.pos(fn.Pos()), name, "a chord is refused only when one of its intervals has no size or its symbol is unknown", name+": "+refusal+": chords that have a sound are refused")
}

// ---------------------------------------------------------------------------
// PLAYLOOP

func firstCall(fn *ssa.Function, pred func(ssa.CallInstruction) bool) ssa.CallInstruction {
	for _, ci := range callsIn(fn) {
		if pred(ci) {
			return ci
		}
	}
	return nil
}

func invokeOf(recvType, method string) func(ssa.CallInstruction) bool {
	return func(ci ssa.CallInstruction) bool {
		cc := ci.Common()
		return cc.IsInvoke() && cc.Method.Name() == method && typeName(cc.Value.Type()) == recvType
	}
}

func staticOf(name string) func(ssa.CallInstruction) bool {
	return func(ci ssa.CallInstruction) bool { return calleeName(ci.Common()) == name }
}

func rulePlayLoop(c *Ctx) {
	fn := c.fn("play", "MIDIWriter.Write")
	if fn == nil {
		c.missing("play.MIDIWriter.Write")
		return
	}
	if !c.playPipelineChecked {
		c.playPipelineChecked = true
		for _, n := range []int{1, 2, 3} {
			if problem, ops, ok := c.playPipelineVerdict(n); ok {
				c.site(1)
				c.check(problem == "", fmt.Sprintf("play|pipeline|tracks=%d", n), c.pos(fn.Pos()), fname(fn), fmt.Sprintf("a piece of ten instances folded from writeToPlay to the tracks: %d ops on %d track(s), each at its tick, on its track, with its pitch, velocity and contents", ops, n), "a piece of ten instances, folded from cmd.writeCmdArgs.writeToPlay to the ops in the tracks: "+problem)
			}
		}
	}
	c.checkSoleWriterImpl()
	c.site(1)
	name := fname(fn)
	// the calls may sit in helpers extracted from Write: look at its whole region (the named steps themselves are not looked into)
	steps := map[string]bool{"update": true, "writeWhenUpdated": true, "getKey": true, "getVelocity": true, "Apply": true}
	region := c.regionCalls(fn, func(f *ssa.Function) bool { return !isExportedFn(f) && !steps[f.Name()] })
	tr := &tracer{c: c, stop: func(f *ssa.Function) bool { return steps[f.Name()] || (isExportedFn(f)) }}
	first := func(pred func(ssa.CallInstruction) bool) *rcall {
		for i := range region {
			if pred(region[i].call) {
				return &region[i]
			}
		}
		return nil
	}
	li := func(rc *rcall) linstr { return linstr{rc.call, rc.chain} }
	arg := func(rc *rcall, i int) lval { return tr.trace(lval{rc.call.Common().Args[i], rc.fn, rc.chain}) }
	V := first(staticOf("op.Instance.Validate"))
	U := first(staticOf("play.midiArgs.update"))
	W := first(staticOf("play.midiArgs.writeWhenUpdated"))
	R := first(invokeOf("midix.Writer", "Rest"))
	K := first(staticOf("play.midiArgs.getKey"))
	A := first(staticOf("play.Key.Apply"))
	N := first(invokeOf("midix.Writer", "Note"))
	GV := first(staticOf("play.midiArgs.getVelocity"))
	CL := first(invokeOf("midix.Writer", "Close"))
	var problems []string
	need := map[string]*rcall{"Validate": V, "update": U, "writeWhenUpdated": W, "Rest": R, "getKey": K, "Apply": A, "Note": N, "getVelocity": GV, "Close": CL}
	missing := false
	for _, k := range sortedKeys(need) {
		if need[k] == nil {
			problems = append(problems, "call to "+k+" not found")
			missing = true
		}
	}
	if !missing {
		dom := func(a, b *rcall, what string) {
			if !regionDominates(li(a), li(b)) {
				problems = append(problems, what)
			}
		}
		dom(V, U, "settings are applied before the instance is validated")
		dom(U, W, "control events are written before the instance's settings are applied (a change lands one instance late)")
		dom(W, R, "a rest is written before the control events of its instance (settings on rests land after the rest)")
		dom(W, K, "the key is read before the instance's settings are emitted")
		dom(U, K, "the key in force is read before the instance's own key is applied: a chord that carries a key change is played in the old key")
		dom(K, A, "Apply runs before the key is read")
		dom(A, N, "Note is written before the pitches are computed")
		// all inside one loop of Write over all instances
		// (the loop may have moved, with its body, into a helper Write calls: it is looked for at every level the four
		// steps share, the deepest first)
		shared := 0
		for shared < len(U.chain) && shared < len(N.chain) && shared < len(V.chain) && shared < len(R.chain) && U.chain[shared] == N.chain[shared] && U.chain[shared] == V.chain[shared] && U.chain[shared] == R.chain[shared] {
			shared++
		}
		var l *loopInfo
		ld := 0
		for d := shared; d >= 0 && l == nil; d-- {
			if ll := enclosingRangeLoop(li(U).at(d).Block()); ll != nil && ll.blocks[li(N).at(d).Block()] && ll.blocks[li(V).at(d).Block()] && ll.blocks[li(R).at(d).Block()] {
				l, ld = ll, d
			}
		}
		inL := func(rc *rcall) bool {
			return l != nil && len(rc.chain) >= ld && sameChain(rc.chain[:ld], U.chain[:ld]) && l.blocks[li(rc).at(ld).Block()]
		}
		if l == nil || !inL(N) || !inL(V) || !inL(R) {
			problems = append(problems, "Validate/update/Rest/Note are not in one loop over the instances")
		} else {
			loopChain := U.chain[:ld]
			covers := false
			if call, ok := l.bound.(*ssa.Call); ok && calleeName(&call.Call) == "builtin.len" {
				b := tr.trace(lval{call.Call.Args[0], l.header.Parent(), loopChain})
				covers = len(b.chain) == 0 && b.v == ssa.Value(fn.Params[2])
			}
			if !covers {
				problems = append(problems, "the loop does not cover all instances")
			}
			// same instance everywhere: Validate's and update's argument and the chord come from instances[index]
			for label, v := range map[string]lval{"Validate": arg(V, 0), "update": arg(U, 1), "Apply": arg(A, 1)} {
				if !derivesFromElementL(tr, v, fn.Params[2], l.index, loopChain) {
					problems = append(problems, label+" is not applied to instances[i]")
				}
			}
			// Close: exactly once, outside the loop, after it, success path; nothing written after
			if inL(CL) || len(CL.chain) != 0 {
				problems = append(problems, "Close is called inside the loop")
			}
			n := 0
			for i := range region {
				ci := region[i].call
				if invokeOf("midix.Writer", "Close")(ci) {
					n++
				}
				if cc := ci.Common(); cc.IsInvoke() && typeName(cc.Value.Type()) == "midix.Writer" && ci != CL.call && regionDominates(li(CL), li(&region[i])) {
					problems = append(problems, "the writer is used after Close")
				}
			}
			if n != 1 {
				problems = append(problems, fmt.Sprintf("Close is called %d times", n))
			}
			// every successful return is preceded by Close
			for _, r := range returnsOf(fn) {
				if isNilConst(retVal(r, 0)) && !dominatesInstr(li(CL).at(0), r) {
					problems = append(problems, "a successful return is not preceded by Close: tracks without end-of-track")
				}
			}
		}
		// newKey(getKey()) feeds Apply's receiver
		recv := arg(A, 0)
		if nk, ok := recv.v.(*ssa.Call); !ok || len(nk.Call.Args) != 1 {
			problems = append(problems, "Apply's key is not newKey(args.getKey())")
		} else {
			if ka := tr.trace(recv.with(nk.Call.Args[0])); ka.v != K.call.Value() || !sameChain(ka.chain, K.chain) {
				problems = append(problems, "Apply's key is not newKey(args.getKey())")
			}
			if n, _, ok := loadedField(nk.Call.Value); !ok || n != "newKey" {
				problems = append(problems, "the play key is not built by the injected newKey function")
			}
		}
		// Note(value, getVelocity(), keys from Apply)
		if va := arg(N, 1); va.v != GV.call.Value() || !sameChain(va.chain, GV.chain) {
			problems = append(problems, "Note's velocity is not args.getVelocity()")
		}
		if !copiesFromL(tr, lval{N.call.Common().Args[2], N.fn, N.chain}, A) {
			problems = append(problems, "the keys handed to Note are not the pitches Apply returned")
		}
		// Rest only when IsRest
		guarded := false
		for _, g := range guardsAlong(li(R), 0) {
			gl := tr.trace(g.cond)
			if call, ok := gl.v.(*ssa.Call); ok && calleeName(&call.Call) == "op.Instance.IsRest" && g.want {
				guarded = true
			}
		}
		if !guarded {
			problems = append(problems, "Rest is not guarded by instance.IsRest()")
		}
		// errors of Validate / writeWhenUpdated / Apply / Note returned (through every helper level)
		errUp := func(rc *rcall) bool {
			call, ok := rc.call.(*ssa.Call)
			if !ok || !c.errorReturned(call) {
				return false
			}
			for _, s := range rc.chain {
				sc, ok := s.(*ssa.Call)
				if !ok || !c.errorReturned(sc) {
					return false
				}
			}
			return true
		}
		for label, rc := range map[string]*rcall{"Validate": V, "Apply": A, "Note": N} {
			if !errUp(rc) {
				problems = append(problems, "the error of "+label+" is not returned")
			}
		}
		if W.call.Common().Signature().Results().Len() == 1 && !errUp(W) {
			problems = append(problems, "the error of writeWhenUpdated is not returned")
		}
	}
	// empty piece
	empty := false
	allInstrs(fn, func(in ssa.Instruction) {
		if b, ok := in.(*ssa.BinOp); ok && b.Op == token.EQL {
			if call, ok := b.X.(*ssa.Call); ok && calleeName(&call.Call) == "builtin.len" && call.Call.Args[0] == ssa.Value(fn.Params[2]) {
				for _, ref := range *b.Referrers() {
					if iff, ok := ref.(*ssa.If); ok {
						for _, in2 := range iff.Block().Succs[0].Instrs {
							if r, ok := in2.(*ssa.Return); ok && !isNilConst(r.Results[0]) {
								empty = true
							}
						}
					}
				}
			}
		}
	})
	if !empty {
		problems = append(problems, "an empty piece is no longer an error")
	}
	sort.Strings(problems)
	c.check(len(problems) == 0, name, c.pos(fn.Pos()), name, "Validate -> update -> writeWhenUpdated -> (Rest | getKey -> newKey -> Apply -> Note); Close last", name+": "+strings.Join(uniq(problems), "; "))

	// flags override instance 0 only
	if nf := c.fn("cmd", "newWriteCmdArgsFromInputInstances"); nf != nil {
		c.site(1)
		ov := firstCall(nf, staticOf("cmd.overrideInstanceFromFlags"))
		good := false
		why := "overrideInstanceFromFlags is not called"
		if ov != nil {
			l := enclosingRangeLoop(ov.Block())
			why = "the override is not inside the loop over the instances"
			if l != nil {
				side, ok := c.branchSide(ov.Block(), func(v ssa.Value) bool {
					b, ok := v.(*ssa.BinOp)
					if !ok || b.Op != token.EQL || b.X != l.index {
						return false
					}
					z, ok := constInt(b.Y)
					return ok && z == 0
				})
				good = ok && side
				why = "flag overrides are not restricted to the first instance (i == 0): a --bpm/--key flag would reset every instance"
				// ... and to nothing else: no other test decided inside the loop (is it a rest? has it a chord?) stands in front
				if good {
					tr := c.plainTracer()
					idx := lval{l.index, nf, nil}
					for _, g := range guardsOf(ov.Block(), lval{nil, nf, nil}) {
						if _, isIdx := tr.zeroTest(g, idx); isIdx {
							continue
						}
						in, isInstr := g.cond.v.(ssa.Instruction)
						if !isInstr || !l.blocks[in.Block()] {
							continue
						}
						if cmp, ok := g.cond.v.(*ssa.BinOp); ok && cmp.Op == token.LSS && cmp.Y == l.bound {
							continue
						}
						good = false
						why = "the flag overrides of the first instance are skipped under a further condition (e.g. when the piece opens with a rest): --bpm / --meter / --key / --velocity are then silently dropped"
					}
				}
			}
		}
		c.check(good, fname(nf)+"|override-first", c.pos(nf.Pos()), fname(nf), "flags override instance 0 only", fname(nf)+": "+why)
		// the op.Instance copies every setting of the input instance
		c.site(1)
		copied := map[string]bool{}
		// (the copying may sit in a constructor helper: the whole region)
		for _, rf := range c.regionFuncChainsList(nf) {
			allInstrs(rf, func(in ssa.Instruction) {
				if st, ok := in.(*ssa.Store); ok {
					if n, _, ok := fieldName(st.Addr); ok {
						if ln, _, ok := loadedField(st.Val); ok && ln == n {
							copied[n] = true
						}
					}
				}
			})
		}
		var missing []string
		for _, f := range []string{"Values", "BPM", "Velocity", "Meter", "Key", "Meta"} {
			if !copied[f] {
				missing = append(missing, f)
			}
		}
		c.check(len(missing) == 0, fname(nf)+"|copy-settings", c.pos(nf.Pos()), fname(nf), "every setting of the input instance is carried over", fmt.Sprintf("%s: field(s) %v of the input instance are not copied into the instance that is played: the setting is silently dropped", fname(nf), missing))
		// ... and stays: nothing here writes those settings again (the flags do, for the first instance, inside the override)
		c.site(1)
		rewritten := ""
		allInstrs(nf, func(in ssa.Instruction) {
			st, ok := in.(*ssa.Store)
			if !ok {
				return
			}
			n, base, ok := fieldName(st.Addr)
			if !ok || typeName(base.Type()) != "op.Instance" {
				return
			}
			switch n {
			case "Values", "BPM", "Velocity", "Meter", "Key", "Meta":
				if ln, _, ok := loadedField(st.Val); !ok || ln != n {
					rewritten = n
				}
			}
		})
		c.check(rewritten == "", fname(nf)+"|settings-kept", c.pos(nf.Pos()), fname(nf), "the copied settings are not written again", fmt.Sprintf("%s: the %s of the instance that is played is overwritten after it was copied from the input (dropped or replaced under some condition): what the instance says is not what is played", fname(nf), rewritten))
		// ... and that instance - after the flags had their say - is what is kept, at its own position
		c.site(1)
		var built *ssa.Alloc // the op.Instance the settings are copied into
		allInstrs(nf, func(in ssa.Instruction) {
			if st, ok := in.(*ssa.Store); ok {
				if n, base, ok := fieldName(st.Addr); ok && n == "Values" {
					if al, ok := base.(*ssa.Alloc); ok && typeName(al.Type()) == "op.Instance" {
						built = al
					}
				}
			}
		})
		var builtInit ssa.Value
		if built == nil {
			// built by a constructor helper: the local that receives the helper's result
			allInstrs(nf, func(in ssa.Instruction) {
				st, ok := in.(*ssa.Store)
				if !ok {
					return
				}
				al, isAl := st.Addr.(*ssa.Alloc)
				call, isCall := st.Val.(*ssa.Call)
				if !isAl || !isCall || typeName(al.Type()) != "op.Instance" {
					return
				}
				if h := staticCallee(&call.Call); h != nil && c.isHelper(nf, h) {
					makes := false
					allInstrs(h, func(in2 ssa.Instruction) {
						if s2, ok := in2.(*ssa.Store); ok {
							if n, _, ok := fieldName(s2.Addr); ok && n == "Values" {
								makes = true
							}
						}
					})
					if makes {
						built, builtInit = al, call
					}
				}
			})
		}
		var isBuilt func(v ssa.Value, seen map[ssa.Value]bool) (ok, viaOverride bool)
		isBuilt = func(v ssa.Value, seen map[ssa.Value]bool) (bool, bool) {
			if seen[v] {
				return true, false
			}
			seen[v] = true
			if builtInit != nil && v == builtInit {
				return true, false
			}
			switch x := v.(type) {
			case *ssa.Alloc:
				return x == built, false
			case *ssa.UnOp:
				if x.Op == token.MUL {
					if al, ok := x.X.(*ssa.Alloc); ok {
						// the local itself, or a second local the instance is moved through; whatever is assigned to
						// either as a whole must again be that instance
						okAll, via, n := true, false, 0
						for _, r := range *al.Referrers() {
							if st, ok := r.(*ssa.Store); ok && st.Addr == ssa.Value(al) {
								o, vo := isBuilt(st.Val, seen)
								okAll, via, n = okAll && o, via || vo, n+1
							}
						}
						return okAll && (n > 0 || al == built), via
					}
					return isBuilt(x.X, seen)
				}
			case *ssa.Phi:
				okAll, via := true, false
				for _, e := range x.Edges {
					o, vo := isBuilt(e, seen)
					okAll, via = okAll && o, via || vo
				}
				return okAll, via
			case *ssa.Extract:
				if call, ok := x.Tuple.(*ssa.Call); ok && x.Index == 0 && ov != nil && call == ov.(*ssa.Call) {
					o, _ := isBuilt(call.Call.Args[1], seen)
					return o, true
				}
			}
			return false, false
		}
		stored, why2 := false, "no instance is stored into the result at the loop index"
		if l := func() *loopInfo {
			if ov != nil {
				return enclosingRangeLoop(ov.Block())
			}
			return nil
		}(); l != nil && built != nil {
			allInstrs(nf, func(in ssa.Instruction) {
				st, ok := in.(*ssa.Store)
				if !ok {
					return
				}
				ia, ok := st.Addr.(*ssa.IndexAddr)
				if !ok || ia.Index != l.index || typeName(st.Val.Type()) != "op.Instance" {
					return
				}
				o, via := isBuilt(st.Val, map[ssa.Value]bool{})
				byValue := ov.Common().Signature().Results().Len() > 1
				switch {
				case !o:
					why2 = "what is stored at the loop index is not the instance the settings were copied into"
				case byValue && !via:
					why2 = "the instance returned by overrideInstanceFromFlags is dropped: the stored instance never sees the flags"
				default:
					stored = true
				}
			})
		}
		c.check(stored, fname(nf)+"|store", c.pos(nf.Pos()), fname(nf), "the converted (and, for the first, overridden) instance is stored at its own position", fname(nf)+": "+why2)
	} else {
		c.missing("cmd.newWriteCmdArgsFromInputInstances")
	}
	// the newKey closure passes its key through
	if wp := c.fn("cmd", "writeCmdArgs.writeToPlay"); wp != nil {
		c.site(1)
		good := false
		// the factory handed to play.NewWriter: a closure or a method value; it must build the play key from the key it is given
		for _, nw := range callsTo(wp, "play.NewWriter") {
			args := nw.Common().Args
			kf := unbound(funcOfValue(args[len(args)-1]))
			if kf == nil {
				continue
			}
			for _, ci := range callsTo(kf, "play.NewKey") {
				if p, ok := ci.Common().Args[0].(*ssa.Parameter); ok && p.Parent() == kf && typeName(p.Type()) == "op.Key" {
					good = true
				}
			}
		}
		c.check(good, fname(wp)+"|newKey", c.pos(wp.Pos()), fname(wp), "newKey passes the key through", "the newKey closure no longer builds the play key from the key it is given")
	}
	if nk := c.fn("play", "NewKey"); nk != nil {
		good := false
		allInstrs(nk, func(in ssa.Instruction) {
			if st, ok := in.(*ssa.Store); ok {
				if n, _, ok := fieldName(st.Addr); ok && n == "key" && st.Val == ssa.Value(nk.Params[0]) {
					good = true
				}
			}
		})
		c.check(good, fname(nk), c.pos(nk.Pos()), fname(nk), "stores the key", "play.NewKey no longer stores the key it is given")
	}
}

// derivesFromElement: v is (a load/field/copy of) slice[index].
func (c *Ctx) derivesFromElement(v ssa.Value, slice ssa.Value, index ssa.Value) bool {
	seen := map[ssa.Value]bool{}
	var walk func(x ssa.Value, d int) bool
	walk = func(x ssa.Value, d int) bool {
		if d > 14 || seen[x] {
			return false
		}
		seen[x] = true
		switch y := x.(type) {
		case *ssa.IndexAddr:
			return y.X == slice && y.Index == index
		case *ssa.Index:
			return y.X == slice && y.Index == index
		case *ssa.UnOp:
			return walk(y.X, d+1)
		case *ssa.FieldAddr:
			return walk(y.X, d+1)
		case *ssa.Field:
			return walk(y.X, d+1)
		case *ssa.Alloc:
			for _, r := range *y.Referrers() {
				if st, ok := r.(*ssa.Store); ok && st.Addr == ssa.Value(y) && walk(st.Val, d+1) {
					return true
				}
			}
		}
		return false
	}
	return walk(v, 0)
}

// derivesFromElementL: the located value is (a load / field / copy of) slice[index] of the root function.
func derivesFromElementL(tr *tracer, l lval, slice *ssa.Parameter, index ssa.Value, loopChain []ssa.CallInstruction) bool {
	seen := map[ssa.Value]bool{}
	var walk func(x lval, d int) bool
	walk = func(x lval, d int) bool {
		x = tr.trace(x)
		if d > 16 || seen[x.v] {
			return false
		}
		seen[x.v] = true
		switch y := x.v.(type) {
		case *ssa.IndexAddr:
			b := tr.trace(x.with(y.X))
			return sameChain(x.chain, loopChain) && len(b.chain) == 0 && b.v == ssa.Value(slice) && y.Index == index
		case *ssa.Index:
			b := tr.trace(x.with(y.X))
			return sameChain(x.chain, loopChain) && len(b.chain) == 0 && b.v == ssa.Value(slice) && y.Index == index
		case *ssa.UnOp:
			return walk(x.with(y.X), d+1)
		case *ssa.FieldAddr:
			return walk(x.with(y.X), d+1)
		case *ssa.Field:
			return walk(x.with(y.X), d+1)
		case *ssa.Alloc:
			for _, r := range *y.Referrers() {
				if st, ok := r.(*ssa.Store); ok && st.Addr == ssa.Value(y) && walk(x.with(st.Val), d+1) {
					return true
				}
			}
		}
		return false
	}
	return walk(l, 0)
}

// copiesFromL: the located slice is result #0 of the call src, or a new slice of the same length filled element by
// element at equal indices over the whole length from it (possibly inside a helper that receives the result).
func copiesFromL(tr *tracer, l lval, src *rcall) bool {
	isSrc := func(x lval) bool {
		x = tr.trace(x)
		ex, ok := x.v.(*ssa.Extract)
		return ok && ex.Index == 0 && ex.Tuple == src.call.Value() && sameChain(x.chain, src.chain)
	}
	l = tr.trace(l)
	if isSrc(l) {
		return true
	}
	isLenSrc := func(v ssa.Value) bool {
		lc, ok := v.(*ssa.Call)
		return ok && calleeName(&lc.Call) == "builtin.len" && isSrc(l.with(lc.Call.Args[0]))
	}
	// grown by append, one converted element of the source per round of a loop over the whole source
	if phi, ok := l.v.(*ssa.Phi); ok && isLoopHeader(phi.Block()) {
		loop := naturalLoop(phi.Block())
		good := loop != nil
		for i, e := range phi.Edges {
			if loop == nil {
				break
			}
			if !loop[phi.Block().Preds[i]] {
				// starts empty
				if mk, ok := e.(*ssa.MakeSlice); ok {
					if k, isK := constInt(mk.Len); !isK || k != 0 {
						good = false
					}
				} else if !isNilConst(e) {
					good = false
				}
				continue
			}
			call, ok := e.(*ssa.Call)
			if !ok {
				good = false
				continue
			}
			b, isB := call.Call.Value.(*ssa.Builtin)
			if !isB || b.Name() != "append" || call.Call.Args[0] != ssa.Value(phi) {
				good = false
				continue
			}
			elems := variadicValues(call.Call.Args[1])
			if len(elems) != 1 {
				good = false
				continue
			}
			from := indexOfLoad(stripConv(elems[0]))
			lp := enclosingRangeLoop(call.Block())
			if from == nil || !isSrc(l.with(from.X)) || lp == nil || lp.index != from.Index || !isLenSrc(lp.bound) {
				good = false
			}
		}
		return good
	}
	mk, ok := l.v.(*ssa.MakeSlice)
	if !ok {
		return false
	}
	if !isLenSrc(mk.Len) {
		return false
	}
	okCopy := false
	for _, r := range *mk.Referrers() {
		ia, ok := r.(*ssa.IndexAddr)
		if !ok {
			continue
		}
		for _, rr := range *ia.Referrers() {
			st, ok := rr.(*ssa.Store)
			if !ok {
				continue
			}
			from := indexOfLoad(stripConv(st.Val))
			if from != nil && isSrc(l.with(from.X)) && from.Index == ia.Index {
				lp := enclosingRangeLoop(st.Block())
				if lp != nil && lp.index == ia.Index && isLenSrc(lp.bound) {
					okCopy = true
				}
			}
		}
	}
	return okCopy
}

// copiesFrom: slice v is filled, element by element at equal indices over its whole length, from result #0 of call (or is that result).
func (c *Ctx) copiesFrom(v ssa.Value, call *ssa.Call) bool {
	var src ssa.Value
	for _, r := range *call.Referrers() {
		if ex, ok := r.(*ssa.Extract); ok && ex.Index == 0 {
			src = ex
		}
	}
	if src == nil {
		return false
	}
	if v == src {
		return true
	}
	mk, ok := v.(*ssa.MakeSlice)
	if !ok {
		return false
	}
	// length = len(src)
	if lc, ok := mk.Len.(*ssa.Call); !ok || calleeName(&lc.Call) != "builtin.len" || lc.Call.Args[0] != src {
		return false
	}
	okCopy := false
	for _, r := range *mk.Referrers() {
		ia, ok := r.(*ssa.IndexAddr)
		if !ok {
			continue
		}
		for _, rr := range *ia.Referrers() {
			st, ok := rr.(*ssa.Store)
			if !ok {
				continue
			}
			from := indexOfLoad(stripConv(st.Val))
			if from != nil && from.X == src && from.Index == ia.Index {
				l := enclosingRangeLoop(st.Block())
				if l != nil && l.index == ia.Index {
					if lc, ok := l.bound.(*ssa.Call); ok && calleeName(&lc.Call) == "builtin.len" && lc.Call.Args[0] == src {
						okCopy = true
					}
				}
			}
		}
	}
	return okCopy
}

// errorReturned: the call's error result is tested != nil and every path of the true branch returns a non-nil error
// before it can rejoin the nil path; or the error is returned directly.
func (c *Ctx) errorReturned(call *ssa.Call) bool {
	var errv ssa.Value = call
	if call.Call.Signature().Results().Len() > 1 {
		errv = nil
		for _, r := range *call.Referrers() {
			if ex, ok := r.(*ssa.Extract); ok && isErrorType(ex.Type()) {
				errv = ex
			}
		}
	}
	if errv == nil {
		return false
	}
	for _, r := range *errv.Referrers() {
		if b, ok := r.(*ssa.BinOp); ok && b.Op == token.NEQ && (isNilConst(b.X) || isNilConst(b.Y)) {
			for _, rr := range *b.Referrers() {
				if iff, ok := rr.(*ssa.If); ok {
					if allPathsReturnError(iff.Block().Succs[0], iff.Block().Succs[1]) {
						return true
					}
				}
			}
		}
		if ret, ok := r.(*ssa.Return); ok && ret.Results[len(ret.Results)-1] == errv {
			// `if err == nil { ... }; return err`: every return that can be reached from the call hands the error on as it is
			reach := map[*ssa.BasicBlock]bool{}
			var walk func(b *ssa.BasicBlock)
			walk = func(b *ssa.BasicBlock) {
				if reach[b] {
					return
				}
				reach[b] = true
				for _, s := range b.Succs {
					walk(s)
				}
			}
			walk(call.Block())
			all, any := true, false
			for b := range reach {
				if rr, ok := b.Instrs[len(b.Instrs)-1].(*ssa.Return); ok {
					any = true
					if rr.Results[len(rr.Results)-1] != errv {
						all = false
					}
				}
			}
			if all && any {
				return true
			}
			// `return x, err` without a test: fine when it is not itself conditional on something else than err
			if len(ret.Block().Preds) == 0 || ret.Block() == call.Block() || ret.Block().Idom() == call.Block() && len(call.Block().Succs) < 2 {
				return true
			}
		}
	}
	return false
}

// allPathsReturnError: every path from b ends in a Return whose last result is not the nil constant, without reaching `join`.
func allPathsReturnError(b, join *ssa.BasicBlock) bool {
	seen := map[*ssa.BasicBlock]bool{}
	var walk func(x *ssa.BasicBlock, d int) bool
	walk = func(x *ssa.BasicBlock, d int) bool {
		if x == join || d > 12 {
			return false
		}
		if seen[x] {
			return true
		}
		seen[x] = true
		for _, in := range x.Instrs {
			switch t := in.(type) {
			case *ssa.Return:
				return len(t.Results) > 0 && !isNilConst(retVal(t, len(t.Results)-1))
			case *ssa.Panic:
				return true
			}
		}
		if len(x.Succs) == 0 {
			return false
		}
		for _, s := range x.Succs {
			if !walk(s, d+1) {
				return false
			}
		}
		return true
	}
	return walk(b, 0)
}

// ---------------------------------------------------------------------------
// OPT

func ruleOpt(c *Ctx) {
	// generic Opt methods (analysed on the generic bodies)
	if fn := c.fn("util", "Opt.WhenUpdated"); fn != nil {
		c.site(1)
		name := fname(fn)
		var fcall ssa.CallInstruction
		for _, ci := range callsIn(fn) {
			if ci.Common().Value == ssa.Value(fn.Params[1]) {
				fcall = ci
			}
		}
		problem := ""
		if fcall == nil {
			problem = "the callback is never called"
		} else {
			side, ok := c.branchSide(fcall.Block(), func(v ssa.Value) bool {
				n, _, ok := loadedField(v)
				return ok && n == "updated"
			})
			if !ok || !side {
				problem = "the callback is not guarded by the `updated` flag: settings are re-emitted on every instance"
			}
			cleared := false
			allInstrs(fn, func(in ssa.Instruction) {
				if st, ok := in.(*ssa.Store); ok {
					if n, _, ok := fieldName(st.Addr); ok && n == "updated" {
						if b, ok := constBool(st.Val); ok && !b && dominatesInstr(st, fcall) {
							cleared = true
						}
					}
				}
			})
			if !cleared {
				problem = "the flag is not cleared before the callback: every later instance emits the setting again"
			}
			if n, _, ok := loadedField(fcall.Common().Args[0]); !ok || n != "value" {
				problem = "the callback does not receive the stored value"
			}
		}
		c.check(problem == "", name, c.pos(fn.Pos()), name, "if updated { updated = false; f(value) }", name+": "+problem)
	} else {
		c.missing("util.Opt.WhenUpdated")
	}
	for _, m := range []string{"NewOpt", "Opt.Update"} {
		fn := c.fn("util", m)
		if fn == nil {
			c.missing("util." + m)
			continue
		}
		c.site(1)
		setV, setU := false, false
		// on every path: a setting that is written again must be emitted again, even when its value did not change
		everyPath := func(st *ssa.Store) bool {
			for _, r := range returnsOf(fn) {
				if !dominatesInstr(st, r) {
					return false
				}
			}
			return true
		}
		allInstrs(fn, func(in ssa.Instruction) {
			if st, ok := in.(*ssa.Store); ok {
				if n, _, ok := fieldName(st.Addr); ok {
					if n == "value" {
						if _, isParam := st.Val.(*ssa.Parameter); isParam && everyPath(st) {
							setV = true
						}
					}
					if n == "updated" {
						if b, ok := constBool(st.Val); ok && b && everyPath(st) {
							setU = true
						}
					}
				}
			}
		})
		// NewOpt may delegate to Update on the fresh cell with its own argument
		if m == "NewOpt" && !(setV && setU) {
			for _, ci := range callsTo(fn, "util.Opt.Update") {
				a := ci.Common().Args
				if len(a) == 2 && a[1] == ssa.Value(fn.Params[0]) {
					all := true
					for _, r := range returnsOf(fn) {
						if !dominatesInstr(ci, r) || retVal(r, 0) != a[0] {
							all = false
						}
					}
					if all {
						setV, setU = true, true
					}
				}
			}
		}
		c.check(setV && setU, fname(fn), c.pos(fn.Pos()), fname(fn), "stores the value and raises the flag on every path", fname(fn)+" does not store the value and set `updated` on every path: a setting (or a text / lyric / marker) that is written again with the same value is not emitted again")
	}
	if fn := c.fn("util", "Opt.Unwrap"); fn != nil {
		c.site(1)
		rets := returnsOf(fn)
		good := false
		if len(rets) == 1 {
			n, _, ok := loadedField(rets[0].Results[0])
			good = ok && n == "value"
		}
		c.check(good, fname(fn), c.pos(fn.Pos()), fname(fn), "returns the stored value", "Opt.Unwrap no longer returns the stored value")
	}
	// midiArgs.update: exhaustive over the pointer fields of op.Instance except Chord
	up := c.fn("play", "midiArgs.update")
	if up == nil {
		c.missing("play.midiArgs.update")
	} else {
		p := c.pkg("op")
		inst, _ := p.Types.Scope().Lookup("Instance").(*types.TypeName)
		st := inst.Type().Underlying().(*types.Struct)
		updates := map[string]string{} // instance field -> cell field
		bypassed := map[string]string{}
		// the five blocks may be folded into one (generic) helper: look at the region and resolve cell, value and guard upwards
		tr := c.plainTracer()
		for _, rc := range c.regionCalls(up, nil) {
			if calleeName(rc.call.Common()) != "util.Opt.Update" {
				continue
			}
			args := rc.call.Common().Args
			cellL := tr.trace(lval{args[0], rc.fn, rc.chain})
			cell, _, ok1 := loadedField(cellL.v)
			// value: *instance.F
			fld := ""
			if ld, ok := args[1].(*ssa.UnOp); ok && ld.Op == token.MUL {
				pl := tr.trace(lval{ld.X, rc.fn, rc.chain})
				if n, _, ok := loadedField(pl.v); ok && len(pl.chain) == 0 {
					fld = n
				}
			}
			if !ok1 || fld == "" || len(cellL.chain) != 0 {
				continue
			}
			// guarded by instance.F != nil and by nothing else (a further test, e.g. `not on a rest`, drops the setting)
			guarded := false
			extra := false
			for _, g := range guardsAlong(rc.li(), 0) {
				gl := tr.trace(g.cond)
				b, ok := gl.v.(*ssa.BinOp)
				if !ok || (b.Op != token.NEQ && b.Op != token.EQL) {
					extra = true
					continue
				}
				x, y := tr.trace(gl.with(b.X)), tr.trace(gl.with(b.Y))
				if isNilConst(x.v) {
					x, y = y, x
				}
				if !isNilConst(y.v) {
					continue
				}
				if n, _, ok := loadedField(x.v); ok && n == fld && len(x.chain) == 0 && g.want == (b.Op == token.NEQ) {
					guarded = true
				} else {
					extra = true
				}
			}
			// ... and no way past the update once the setting is there: at every level of the call chain a return reached
			// without the update (or the call leading to it) leaves through `the setting is absent` only
			if guarded && !extra {
				li := rc.li()
				for k := 0; k <= len(rc.chain); k++ {
					at := li.at(k)
					chainK := rc.chain[:k]
					f := at.Parent()
					if b := bypassReturn(f, at.Block(), func(iff *ssa.If) int {
						b, ok := iff.Cond.(*ssa.BinOp)
						if !ok || (b.Op != token.NEQ && b.Op != token.EQL) {
							return -1
						}
						x, y := tr.trace(lval{b.X, f, chainK}), tr.trace(lval{b.Y, f, chainK})
						if isNilConst(x.v) {
							x, y = y, x
						}
						if !isNilConst(y.v) {
							return -1
						}
						if n, _, ok := loadedField(x.v); !ok || n != fld || len(x.chain) != 0 {
							return -1
						}
						if b.Op == token.NEQ {
							return 1
						}
						return 0
					}); b != nil {
						extra = true
						bypassed[fld] = "the end of " + fname(f)
					}
				}
			}
			if guarded && !extra {
				updates[fld] = cell
			}
		}
		wantCell := map[string]string{"BPM": "bpm", "Meter": "meter", "Velocity": "velocity", "Key": "key", "Meta": "meta"}
		for i := 0; i < st.NumFields(); i++ {
			f := st.Field(i)
			if _, isPtr := f.Type().(*types.Pointer); !isPtr || f.Name() == "Chord" {
				continue
			}
			c.site(1)
			key := fname(up) + "|" + f.Name()
			cell, ok := updates[f.Name()]
			want := wantCell[f.Name()]
			switch {
			case !ok && bypassed[f.Name()] != "":
				c.bad(key, c.pos(up.Pos()), fname(up), fmt.Sprintf("setting %s of an instance can be passed by although it is there (a way to %s avoids the Update): some changes of the setting are silently ignored when playing", f.Name(), bypassed[f.Name()]))
			case !ok:
				c.bad(key, c.pos(up.Pos()), fname(up), fmt.Sprintf("setting %s of an instance is never stored (no `if x := instance.%s; x != nil { cell.Update(*x) }`): the setting is silently ignored when playing", f.Name(), f.Name()))
			case want != "" && cell != want:
				c.bad(key, c.pos(up.Pos()), fname(up), fmt.Sprintf("instance.%s updates the %s cell, want %s", f.Name(), cell, want))
			default:
				c.ok(key, c.pos(up.Pos()), fname(up), fmt.Sprintf("instance.%s -> %s.Update when non-nil", f.Name(), cell))
			}
		}
	}
	// writeWhenUpdated wiring
	ww := c.fn("play", "midiArgs.writeWhenUpdated")
	if ww == nil {
		c.missing("play.midiArgs.writeWhenUpdated")
		return
	}
	cellClosure := map[string]*ssa.Function{}
	// (the four cells may each be written by a helper of their own - writeTempo, writeMeter ... - that is handed the
	// receiver: the whole region of writeWhenUpdated is looked at)
	wwTr := c.plainTracer()
	for _, rc := range c.regionCalls(ww, nil) {
		ci := rc.call
		if calleeName(ci.Common()) != "util.Opt.WhenUpdated" {
			continue
		}
		cellL := wwTr.trace(lval{ci.Common().Args[0], rc.fn, rc.chain})
		cell, _, ok := loadedField(cellL.v)
		if !ok {
			continue
		}
		if f := funcOfValue(ci.Common().Args[1]); f != nil {
			cellClosure[cell] = f
		}
	}
	wcall := func(f *ssa.Function, method string) ssa.CallInstruction {
		if f == nil {
			return nil
		}
		return firstCall(f, invokeOf("midix.Writer", method))
	}
	// bpm -> Tempo(int(v))
	c.site(1)
	if ci := wcall(cellClosure["bpm"], "Tempo"); ci != nil && stripConv(ci.Common().Args[0]) == ssa.Value(cellClosure["bpm"].Params[0]) {
		c.ok(fname(ww)+"|bpm", c.pos(ci.Pos()), fname(ww), "bpm cell -> Tempo(v)")
	} else {
		c.bad(fname(ww)+"|bpm", c.pos(ww.Pos()), fname(ww), "the bpm cell is not wired to Writer.Tempo with its value: tempo changes are not written")
	}
	// meter -> Meter(v.Num, v.Denom)
	c.site(1)
	if ci := wcall(cellClosure["meter"], "Meter"); ci != nil {
		n0, _, ok0 := loadedField(stripConv(ci.Common().Args[0]))
		n1, _, ok1 := loadedField(stripConv(ci.Common().Args[1]))
		c.check(ok0 && ok1 && n0 == "Num" && n1 == "Denom", fname(ww)+"|meter", c.pos(ci.Pos()), fname(ww), "meter cell -> Meter(Num, Denom)", "the meter cell is wired to Writer.Meter with the wrong fields (numerator/denominator swapped or replaced)")
	} else {
		c.bad(fname(ww)+"|meter", c.pos(ww.Pos()), fname(ww), "the meter cell is not wired to Writer.Meter")
	}
	// key -> Key(tonic semitone, !Minor, Flat+Sharp, Flat>0) from NewScale(v)
	c.site(1)
	if kc := cellClosure["key"]; kc != nil {
		// the closure may delegate to an extracted helper (writeKeySignature(w, v)): look at its region
		tr := &tracer{c: c, stop: func(f *ssa.Function) bool { return isExportedFn(f) }}
		var krc, nsrc *rcall
		region := c.regionCalls(kc, nil)
		for i := range region {
			if invokeOf("midix.Writer", "Key")(region[i].call) && krc == nil {
				krc = &region[i]
			}
			if n := calleeName(region[i].call.Common()); (n == "op.NewScale" || n == "op.MustNewScale") && nsrc == nil {
				nsrc = &region[i]
			}
		}
		problem := ""
		if krc == nil {
			problem = "Writer.Key is not called"
		} else {
			ci := krc.call
			kf := krc.fn
			a := ci.Common().Args
			ac := &affCtx{c: c, fn: kf, alias: map[ssa.Value]string{}}
			d0 := ac.describe(stripConv(a[0]))
			if !strings.Contains(d0, "op.ScaleNote.Semitone(") || !strings.Contains(d0, "Tonic") {
				problem = "the key byte is not the semitone of the scale's tonic (" + d0 + ")"
			} else if !strings.Contains(d0, "op.NewScale(") && !strings.Contains(d0, "op.MustNewScale(") {
				problem = "the scale the signature is taken from is not the one just built from the cell's key (a remembered scale survives a change to another key with the same letter): " + d0
			}
			if u, ok := stripThroughLocal(a[1]).(*ssa.UnOp); !ok || u.Op != token.NOT {
				problem = "isMajor is not !Minor"
			} else if n, _, ok := loadedField(u.X); !ok || n != "Minor" {
				problem = "isMajor is not derived from the key's Minor flag"
			}
			af := c.affine(kf, a[2])
			okNum := af.bad == "" && af.k == 0 && len(af.nonzero()) == 2
			for _, t := range af.nonzero() {
				if !(strings.HasSuffix(t, ".Flat") || strings.HasSuffix(t, ".Sharp")) || af.terms[t] != 1 {
					okNum = false
				}
			}
			if !okNum {
				problem = "the accidental count is not scale.Flat + scale.Sharp (" + af.String() + ")"
			}
			if b, ok := stripThroughLocal(a[3]).(*ssa.BinOp); !ok || b.Op != token.GTR {
				problem = "isFlat is not scale.Flat > 0"
			} else if n, _, ok := loadedField(b.X); !ok || n != "Flat" {
				problem = "isFlat is not derived from the scale's flat count (sharp keys would be written as flat keys or vice versa)"
			} else if z, ok := constInt(b.Y); !ok || z != 0 {
				problem = "isFlat is not scale.Flat > 0"
			}
			// the scale is NewScale(v) of the cell's value
			if nsrc == nil {
				problem = "the scale is not built from the key in the cell"
			} else if ka := tr.trace(lval{nsrc.call.Common().Args[0], nsrc.fn, nsrc.chain}); len(ka.chain) != 0 || ka.v != ssa.Value(kc.Params[0]) {
				problem = "the scale is not built from the key in the cell"
			}
		}
		c.check(problem == "", fname(ww)+"|key", c.pos(kc.Pos()), fname(ww), "key cell -> Key(tonic semitone, !Minor, Flat+Sharp, Flat>0)", fname(ww)+": "+problem)
		// ... for every key that comes out of the cell: only the failure of building the scale stands in front of the event
		if krc != nil {
			c.site(1)
			extra := ""
			for _, g := range guardsAlong(linstr{krc.call, krc.chain}, 0) {
				cmp, isCmp := tr.trace(g.cond).v.(*ssa.BinOp)
				if isCmp && (cmp.Op == token.EQL || cmp.Op == token.NEQ) && (isNilConst(cmp.X) || isNilConst(cmp.Y)) {
					if isErrorType(cmp.X.Type()) || isErrorType(cmp.Y.Type()) {
						continue
					}
				}
				extra = "a condition other than `the scale could be built` decides whether the key signature event is written (`" + g.cond.v.String() + "`)"
			}
			// ... and no way round it: within the function that makes the call, every return that is not the failure exit
			// of an error test comes after the call
			if extra == "" {
				kfn := krc.call.Parent()
				failure := map[*ssa.BasicBlock]bool{}
				for _, b := range kfn.Blocks {
					iff, ok := b.Instrs[len(b.Instrs)-1].(*ssa.If)
					if !ok {
						continue
					}
					cmp, ok := iff.Cond.(*ssa.BinOp)
					if !ok || !(isNilConst(cmp.X) || isNilConst(cmp.Y)) || !(isErrorType(cmp.X.Type()) || isErrorType(cmp.Y.Type())) {
						continue
					}
					side := b.Succs[0]
					if cmp.Op == token.EQL {
						side = b.Succs[1]
					}
					for _, x := range kfn.Blocks {
						if x == side || side.Dominates(x) {
							failure[x] = true
						}
					}
				}
				for _, b := range kfn.Blocks {
					if _, isRet := b.Instrs[len(b.Instrs)-1].(*ssa.Return); !isRet || failure[b] || b == krc.call.Block() {
						continue
					}
					if reachesAvoiding(kfn.Blocks[0], b, krc.call.Block()) {
						extra = "there is a way to the end of the update that passes neither the key signature event nor a failed step (" + c.pos(b.Instrs[len(b.Instrs)-1].Pos()) + ")"
					}
				}
			}
			c.check(extra == "", fname(ww)+"|key|guard", c.pos(krc.call.Pos()), fname(ww), "every key out of the cell is written", fname(ww)+": "+extra+": some key changes leave the old signature standing in the file")
		}
	} else {
		c.bad(fname(ww)+"|key", c.pos(ww.Pos()), fname(ww), "the key cell is not wired to Writer.Key")
	}
	// meta -> Text/Lyric/Marker by txt/lic/mrk
	if mc := cellClosure["meta"]; mc != nil {
		wantKey := map[string]string{"Text": "MetaTextKey", "Lyric": "MetaLyricKey", "Marker": "MetaMarkerKey"}
		keyVal := map[string]string{}
		for _, k := range []string{"MetaTextKey", "MetaLyricKey", "MetaMarkerKey"} {
			if v, _, ok := c.constOf("input", k); ok {
				keyVal[k] = v.ExactString()
			}
		}
		tbl := c.textEventTable(mc)
		for _, meth := range []string{"Text", "Lyric", "Marker"} {
			c.site(1)
			ci := wcall(mc, meth)
			good := false
			if ci == nil && tbl != nil {
				// the three events written by one loop over a local table of {metadata key, bound writer method}
				good = tbl.rows[meth] == keyVal[wantKey[meth]] && keyVal[wantKey[meth]] != ""
				c.check(good, fname(ww)+"|meta|"+meth, c.pos(mc.Pos()), fname(ww), meth+" <- meta["+keyVal[wantKey[meth]]+"] (row of the local event table), text passed unmodified", fmt.Sprintf("the %s event is not fed with the text stored under %s", meth, keyVal[wantKey[meth]]))
				if good {
					c.site(1)
					c.check(tbl.guard == "", fname(ww)+"|meta|"+meth+"|guard", c.pos(tbl.dyn.Pos()), fname(ww), meth+" is written whenever its text is not empty (every row of the table is visited)", fmt.Sprintf("%s: the %s event: %s (e.g. it is skipped when the instance also carries another kind of text)", fname(ww), meth, tbl.guard))
				}
				continue
			}
			if ci != nil {
				if get, ok := ci.Common().Args[0].(*ssa.Call); ok && calleeName(&get.Call) == "op.Meta.Get" {
					if s, ok := get.Call.Args[1].(*ssa.Const); ok && s.Value != nil && s.Value.ExactString() == keyVal[wantKey[meth]] {
						good = true
					}
				}
			}
			c.check(good, fname(ww)+"|meta|"+meth, c.pos(mc.Pos()), fname(ww), meth+" <- meta["+keyVal[wantKey[meth]]+"], text passed unmodified", fmt.Sprintf("the %s event is not fed with the text stored under %s", meth, keyVal[wantKey[meth]]))
			// ... whenever that text is there: the only condition in front of the event is that its own text is not empty
			if good {
				c.site(1)
				extra := ""
				for _, pc := range pathConds(ci.Block()) {
					own := false
					if cmp, ok := pc.cond.(*ssa.BinOp); ok && (cmp.Op == token.NEQ || cmp.Op == token.EQL) {
						x, y := cmp.X, cmp.Y
						if _, isK := x.(*ssa.Const); isK {
							x, y = y, x
						}
						if k, isK := y.(*ssa.Const); isK && k.Value != nil && k.Value.ExactString() == `""` && x == ci.Common().Args[0] && (cmp.Op == token.NEQ) == pc.side {
							own = true
						}
					}
					if !own {
						extra = "a condition other than `its own text is not empty` decides whether the event is written"
					}
				}
				// ... and no way round the event other than `its own text is empty`
				if extra == "" {
					own := ci.Common().Args[0]
					if b := bypassReturn(ci.Parent(), ci.Block(), func(iff *ssa.If) int {
						cmp, ok := iff.Cond.(*ssa.BinOp)
						if !ok || (cmp.Op != token.NEQ && cmp.Op != token.EQL) {
							return -1
						}
						x, y := cmp.X, cmp.Y
						if _, isK := x.(*ssa.Const); isK {
							x, y = y, x
						}
						if k, isK := y.(*ssa.Const); !isK || k.Value == nil || k.Value.ExactString() != `""` || x != own {
							return -1
						}
						if cmp.Op == token.NEQ {
							return 1 // the false edge: text empty
						}
						return 0
					}); b != nil {
						extra = "there is a way to the end of the update that passes the event by although its text is not empty"
					}
				}
				c.check(extra == "", fname(ww)+"|meta|"+meth+"|guard", c.pos(ci.Pos()), fname(ww), meth+" is written whenever its text is not empty", fmt.Sprintf("%s: the %s event: %s (e.g. it is skipped when the instance also carries another kind of text)", fname(ww), meth, extra))
			}
		}
	} else {
		c.bad(fname(ww)+"|meta", c.pos(ww.Pos()), fname(ww), "the meta cell is not wired to Text/Lyric/Marker")
	}
	// getKey / getVelocity
	if gk := c.fn("play", "midiArgs.getKey"); gk != nil {
		c.site(1)
		ac := &affCtx{c: c, fn: gk, alias: map[ssa.Value]string{}}
		d := ac.describe(returnsOf(gk)[0].Results[0])
		c.check(strings.HasPrefix(d, "util.Opt.Unwrap(") && strings.Contains(d, ".key"), fname(gk), c.pos(gk.Pos()), fname(gk), "getKey = key cell", "getKey no longer reads the key cell: "+d)
	}
	if gv := c.fn("play", "midiArgs.getVelocity"); gv != nil {
		c.site(1)
		ac := &affCtx{c: c, fn: gv, alias: map[ssa.Value]string{}}
		d := ac.describe(returnsOf(gv)[0].Results[0])
		c.check(strings.HasPrefix(d, "op.DynamicSign.Velocity(util.Opt.Unwrap(") && strings.Contains(d, ".velocity"), fname(gv), c.pos(gv.Pos()), fname(gv), "getVelocity = velocity of the velocity cell's dynamic", "getVelocity no longer reads the velocity cell: "+d)
	}
	if dv := c.fn("op", "DynamicSign.Velocity"); dv != nil {
		c.site(1)
		ac := &affCtx{c: c, fn: dv, alias: map[ssa.Value]string{}}
		d := ac.describe(returnsOf(dv)[0].Results[0])
		_, _, how := c.velocityBySign()
		c.check(d == "op.dynamicSignVelocityMap[p0]" || strings.HasPrefix(how, "folded"), fname(dv), c.pos(dv.Pos()), fname(dv), "velocity = the values checked by TAB-DYNAMICS ("+how+")", "DynamicSign.Velocity is neither the table lookup checked by TAB-DYNAMICS nor foldable to constants: "+d)
	}
	// newMidiArgs wires each cell to its default
	if nm := c.fn("play", "newMidiArgs"); nm != nil {
		want := map[string]string{"bpm": "defaultBPM", "meter": "defaultMeter", "velocity": "defaultVelocity", "key": "defaultKey", "meta": "defaultMeta"}
		got := map[string]string{}
		allInstrs(nm, func(in ssa.Instruction) {
			if st, ok := in.(*ssa.Store); ok {
				if n, _, ok := fieldName(st.Addr); ok {
					if call, ok := st.Val.(*ssa.Call); ok && calleeName(&call.Call) == "util.NewOpt" {
						if ld, ok := call.Call.Args[0].(*ssa.UnOp); ok {
							if g, ok := ld.X.(*ssa.Global); ok {
								got[n] = g.Name()
							}
						}
					}
				}
			}
		})
		for _, cell := range sortedKeys(want) {
			c.site(1)
			c.check(got[cell] == want[cell], fname(nm)+"|"+cell, c.pos(nm.Pos()), fname(nm), cell+" starts at "+want[cell]+" (emitted at tick 0)", fmt.Sprintf("cell %s starts at %q, want %s", cell, got[cell], want[cell]))
		}
	}
}

// ---------------------------------------------------------------------------
// EXTENDS

func ruleExtends(c *Ctx) {
	fn := c.fn("chord", "Map.GetChordAttributes")
	if fn == nil {
		c.missing("chord.Map.GetChordAttributes")
		return
	}
	c.site(1)
	name := fname(fn)
	// every built-in symbol, resolved through the builder and this function and played, by folding: when that decides,
	// how the resolution is written (recursion with an accumulator, a loop up the parents, a joined list) is decided with it
	// (beside the built-in dictionary a made-up one: a chain of seven chords, a second third, tones doubled at the octave,
	// each asked twice; and the function leaves nothing behind between calls)
	foldDecides := func() (string, bool) {
		p1, n1, ok1 := c.chordPipelineVerdict()
		p2, n2, ok2 := c.extendsByFolding()
		if !ok1 || !ok2 || p1 != "" || p2 != "" || !c.writesOnlyLocals(fn) {
			return "", false
		}
		return fmt.Sprintf("%d built-in chords and %d resolutions in a made-up dictionary (a chain of seven, a second third, tones doubled at the octave) folded through the builder and GetChordAttributes, inherited attributes first, none dropped; the function stores into nothing but its own locals", n1, n2), true
	}
	defer func() {
		// the made-up dictionary is decided in any case
		if p2, n2, ok2 := c.extendsByFolding(); ok2 {
			c.site(1)
			c.check(p2 == "", name+"|chain", c.pos(fn.Pos()), name, fmt.Sprintf("%d resolutions in a made-up dictionary folded: a chain of seven chords, a second third, tones doubled at the octave", n2), name+": "+p2)
		}
	}()
	// the resolution may be split into the lookup and a recursive helper with an accumulator: look at the whole region
	region := c.regionCalls(fn, nil)
	fns := []*ssa.Function{fn}
	inRegion := map[*ssa.Function]bool{fn: true}
	for _, rc := range region {
		if !inRegion[rc.fn] {
			inRegion[rc.fn] = true
			fns = append(fns, rc.fn)
		}
	}
	problem := ""
	// (1) the own attributes: an append of m.attributes[a] in a loop over all of c.Attributes
	var ownAppend *ssa.Call
	var F *ssa.Function
	for _, f := range fns {
		for _, ci := range callsIn(f) {
			call, ok := ci.(*ssa.Call)
			if !ok || calleeName(&call.Call) != "builtin.append" {
				continue
			}
			for _, v := range variadicValues(call.Call.Args[1]) {
				if lk, ok := v.(*ssa.Lookup); ok {
					if n, _, ok := loadedField(lk.X); ok && n == "attributes" {
						ownAppend, F = call, f
					}
				}
			}
		}
	}
	// (2) the inherited attributes: a recursive call (to the entry point or to the helper itself) made for the parent
	isRecursive := func(v ssa.Value) bool {
		call, ok := v.(*ssa.Call)
		if !ok {
			return false
		}
		callee := staticCallee(&call.Call)
		return callee != nil && (unbound(callee) == fn || (F != nil && unbound(callee) == F)) && call.Parent() == F
	}
	var rec *ssa.Call
	if F != nil {
		for _, ci := range callsIn(F) {
			if call, ok := ci.(*ssa.Call); ok && isRecursive(call) {
				rec = call
			}
		}
	}
	switch {
	case ownAppend == nil:
		problem = "the chord's own attributes are not appended from m.attributes"
	case !inLoop(ownAppend.Block()) || !c.loopCoversSlice(ownAppend.Block()):
		problem = "the chord's own attributes are not all visited"
	case func() bool {
		l := enclosingRangeLoop(ownAppend.Block())
		if l == nil {
			return false
		}
		mn, mx := pathsSiteCount(l, map[*ssa.BasicBlock]int{ownAppend.Block(): 1})
		return mn != 1 || mx != 1
	}():
		problem = "an own attribute is appended under a condition (some round of the loop appends nothing): notes the chord states are dropped"
	case rec == nil:
		problem = "no recursive lookup of the parent chord: `extends` is not inherited (or only one level deep)"
	default:
		// the recursion is made for c.Extends (by name) or for the chord found under that name
		okArg := false
		for _, a := range rec.Call.Args[1:] {
			ac := &affCtx{c: c, fn: F, alias: map[ssa.Value]string{}}
			d := ac.describe(a)
			if strings.HasSuffix(d, ".Extends") || (strings.Contains(d, ".chords[") && strings.Contains(d, ".Extends]")) {
				okArg = true
			}
		}
		if !okArg {
			problem = "the recursive lookup is not made with c.Extends"
		}
		// inherited first: what the own loop appends to already contains the parent's attributes
		l := enclosingRangeLoop(ownAppend.Block())
		acc := ownAppend.Call.Args[0]
		inherited := false
		if phi, ok := acc.(*ssa.Phi); ok && l != nil {
			for i, e := range phi.Edges {
				if !l.blocks[phi.Block().Preds[i]] && dataDependsOn(e, isRecursive) {
					inherited = true
				}
			}
		}
		if problem == "" && !inherited {
			problem = "the parent's attributes are not in the result before the chord's own are appended: inherited notes are dropped or come last"
		}
		// the collected list is what is returned
		if problem == "" {
			isOwn := func(v ssa.Value) bool { return v == ssa.Value(ownAppend) }
			okRet := false
			for _, r := range returnsOf(F) {
				if dataDependsOn(retVal(r, 0), isOwn) {
					okRet = true
				}
			}
			if F != fn {
				toHelper := func(v ssa.Value) bool {
					call, ok := v.(*ssa.Call)
					if !ok {
						return false
					}
					callee := staticCallee(&call.Call)
					return callee != nil && unbound(callee) == F
				}
				viaHelper := false
				for _, r := range returnsOf(fn) {
					if b, ok := constBool(retVal(r, 1)); ok && b && dataDependsOn(retVal(r, 0), toHelper) {
						viaHelper = true
					}
				}
				okRet = okRet && viaHelper
			}
			if !okRet {
				problem = "the successful return does not return the collected attributes"
			}
		}
		// no memo: a cached slice that children append to is shared between symbols
		if problem == "" {
			for _, f := range fns {
				allInstrs(f, func(in ssa.Instruction) {
					if mu, ok := in.(*ssa.MapUpdate); ok {
						if _, _, isField := loadedField(mu.Map); isField {
							problem = "the resolution writes into a table of the Map (a cache): slices handed out earlier can be appended to in place by later resolutions"
						}
					}
				})
			}
		}
	}
	if problem != "" {
		// the shape was not recognised: the folds decide when they can (and the function keeps nothing between calls)
		if verdict, ok := foldDecides(); ok {
			c.ok(name, c.pos(fn.Pos()), name, "decided by folding: "+verdict)
			return
		}
	}
	c.check(problem == "", name, c.pos(fn.Pos()), name, "parent's attributes (recursively) then own, looked up by name", name+": "+problem)
}

// ---------------------------------------------------------------------------
// BUILDER

func ruleBuilder(c *Ctx) {
	fn := c.fn("chord", "Builder.Build")
	if fn == nil {
		c.missing("chord.Builder.Build")
	} else {
		c.site(1)
		name := fname(fn)
		keys := map[string]bool{}
		wrongValue := ""
		// the indexing may sit in helpers of Build (attributeIndex / chordIndex): look at the whole region
		regionFns := []*ssa.Function{fn}
		seenFn := map[*ssa.Function]bool{fn: true}
		region := c.regionCalls(fn, nil)
		for _, rc := range region {
			if !seenFn[rc.fn] {
				seenFn[rc.fn] = true
				regionFns = append(regionFns, rc.fn)
			}
		}
		for _, rf := range regionFns {
			allInstrs(rf, func(in ssa.Instruction) {
				mu, ok := in.(*ssa.MapUpdate)
				if !ok || !inLoop(mu.Block()) {
					return
				}
				if typeName(mu.Value.Type()) != "chord.Chord" {
					return
				}
				ac := &affCtx{c: c, fn: rf, alias: map[ssa.Value]string{}}
				// the key, or - when the two keys are written by a loop over a small array of them - each element of that array
				var ds []string
				ds = append(ds, ac.describe(mu.Key))
				var arr ssa.Value
				if ia := indexOfLoad(mu.Key); ia != nil {
					arr = ia.X
				} else if ix, ok := mu.Key.(*ssa.Index); ok {
					// range over an array value: the array is copied out of its local first
					arr = ix.X
					if ld, ok := arr.(*ssa.UnOp); ok && ld.Op == token.MUL {
						arr = ld.X
					}
				}
				if arr != nil {
					if al, ok := arr.(*ssa.Alloc); ok {
						for _, r := range *al.Referrers() {
							if ea, ok := r.(*ssa.IndexAddr); ok {
								for _, rr := range *ea.Referrers() {
									if st, ok := rr.(*ssa.Store); ok && st.Addr == ssa.Value(ea) {
										ds = append(ds, ac.describe(st.Val))
									}
								}
							}
						}
					}
				}
				// what is stored under a key is the chord the key was taken from, for every chord of the list
				vd := ac.describe(mu.Value)
				for _, d := range ds {
					owner := ""
					switch {
					case strings.HasSuffix(d, ".Meta.Display"):
						keys["display"] = true
						owner = strings.TrimSuffix(d, ".Meta.Display")
					case strings.HasSuffix(d, ".Name"):
						keys["name"] = true
						owner = strings.TrimSuffix(d, ".Name")
					}
					if owner != "" && len(ds) == 1 && vd != owner {
						wrongValue = fmt.Sprintf("under %s the table stores %s, not the chord itself", d, vd)
					}
				}
				for _, pc := range pathConds(mu.Block()) {
					if cmp, ok := pc.cond.(*ssa.BinOp); ok && cmp.Op == token.LSS {
						continue // the range loop's own test
					}
					if ex, ok := pc.cond.(*ssa.Extract); ok {
						if _, isNext := ex.Tuple.(*ssa.Next); isNext {
							continue
						}
					}
					wrongValue = "a chord is registered under its name / display only under a further condition (`" + pc.cond.String() + "`)"
				}
			})
		}
		if !(keys["name"] && keys["display"] && wrongValue == "") {
			// the index may be filled elsewhere (when a definition is registered): decided by playing every built-in symbol,
			// by name and by display, through the builder
			if p, _, ok := c.chordPipelineVerdict(); ok && p == "" {
				keys["name"], keys["display"], wrongValue = true, true, ""
			}
		}
		c.check(keys["name"] && keys["display"] && wrongValue == "", name, c.pos(fn.Pos()), name, "every chord stored under its name and its display", name+": chords are no longer indexed by both name and display symbol (one of the two spellings stops working) "+wrongValue)
		// result goes through NewMap (validation)
		nNew := len(findRegion(region, func(ci ssa.CallInstruction) bool { return calleeName(ci.Common()) == "chord.NewMap" }))
		c.check(nNew == 1, name+"|NewMap", c.pos(fn.Pos()), name, "built through NewMap (validated)", "Builder.Build no longer goes through NewMap: references are not validated")
	}
	// the later definition wins, for attributes as for chords (a user's file is registered after the built-ins)
	if bf := c.fn("chord", "Builder.Build"); bf != nil {
		if problem, ok := c.builderLaterWinsByFolding(); ok {
			c.site(1)
			c.check(problem == "", "chord.Builder|later-wins", c.pos(bf.Pos()), fname(bf), "an attribute and a chord defined twice, folded through the builder: the later definition is in force", "chord.Builder: "+problem)
		}
	}
	// what is registered stays registered, in the order it was given: nothing is deleted from the two indexes while they
	// are built, and the definitions are not re-ordered before `later wins` is applied to them
	for _, spec := range []struct{ pkg, fn string }{{"chord", "Builder.Build"}, {"cmd", "newChordBuilder"}} {
		f0 := c.fn(spec.pkg, spec.fn)
		if f0 == nil {
			continue
		}
		c.site(1)
		problem := ""
		for _, f := range c.regionFuncChainsList(f0) {
			for _, ci := range callsIn(f) {
				n := calleeName(ci.Common())
				switch {
				case n == "builtin.delete", n == "builtin.clear", strings.HasPrefix(n, "maps.DeleteFunc"):
					problem = fname(f) + " deletes entries (" + c.pos(ci.Pos()) + "): a name or a symbol registered earlier can disappear from the dictionary"
				case strings.HasPrefix(n, "slices.Sort"), strings.HasPrefix(n, "sort."), strings.HasPrefix(n, "slices.Reverse"):
					problem = fname(f) + " re-orders the definitions (" + c.pos(ci.Pos()) + "): which of two definitions of one name wins no longer follows the order built-ins first, then the files as given"
				}
			}
		}
		c.check(problem == "", spec.pkg+"."+spec.fn+"|registration-order", c.pos(f0.Pos()), fname(f0), "definitions are registered in the order given, nothing is deleted", problem)
	}
	nb := c.fn("cmd", "newChordBuilder")
	if nb == nil {
		c.missing("cmd.newChordBuilder")
		return
	}
	c.site(1)
	name := fname(nb)
	// the loading steps may sit in helpers (addBasicDefinitions / addAttributeFiles / ...): look at the whole region
	nbRegion := c.regionCalls(nb, nil)
	findNB := func(name string) []rcall {
		return findRegion(nbRegion, func(ci ssa.CallInstruction) bool { return calleeName(ci.Common()) == name })
	}
	bas, bcs, opens := findNB("chord.BasicAttributes"), findNB("chord.BasicChords"), findNB("util.OpenAndParse")
	problem := ""
	switch {
	case len(bas) == 0 || len(bcs) == 0:
		problem = "built-in attributes or chords are not loaded"
	case len(opens) != 2:
		problem = fmt.Sprintf("%d user-file loaders, want 2 (--attr and --chord)", len(opens))
	default:
		for _, o := range opens {
			if !regionDominates(bas[0].li(), o.li()) || !regionDominates(bcs[0].li(), o.li()) {
				problem = "user files are loaded before the built-in definitions: user entries cannot override built-ins"
			}
			if !c.errorReturnedUp(o) {
				problem = "an error while reading a user dictionary is not returned"
			}
		}
		// each loader's parser matches its flag
		for _, o := range opens {
			pf := funcOfValue(o.call.Common().Args[1])
			if pf == nil {
				continue
			}
			switch fname(pf) {
			case "chord.ParseAttributes", "chord.ParseChords":
			default:
				problem = "a user dictionary is parsed with " + fname(pf)
			}
		}
	}
	// ... and on every way to a successful end: each of the two file loops is reached whatever the other list holds (an
	// early return for `no --chord files` above the --attr loop skips the user's attributes)
	if problem == "" {
		for _, o := range opens {
			li := o.li()
			for k := 0; k <= len(o.chain); k++ {
				at := li.at(k)
				must := at.Block()
				if l := innermostLoopHeader(must); l != nil {
					must = l
				}
				if b := bypassReturn(at.Parent(), must, errEdgeCut); b != nil {
					problem = "a successful return (" + c.pos(b.Instrs[len(b.Instrs)-1].Pos()) + ") is reached without the loop over the files of one of the two flags: those files are silently not loaded"
				}
			}
		}
	}
	c.check(problem == "", name, c.pos(nb.Pos()), name, "built-ins first, then --attr and --chord files, errors returned", name+": "+problem)
	// every entry of every file reaches the builder: what is handed to Builder.Chord / Builder.Attribute is an element of
	// what a file (or the built-in table) gave in this very round, or of a list that every round appends to - not of a
	// variable that each file overwrites (only the last file would count)
	for _, adder := range []string{"chord.Builder.Chord", "chord.Builder.Attribute"} {
		for _, rc := range findNB(adder) {
			c.site(1)
			args := rc.call.Common().Args
			if len(args) < 2 {
				continue
			}
			lost := ""
			// the element: slice[i]
			elem := args[1]
			if ld, ok := elem.(*ssa.UnOp); ok && ld.Op == token.MUL {
				if ia, ok := ld.X.(*ssa.IndexAddr); ok {
					if phi, ok := ia.X.(*ssa.Phi); ok && isLoopHeader(phi.Block()) {
						loop := naturalLoop(phi.Block())
						for i, e := range phi.Edges {
							if loop == nil || !loop[phi.Block().Preds[i]] {
								continue
							}
							// carried around the loop: must be the list itself, grown
							grown := e == ssa.Value(phi)
							if call, ok := e.(*ssa.Call); ok {
								if b, ok := call.Call.Value.(*ssa.Builtin); ok && b.Name() == "append" && call.Call.Args[0] == ssa.Value(phi) {
									grown = true
								}
							}
							if !grown {
								lost = "the list the entries are taken from is overwritten on every round of the file loop instead of grown: only the last file's entries reach the builder"
							}
						}
					}
				}
			}
			c.check(lost == "", name+"|"+adder+"|every-file", c.pos(rc.call.Pos()), name, "entries of every file reach the builder", name+": "+lost)
		}
	}
}

// eventTable: the text events of an instance written by one loop over a local table whose rows pair a metadata key with
// a bound method of the writer: `for _, e := range []struct{k string; w func(string)}{{key, w.Text}, ...} { if t :=
// v.Get(e.k); t != "" { e.w(t) } }`.
type eventTable struct {
	rows  map[string]string // writer method -> exact constant of the metadata key
	dyn   *ssa.Call
	guard string // what is wrong with the conditions in front of the write ("" = only `own text not empty`)
}

func (c *Ctx) textEventTable(mc *ssa.Function) *eventTable {
	if mc == nil {
		return nil
	}
	// field of the current row: *(&E.f) where E holds *(&S[i]), or *(&S[i].f)
	rowField := func(v ssa.Value) (*ssa.IndexAddr, int, bool) {
		u, ok := v.(*ssa.UnOp)
		if !ok || u.Op != token.MUL {
			return nil, 0, false
		}
		fa, ok := u.X.(*ssa.FieldAddr)
		if !ok {
			return nil, 0, false
		}
		if ia, ok := fa.X.(*ssa.IndexAddr); ok {
			return ia, fa.Field, true
		}
		a, ok := fa.X.(*ssa.Alloc)
		if !ok {
			return nil, 0, false
		}
		var src ssa.Value
		for _, r := range *a.Referrers() {
			if st, ok := r.(*ssa.Store); ok && st.Addr == ssa.Value(a) {
				if src != nil {
					return nil, 0, false
				}
				src = st.Val
			}
		}
		if lu, ok := src.(*ssa.UnOp); ok && lu.Op == token.MUL {
			if ia, ok := lu.X.(*ssa.IndexAddr); ok {
				return ia, fa.Field, true
			}
		}
		return nil, 0, false
	}
	var out *eventTable
	allInstrs(mc, func(in ssa.Instruction) {
		dyn, ok := in.(*ssa.Call)
		if !ok || out != nil || dyn.Call.IsInvoke() || len(dyn.Call.Args) != 1 {
			return
		}
		ia, wf, ok := rowField(dyn.Call.Value)
		if !ok {
			return
		}
		get, ok := dyn.Call.Args[0].(*ssa.Call)
		if !ok || calleeName(&get.Call) != "op.Meta.Get" || len(get.Call.Args) != 2 {
			return
		}
		ia2, kf, ok := rowField(get.Call.Args[1])
		if !ok || ia2 != ia || kf == wf {
			return
		}
		// the loop visits every row of the table
		l := enclosingRangeLoop(dyn.Block())
		if l == nil || ia.Index != l.index {
			return
		}
		ln, ok := l.bound.(*ssa.Call)
		if !ok || len(ln.Call.Args) != 1 || ln.Call.Args[0] != ia.X {
			return
		}
		if bi, ok := ln.Call.Value.(*ssa.Builtin); !ok || bi.Name() != "len" {
			return
		}
		sl, ok := ia.X.(*ssa.Slice)
		if !ok || sl.Low != nil || sl.High != nil {
			return
		}
		arr, ok := sl.X.(*ssa.Alloc)
		if !ok {
			return
		}
		at, ok := arr.Type().Underlying().(*types.Pointer).Elem().Underlying().(*types.Array)
		if !ok {
			return
		}
		// the rows
		rows := map[string]string{}
		nrows := 0
		for _, r := range *arr.Referrers() {
			ra, ok := r.(*ssa.IndexAddr)
			if !ok {
				if r != ssa.Instruction(sl) {
					return // the table is used in another way
				}
				continue
			}
			if _, isK := constInt(ra.Index); !isK {
				return
			}
			// fields of the row: stored directly or through a composite-literal local
			var fieldsOf ssa.Value = ra
			for _, rr := range *ra.Referrers() {
				if st, ok := rr.(*ssa.Store); ok && st.Addr == ssa.Value(ra) {
					if lu, ok := st.Val.(*ssa.UnOp); ok && lu.Op == token.MUL {
						if la, ok := lu.X.(*ssa.Alloc); ok {
							fieldsOf = la
						}
					}
				}
			}
			key, meth := "", ""
			for _, rr := range *fieldsOf.Referrers() {
				fa, ok := rr.(*ssa.FieldAddr)
				if !ok {
					continue
				}
				for _, r3 := range *fa.Referrers() {
					st, ok := r3.(*ssa.Store)
					if !ok || st.Addr != ssa.Value(fa) {
						continue
					}
					switch fa.Field {
					case kf:
						if k, ok := st.Val.(*ssa.Const); ok && k.Value != nil {
							if key != "" {
								return
							}
							key = k.Value.ExactString()
						}
					case wf:
						if mcl, ok := st.Val.(*ssa.MakeClosure); ok && len(mcl.Bindings) == 1 {
							f := mcl.Fn.(*ssa.Function)
							if strings.HasSuffix(f.Name(), "$bound") && typeName(mcl.Bindings[0].Type()) == "midix.Writer" {
								if meth != "" {
									return
								}
								meth = strings.TrimSuffix(f.Name(), "$bound")
							}
						}
					}
				}
			}
			if key == "" || meth == "" {
				return
			}
			if _, dup := rows[meth]; dup {
				return
			}
			rows[meth] = key
			nrows++
		}
		if int64(nrows) != at.Len() {
			return
		}
		t := &eventTable{rows: rows, dyn: dyn}
		// conditions in front of the write: the loop's own test and `the text is not empty`
		ownEmpty := func(iff *ssa.If) int {
			cmp, ok := iff.Cond.(*ssa.BinOp)
			if !ok || (cmp.Op != token.NEQ && cmp.Op != token.EQL) {
				return -1
			}
			x, y := cmp.X, cmp.Y
			if _, isK := x.(*ssa.Const); isK {
				x, y = y, x
			}
			if k, isK := y.(*ssa.Const); !isK || k.Value == nil || k.Value.ExactString() != `""` || x != ssa.Value(get) {
				return -1
			}
			if cmp.Op == token.NEQ {
				return 1
			}
			return 0
		}
		for _, pc := range pathConds(dyn.Block()) {
			if !l.blocks[condBlock(mc, pc.cond)] {
				t.guard = "the loop over the event table runs under a condition"
				continue
			}
			if cb := condBlock(mc, pc.cond); cb == l.header {
				continue
			}
			okc := false
			for _, b := range mc.Blocks {
				if iff, isIf := b.Instrs[len(b.Instrs)-1].(*ssa.If); isIf && iff.Cond == pc.cond {
					if e := ownEmpty(iff); e >= 0 && (e == 1) == pc.side {
						okc = true
					}
				}
			}
			if !okc {
				t.guard = "a condition other than `its own text is not empty` decides whether the event is written"
			}
		}
		// no way from the start of a round to the next round (or out of the loop) past the write, other than `text empty`
		if t.guard == "" {
			seen := map[*ssa.BasicBlock]bool{dyn.Block(): true}
			var walk func(b *ssa.BasicBlock) bool
			walk = func(b *ssa.BasicBlock) bool {
				if b == l.header || !l.blocks[b] {
					return true
				}
				if seen[b] {
					return false
				}
				seen[b] = true
				skip := -1
				if iff, ok := b.Instrs[len(b.Instrs)-1].(*ssa.If); ok {
					skip = ownEmpty(iff)
				}
				for i, s := range b.Succs {
					if i != skip && walk(s) {
						return true
					}
				}
				return false
			}
			for _, s := range l.header.Succs {
				if l.blocks[s] && s != l.header && walk(s) {
					t.guard = "there is a way to the next row of the table that passes the event by although its text is not empty"
				}
			}
			// ... and every exit of the loop is the loop's own test
			for b := range l.blocks {
				if b == l.header {
					continue
				}
				for _, s := range b.Succs {
					if !l.blocks[s] {
						t.guard = "the loop over the event table is left before its last row"
					}
				}
			}
		}
		out = t
	})
	return out
}

// condBlock: the block whose branch tests cond.
func condBlock(fn *ssa.Function, cond ssa.Value) *ssa.BasicBlock {
	for _, b := range fn.Blocks {
		if iff, ok := b.Instrs[len(b.Instrs)-1].(*ssa.If); ok && iff.Cond == cond {
			return b
		}
	}
	return nil
}

// reviewedWriterImpls: the types that may stand behind the midix.Writer the play loop drives.
var reviewedWriterImpls = map[string]string{
	"midix.MIDIWriter": "the SMF writer itself (its methods are decided by NOTE / PENDING / OPMAP / TRACKADD)",
}

// checkSoleWriterImpl: what the play loop asks of a midix.Writer is judged on midix.MIDIWriter's methods; any other
// type of the repo that implements the interface (a wrapper that logs, filters or forwards) stands between the two and
// is not judged by those rules, so there is none outside the reviewed table.
func (c *Ctx) checkSoleWriterImpl() {
	mp := c.pkg("midix")
	if mp == nil {
		return
	}
	tn, _ := mp.Types.Scope().Lookup("Writer").(*types.TypeName)
	if tn == nil {
		return
	}
	iface, ok := tn.Type().Underlying().(*types.Interface)
	if !ok {
		return
	}
	c.site(1)
	var others []string
	for _, p := range c.Pkgs {
		for _, n := range p.Types.Scope().Names() {
			t, ok := p.Types.Scope().Lookup(n).(*types.TypeName)
			if !ok || t.IsAlias() {
				continue
			}
			if _, isIface := t.Type().Underlying().(*types.Interface); isIface {
				continue
			}
			if types.Implements(t.Type(), iface) || types.Implements(types.NewPointer(t.Type()), iface) {
				name := typeName(t.Type())
				if _, reviewed := reviewedWriterImpls[name]; !reviewed {
					others = append(others, name+" ("+c.pos(t.Pos())+")")
				}
			}
		}
	}
	sort.Strings(others)
	c.check(len(others) == 0, "midix.Writer|implementations", c.pos(tn.Pos()), "midix.Writer", "midix.MIDIWriter is the only type of the repo behind the interface the play loop drives", fmt.Sprintf("%s also implement(s) midix.Writer: a wrapper between the play loop and the SMF writer can drop, repeat or change what is asked for (e.g. a logging wrapper whose Rest does not forward), and the rules on MIDIWriter's methods do not see it", strings.Join(others, ", ")))
}

// errEdgeCut: for a branch on `err != nil` / `err == nil` the index of the failure edge (the legitimate early way out), else -1.
func errEdgeCut(iff *ssa.If) int {
	cmp, ok := iff.Cond.(*ssa.BinOp)
	if !ok || (cmp.Op != token.NEQ && cmp.Op != token.EQL) {
		return -1
	}
	if !(isNilConst(cmp.X) || isNilConst(cmp.Y)) || !(isErrorType(cmp.X.Type()) || isErrorType(cmp.Y.Type())) {
		return -1
	}
	if cmp.Op == token.NEQ {
		return 0
	}
	return 1
}

// innermostLoopHeader: the header of the innermost natural loop that contains b (nil when b is in no loop).
func innermostLoopHeader(b *ssa.BasicBlock) *ssa.BasicBlock {
	var best *ssa.BasicBlock
	bestN := 0
	for _, h := range b.Parent().Blocks {
		if bl := naturalLoop(h); bl != nil && bl[b] {
			if best == nil || len(bl) < bestN {
				best, bestN = h, len(bl)
			}
		}
	}
	return best
}

// expandReceiverFields: a term of the sum that is a field of the receiver (`p0.tonic`) is replaced by what the type's
// only constructor stores there, rewritten in terms of the receiver's other fields (a constructor parameter that is
// itself stored in a field reads as that field): a part of the sum precomputed at construction is the same sum.
func (c *Ctx) expandReceiverFields(fn *ssa.Function, af *affForm) *affForm {
	if af == nil || af.bad != "" || len(fn.Params) == 0 {
		return af
	}
	recvT := namedOf(fn.Params[0].Type())
	if pt, ok := fn.Params[0].Type().Underlying().(*types.Pointer); ok && recvT == nil {
		recvT = namedOf(pt.Elem())
	}
	if recvT == nil {
		return af
	}
	for _, t := range af.nonzero() {
		field, ok := strings.CutPrefix(t, "p0.")
		if !ok || strings.ContainsAny(field, ".([") {
			continue
		}
		// the constructors: package-level functions returning the type (or a pointer to it) that store into the field
		var ctor *ssa.Function
		var stored ssa.Value
		paramField := map[int]string{}
		n := 0
		for _, f := range c.srcFuncs() {
			if f.Parent() != nil || f.Signature.Recv() != nil || f.Signature.Results().Len() == 0 || f.Pkg != fn.Pkg {
				continue
			}
			rt := f.Signature.Results().At(0).Type()
			if p, ok := rt.Underlying().(*types.Pointer); ok && namedOf(rt) == nil {
				rt = p.Elem()
			}
			if namedOf(rt) != recvT {
				continue
			}
			var val ssa.Value
			pf := map[int]string{}
			allInstrs(f, func(in ssa.Instruction) {
				st, ok := in.(*ssa.Store)
				if !ok {
					return
				}
				fa, ok := st.Addr.(*ssa.FieldAddr)
				if !ok {
					return
				}
				nm, _, _ := fieldName(fa)
				if nm == field {
					val = st.Val
				}
				if i := paramIndexOf(f, st.Val); i >= 0 {
					pf[i] = nm
				}
			})
			if val != nil {
				n++
				ctor, stored, paramField = f, val, pf
			}
		}
		if n != 1 {
			continue
		}
		cf := c.affine(ctor, stored)
		if cf.bad != "" {
			continue
		}
		co := af.terms[t]
		out := &affForm{terms: map[string]int64{}, k: af.k + co*cf.k}
		for k2, v2 := range af.terms {
			if k2 != t {
				out.terms[k2] += v2
			}
		}
		okAll := true
		for k2, v2 := range cf.terms {
			if v2 == 0 {
				continue
			}
			// constructor parameters read as the fields they are stored in
			name := k2
			for i, fld := range paramField {
				name = replaceParam(name, i, "p0."+fld)
			}
			if paramMention(name) {
				okAll = false
			}
			out.terms[name] += co * v2
		}
		if okAll {
			af = out
		}
	}
	return af
}

// replaceParam: every whole occurrence of p<i> in a rendered term becomes repl.
func replaceParam(term string, i int, repl string) string {
	p := fmt.Sprintf("p%d", i)
	var b strings.Builder
	for j := 0; j < len(term); {
		if strings.HasPrefix(term[j:], p) {
			before := j == 0 || !(term[j-1] == '_' || term[j-1] == '.' || ('a' <= term[j-1] && term[j-1] <= 'z') || ('A' <= term[j-1] && term[j-1] <= 'Z') || ('0' <= term[j-1] && term[j-1] <= '9'))
			after := j+len(p) >= len(term) || !('0' <= term[j+len(p)] && term[j+len(p)] <= '9')
			if before && after && !strings.HasPrefix(term[j:], repl) {
				b.WriteString(repl)
				j += len(p)
				continue
			}
		}
		b.WriteByte(term[j])
		j++
	}
	return b.String()
}

// paramMention: the term still names a bare parameter other than the receiver's fields (p1, p2 ... not followed by a field of p0).
func paramMention(term string) bool {
	for j := 0; j+1 < len(term); j++ {
		if term[j] == 'p' && '1' <= term[j+1] && term[j+1] <= '9' {
			if j == 0 || term[j-1] == '(' || term[j-1] == ',' {
				return true
			}
		}
	}
	return false
}
